// mkoverlay generates the `go build -overlay` file that (1) redirects every "sync" import of the repository's
// non-test sources to the scheduling shim and (2) adds the shim as virtual packages of the repository module.
// It works on /repo's *current* working tree and knows no identifier of the repository.
package main

import (
	"encoding/json"
	"flag"
	"fmt"
	"go/ast"
	"go/parser"
	"go/token"
	"os"
	"path/filepath"
	"strings"
)

const modPath = "gitee.com/xuesongtao/protoc-go-valid"

var (
	repo     = "/repo" // VERIF_REPO overrides (evaluation of a seeded change in a scratch worktree)
	shimRoot = "/verif/shim"
)

// rewriteGoStmts replaces every `go f(a, b)` by
//
//	func() { _vgo0, _vgo1 := a, b; verifshimvsched.Go(func() { f(_vgo0, _vgo1) }) }()
//
// (arguments are evaluated at the go statement, as the language says; literal arguments stay in place) and adds the
// import. ok is false when the file has no go statement or does not parse.
func rewriteGoStmts(src string) (string, bool) {
	out := src
	n := 0
	var pkgEnd int
	for {
		fset := token.NewFileSet()
		f, err := parser.ParseFile(fset, "x.go", out, parser.ParseComments)
		if err != nil {
			return "", false
		}
		off := func(p token.Pos) int { return fset.Position(p).Offset }
		pkgEnd = off(f.Name.End())
		// one statement per parse (the innermost last one), so that offsets are always those of the current text
		var g *ast.GoStmt
		ast.Inspect(f, func(nd ast.Node) bool {
			if x, ok := nd.(*ast.GoStmt); ok {
				g = x
			}
			return true
		})
		if g == nil {
			break
		}
		n++
		call := g.Call
		fun := out[off(call.Fun.Pos()):off(call.Fun.End())]
		var temps, vals, args []string
		for k, a := range call.Args {
			text := out[off(a.Pos()):off(a.End())]
			if _, lit := a.(*ast.BasicLit); lit {
				args = append(args, text)
				continue
			}
			if id, isID := a.(*ast.Ident); isID && (id.Name == "nil" || id.Name == "true" || id.Name == "false") {
				args = append(args, text)
				continue
			}
			t := fmt.Sprintf("_vgo%d", k)
			temps = append(temps, t)
			vals = append(vals, text)
			args = append(args, t)
		}
		ell := ""
		if call.Ellipsis.IsValid() {
			ell = "..."
		}
		pre := ""
		if len(temps) > 0 {
			pre = strings.Join(temps, ", ") + " := " + strings.Join(vals, ", ") + "; "
		}
		repl := "func() { " + pre + "verifshimvsched.Go(func() { " + fun + "(" + strings.Join(args, ", ") + ell + ") }) }()"
		out = out[:off(g.Pos())] + repl + out[off(g.End()):]
	}
	if n == 0 {
		return "", false
	}
	// import, right after the package clause (same line: line numbers are preserved)
	out = out[:pkgEnd] + "; import verifshimvsched \"" + modPath + "/verifshim/vsched\"" + out[pkgEnd:]
	return out, true
}

func main() {
	out := flag.String("o", "/verif/.build/overlay.json", "overlay file")
	flag.Parse()
	if d := os.Getenv("VERIF_DIR"); d != "" {
		shimRoot = filepath.Join(d, "shim")
	}
	if d := os.Getenv("VERIF_REPO"); d != "" {
		repo = d
	}
	gen := filepath.Join(filepath.Dir(*out), "overlay-src")
	os.RemoveAll(gen)
	os.MkdirAll(gen, 0755)
	replace := map[string]string{}
	n := 0
	err := filepath.Walk(repo, func(path string, info os.FileInfo, err error) error {
		if err != nil {
			return err
		}
		if info.IsDir() {
			b := info.Name()
			if path != repo && (strings.HasPrefix(b, ".") || b == "testdata" || b == "vendor" || b == "verifshim") {
				return filepath.SkipDir
			}
			return nil
		}
		if !strings.HasSuffix(path, ".go") || strings.HasSuffix(path, "_test.go") {
			return nil
		}
		src, err := os.ReadFile(path)
		if err != nil {
			return err
		}
		fset := token.NewFileSet()
		f, err := parser.ParseFile(fset, path, src, parser.ImportsOnly)
		if err != nil {
			return nil // the build will report it
		}
		// splice the import specs from the last to the first so that earlier offsets stay valid
		ns := string(src)
		changed := false
		for i := len(f.Imports) - 1; i >= 0; i-- {
			im := f.Imports[i]
			var shim, alias string
			switch im.Path.Value {
			case `"sync"`:
				shim, alias = "vsync", "sync"
			case `"sync/atomic"`:
				shim, alias = "vatomic", "atomic"
			default:
				continue
			}
			if im.Name != nil {
				alias = im.Name.Name
			}
			s, e := fset.Position(im.Pos()).Offset, fset.Position(im.End()).Offset
			ns = ns[:s] + alias + ` "` + modPath + `/verifshim/` + shim + `"` + ns[e:]
			changed = true
		}
		// go statements become calls of vsched.Go (the new goroutine is then a thread of the controlled scheduler)
		if rewritten, ok := rewriteGoStmts(ns); ok {
			ns = rewritten
			changed = true
		}
		if changed {
			rel, _ := filepath.Rel(repo, path)
			dst := filepath.Join(gen, strings.ReplaceAll(rel, "/", "__"))
			if err := os.WriteFile(dst, []byte(ns), 0644); err != nil {
				return err
			}
			replace[path] = dst
			n++
		}
		return nil
	})
	if err != nil {
		fmt.Fprintln(os.Stderr, err)
		os.Exit(1)
	}
	for _, pkg := range []string{"vsync", "vsched", "vatomic"} {
		files, _ := filepath.Glob(filepath.Join(shimRoot, pkg, "*.go"))
		for _, f := range files {
			replace[filepath.Join(repo, "verifshim", pkg, filepath.Base(f))] = f
		}
	}
	b, _ := json.MarshalIndent(map[string]interface{}{"Replace": replace}, "", " ")
	if err := os.WriteFile(*out, b, 0644); err != nil {
		fmt.Fprintln(os.Stderr, err)
		os.Exit(1)
	}
	fmt.Printf("overlay: %d file(s) with sync import rewritten\n", n)
}
