#!/bin/bash
# runall.sh <tier> <log>: runs every check of MANIFEST.json on /repo's working tree, one after the other, and writes one
# line per check ("Cxx rc=<exit> t=<seconds>s <summary line>") to <log> (the input of tools/mkdesign.py).
tier="${1:-quick}"; log="${2:-/dev/stdout}"
cd "$(dirname "$0")/.."
: > "$log"
for i in $(seq -w 1 20); do
  id="C$i"; s=$(date +%s)
  out=$(./check "$id" "$tier" 2>&1); rc=$?
  e=$(( $(date +%s) - s ))
  echo "$id rc=$rc t=${e}s $(echo "$out" | grep -E "^$id $tier:" | tail -1)" >> "$log"
  echo "$out" | grep -E "^VIOLATION|HARNESS-ERROR" | head -3 >> "$log"
done
