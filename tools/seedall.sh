#!/bin/bash
# seedall.sh [tier...]  — evaluates every seeded change under /verif/seeded with tools/seedeval.py (serially: each
# one patches /repo for the duration of its check) and writes seeded/<id>/eval.json plus seeded/RESULTS.md.
# Run it from the tree named by VERIF_DIR (default /verif); results are written to /verif/seeded.
vd="${VERIF_DIR:-/verif}"
for d in /verif/seeded/C*-*; do
  [ -f "$d/patch.diff" ] || continue
  python3 "$vd/tools/seedeval.py" "$d" "$@" > "$d/eval.json.tmp" 2>/dev/null && mv "$d/eval.json.tmp" "$d/eval.json" || { echo "seedeval failed for $d"; rm -f "$d/eval.json.tmp"; }
done
python3 "$vd/tools/seedresults.py"
