#!/bin/bash
# seedall.sh [tier...]  — evaluates every seeded change under /verif/seeded with tools/seedeval.py --isolated
# (each in its own scratch worktree of /repo and its own copy of the verification tree, 4 at a time; /repo itself is
# not touched) and writes seeded/<id>/eval.json plus seeded/RESULTS.md.  SEED_JOBS overrides the parallelism;
# SEED_INPLACE=1 uses the prescribed apply-to-/repo / run / undo procedure instead (serial).
vd="${VERIF_DIR:-/verif}"
mode="--isolated"; jobs="${SEED_JOBS:-4}"
if [ -n "$SEED_INPLACE" ]; then mode=""; jobs=1; fi
ls -d /verif/seeded/C*-* | xargs -P "$jobs" -I{} sh -c "[ -f {}/patch.diff ] && python3 $vd/tools/seedeval.py {} $* $mode > {}/eval.json.tmp 2>/dev/null && mv {}/eval.json.tmp {}/eval.json || { echo 'seedeval failed for {}'; rm -f {}/eval.json.tmp; }"
python3 "$vd/tools/seedresults.py"
