#!/usr/bin/env python3
"""seedeval.py <seed-dir> [tier]

Confirms a seeded property-breaking change independently and runs the property's check against it.
<seed-dir> holds patch.diff, meta.json (property, demo_dir, demo_cmd) and the demonstration file(s).

 1. fresh scratch worktree of /repo HEAD (outside /repo and /verif), demonstration copied in:
    demonstration must PASS without the change;
 2. patch applied there: project must build, the pinned test suite must PASS, the demonstration must FAIL;
 3. worktree removed (with its build output);
 4. patch applied to /repo, ./check <property> <tier> run, /repo restored (git checkout -- . && git clean of added files).
Prints one JSON line with the outcome.
"""
import json, os, re, shutil, subprocess, sys, tempfile

ENV = dict(os.environ, GOFLAGS='-mod=mod', GOPROXY='off', GOSUMDB='off', GOTOOLCHAIN='local')


def sh(cmd, cwd=None, timeout=1800):
    p = subprocess.run(cmd, shell=True, cwd=cwd, env=ENV, stdout=subprocess.PIPE, stderr=subprocess.STDOUT, text=True, errors='replace', timeout=timeout)
    return p.returncode, p.stdout


def main():
    seed = os.path.abspath(sys.argv[1])
    global tiers
    tiers = [a for a in sys.argv[2:] if not a.startswith('--')] or ['quick']
    if '--no-check' in sys.argv:
        tiers = []
    meta = json.load(open(os.path.join(seed, 'meta.json')))
    prop = meta['property']
    for a in sys.argv:
        if a.startswith('--prop='):  # run another property's check against this change
            prop = a.split('=', 1)[1]
    res = {'seed': seed, 'property': prop}
    wt = tempfile.mkdtemp(prefix='seedeval-', dir='/tmp')
    os.rmdir(wt)
    rc, out = sh(f'git -C /repo worktree add -q --detach {wt} HEAD')
    assert rc == 0, out
    try:
        # the pinned suite with the change, before any demonstration file is present
        rc, out = sh(f'git apply {seed}/patch.diff', cwd=wt)
        res['applies'] = rc == 0
        if rc != 0:
            res['apply_err'] = out[-400:]
        else:
            rc, out = sh('go build ./... && go test -vet=off -count=1 ./...', cwd=wt)
            res['suite_with_change'] = 'pass' if rc == 0 else 'FAIL'
            if rc != 0:
                res['suite_tail'] = out[-600:]
            sh(f'git apply -R {seed}/patch.diff', cwd=wt)
        demo_dir = (meta.get('demo_dir') or '').strip()
        demo_dir = re.sub(r'^/tmp/wt/C\d\d/?', '', demo_dir).strip('/')
        if demo_dir == '.':
            demo_dir = ''
        dst = os.path.join(wt, demo_dir) if demo_dir else wt
        os.makedirs(dst, exist_ok=True)
        for f in os.listdir(seed):
            if f in ('patch.diff', 'meta.json', 'eval.json') or f.endswith('.md'):
                continue
            src = os.path.join(seed, f)
            if os.path.isdir(src):
                shutil.copytree(src, os.path.join(dst, f))
            else:
                shutil.copy(src, dst)
        cmd = meta['demo_cmd']
        cmd = re.sub(r'/tmp/wt/C\d\d', wt, cmd)
        cmd = cmd.replace(seed, dst)
        cmd = re.sub(r'/tmp/seeds/C\d\d/\d', dst, cmd)
        res['demo_cmd'] = cmd
        rc, out = sh(cmd, cwd=wt)
        res['demo_without_change'] = 'pass' if rc == 0 else 'FAIL'
        res['demo_without_tail'] = out[-400:] if rc != 0 else ''
        if res['applies']:
            sh(f'git apply {seed}/patch.diff', cwd=wt)
            rc, out = sh(cmd, cwd=wt)
            res['demo_with_change'] = 'fail' if rc != 0 else 'PASSES'
            res['demo_with_tail'] = out[-300:] if rc != 0 else ''
        if '--isolated' in sys.argv and res.get('applies'):
            # run the check(s) against this worktree (patch applied, demonstration files removed) from a private copy of
            # the verification tree: /repo is not touched, so evaluations can run side by side
            sh('git clean -fdq', cwd=wt)
            vd = os.environ.get('VERIF_DIR', '/verif')
            job = tempfile.mkdtemp(prefix='vjob-', dir='/dev/shm' if os.path.isdir('/dev/shm') else '/tmp')
            try:
                sh(f'rsync -a --exclude .git --exclude .build --exclude replays --exclude seeded {vd}/ {job}/')
                for tier in tiers:
                    rc, out = sh(f'VERIF_DIR={job} VERIF_REPO={wt} {job}/check {prop} {tier}', cwd=job, timeout=7200)
                    record(res, tier, rc, out)
                    if rc == 1:
                        break
            finally:
                shutil.rmtree(job, ignore_errors=True)
            tiers = []
    finally:
        sh(f'git -C /repo worktree remove --force {wt}')
        shutil.rmtree(wt, ignore_errors=True)
    res['confirmed'] = bool(res.get('demo_without_change') == 'pass' and res.get('applies') and res.get('suite_with_change') == 'pass' and res.get('demo_with_change') == 'fail')
    # the prescribed way: apply to /repo, run the check, undo
    if res.get('applies') and tiers:
        if subprocess.run('git -C /repo status --porcelain --untracked-files=no', shell=True, capture_output=True, text=True).stdout.strip():
            print('REPO-DIRTY'); sys.exit(9)
        for tier in tiers:
            rc, out = sh(f'git -C /repo apply {seed}/patch.diff')
            assert rc == 0, out
            try:
                vd = os.environ.get('VERIF_DIR', '/verif')
                rc, out = sh(f'{vd}/check {prop} {tier}', cwd=vd, timeout=7200)
            finally:
                sh('git -C /repo checkout -- . && git -C /repo clean -fdq')
            record(res, tier, rc, out)
            if rc == 1:
                break
    res.pop('demo_without_tail', None) if res.get('demo_without_change') == 'pass' else None
    print(json.dumps(res, ensure_ascii=False, indent=1))


def record(res, tier, rc, out):
    viol = [l for l in out.splitlines() if l.startswith('VIOLATION')]
    res[f'check_{tier}'] = {'exit': rc, 'violations': len(viol), 'first': [l[:240] for l in out.splitlines() if l.startswith('  signature=')][:3],
                            'summary': out.strip().splitlines()[-1][:240] if out.strip() else ''}


if __name__ == '__main__':
    main()
