#!/usr/bin/env python3
"""Regenerates /verif/MANIFEST.json from the harness directories that exist (so it is valid at all times)."""
import json, os, sys
V = '/verif'
META = {
 'C01': ('E-enum', 'bounded-exhaustive enumeration of rule x kind x bounds x values x carriers on the real entry points vs interval reference model', '5/C01'),
 'C02': ('E-enum', 'bounded-exhaustive enumeration of synthesised struct types x rule lists x values vs walk reference model (clause list, order, separators)', '5/C02'),
 'C03': ('E-enum', 'complete product of supported field types x emptiness x rules x four entry points vs emptiness model', '5/C03'),
 'C04': ('E-enum', 'bounded-exhaustive enumeration of acyclic object graphs (depth<=3, thorough 4; chains to depth 200; 130-field structs; shared sub-objects) vs walk reference model (expected path set), on the default type cache and again on the one-entry LRU of the library', '5/C04'),
 'C05': ('E-enum', 'exhaustive strings over small alphabets + complete one-edit neighbourhoods of members vs independent recognisers', '5/C05'),
 'C06': ('E-enum', 'bounded-exhaustive enumeration of Go source files from a field-shape grammar through ParseFile/WriteFile and the built CLI vs independent tag merger', '5/C06'),
 'C07': ('E-seq', 'explicit-state BFS over directory states under real CLI/library runs until closure; idempotence invariants on every transition', '5/C07'),
 'C08': ('E-seq', 'all call histories up to a depth x cache configurations x start states (cold, warmed, flushed, churned to every residue of the LRU rebuild counter) x enumerated cache Load-miss answers, plus worker modes on the package default, the LRU(0/1/2) of the library and a sync.Map handed over directly, vs pure-function model + cross-configuration differential', '5/C08'),
 'C09': ('E-seq', 'all operation sequences up to a depth on the real LRUCache, lock-step against a reference LRU model', '5/C09'),
 'C10': ('E-sched', 'stateless model checking: all interleavings (preemption-bounded / unbounded) of 2-4 thread harnesses on the real LRUCache under a controlled scheduler (incl. operations that fail inside the critical section and values that are not comparable); linearizability (porcupine + brute force) and race detector on every schedule', '5/C10'),
 'C11': ('E-sched', 'stateless model checking of 2-4 concurrent validation calls under a controlled scheduler with sync.Pool answers as choice points, on wrapped caches, the LRU(1) of the library and a sync.Map handed over directly; solo-result oracle + race detector on every schedule', '5/C11'),
 'C12': ('E-seq', 'all call sequences/permutations up to a depth, single-threaded under the controlled scheduler so every sync.Pool answer is enumerated; fresh-state oracle + aliasing re-reads', '5/C12'),
 'C13': ('E-enum', 'value-shape catalogue x entry points and bounded-exhaustive rule-text spaces (token sequences, all single-byte edits of seed rules); oracle = returns normally', '5/C13'),
 'C14': ('E-enum', 'all rule lists over keys x values x messages through GenValidKV/RM.Set/ValidNamesSplit/ParseValidNameKV + all strings up to a length for the no-loss law', '5/C14'),
 'C15': ('E-enum', 'every message-capable rule x message class x carrier, and all clause-kind sequences up to length 5 realised by real validation calls, vs extractor model', '5/C15'),
 'C16': ('E-enum', 'complete product of tag rules x typed/unscoped rule sets x function definitions (per-call/global/built-in) vs selection model', '5/C16'),
 'C17': ('E-enum', 'all group-id assignments x value assignments x object placements x entry points vs per-object group model', '5/C17'),
 'C18': ('E-enum', 'relational: same rule/value through every carrier, violated-rule sets compared across carriers over an enumerated rule x value space', '5/C18'),
 'C19': ('E-enum', 'all directories (ordered tuples of 40 entry kinds incl. stale siblings) x CLI modes and mode sequences on the built CLI; byte-identity / isolation oracle against each file processed alone + independent injection model', '5/C19'),
 'C20': ('E-enum', 'all types from a depth-bounded type grammar x value menu; dumper output vs normalised encoding/json document; plus 2-3 concurrent dumper calls on per-execution fresh types under the controlled scheduler (solo oracle, race detector)', '5/C20'),
}
checks = []
for pid in sorted(META):
    if not os.path.isdir(f'{V}/harness/{pid.lower()}'):
        continue
    eng, tech, ref = META[pid]
    checks.append({
        'property_id': pid,
        'quick_cmd': f'./check {pid} quick',
        'thorough_cmd': f'./check {pid} thorough',
        'evidence_file': f'/verif/evidence/{pid}.json',
        'replay_cmd_template': f'./check {pid} --replay {{path}}',
        'engine': eng,
        'level_claimed': {'category': 'model_checking',
                          'text': 'Exhaustive exploration of a stated bounded space of behaviours on the real implementation, every explored behaviour compared with a reference model: ' + tech + '. The evidence reports the spaces completed, states/transitions and whether a cap was hit.',
                          'design_ref': 'DESIGN.md §' + ref},
        'level_note': 'Trusted: the reference model/oracle in /verif/internal and harness; Go toolchain, reflect, go/parser; bounds and alphabets as stated in DESIGN.md §5 (nothing outside them is claimed). Go map iteration order is not controllable; oracles are order-insensitive where the property says so.',
        'technique': 'model checking: ' + tech,
    })
claimed = {c['property_id'] for c in checks}
na = [{'property_id': p, 'reason': 'check not built yet in this tree (work in progress); not a statement that model checking cannot apply'} for p in sorted(META) if p not in claimed]
m = {
 'version': 1,
 'setup_cmd': './setup.sh',
 'hooks': {'guard': 'verif', 'enable': 'no guarded source exists in /repo: instrumentation (sync and sync/atomic -> scheduling shims) is injected at build time with `go build -overlay` generated from /repo\'s current working tree by cmd/mkoverlay',
           'baseline_off_cmd': 'cd /repo && GOFLAGS=-mod=mod GOPROXY=off GOSUMDB=off GOTOOLCHAIN=local go test -vet=off -count=1 ./...',
           'source_commits': [], 'add_only': True},
 'engines': [
  {'name': 'E-sched', 'path': 'shim/vsched', 'serves_properties': ['C10', 'C11', 'C12', 'C20'], 'kind_free_text': 'hand-written stateless model checker for Go: cooperative controlled scheduler (sync.Mutex/RWMutex with writer preference, Pool, Once, Map and sync/atomic hooked through a build overlay) + DFS with iterative preemption/deviation bounding; real race detector on every schedule; one-process-per-execution fallback when process-global state survives between executions'},
  {'name': 'E-seq', 'path': 'internal/runner', 'serves_properties': ['C07', 'C08', 'C09', 'C12'], 'kind_free_text': 'explicit enumeration of all operation sequences / histories up to a depth on the real code vs reference model'},
  {'name': 'E-enum', 'path': 'internal/runner', 'serves_properties': ['C01', 'C02', 'C03', 'C04', 'C05', 'C06', 'C13', 'C14', 'C15', 'C16', 'C17', 'C18', 'C19', 'C20'], 'kind_free_text': 'bounded-exhaustive (small-scope) enumeration of inputs/programs vs reference model, sharded over worker subprocesses'},
 ],
 'checks': checks,
 'not_applicable': na,
 'notes': 'See DESIGN.md. ./check <id> <tier> rebuilds the harness from /repo\'s working tree (go build, replace => /repo) on every run. known_findings.json lists genuine defects (fixed / known).',
}
json.dump(m, open(f'{V}/MANIFEST.json', 'w'), indent=1, ensure_ascii=False)
print('checks:', sorted(claimed), 'n/a:', [x['property_id'] for x in na])
