#!/usr/bin/env python3
"""mkdesign.py <quick-log> <thorough-log>: refreshes the generated tables of DESIGN.md (between <!-- X --> markers)
from the per-check summary lines of a full quick and a full thorough run, known_findings.json, /repo's git log and
seeded/RESULTS.md."""
import json, re, subprocess, sys
D = '/verif/DESIGN.md'
s = open(D).read()

def block(name, body):
    global s
    a, b = f'<!-- {name} -->', f'<!-- /{name} -->'
    if a in s:
        s = s[:s.index(a)] + a + '\n' + body + '\n' + s[s.index(b):]
    elif name in s:
        s = s.replace(name, a + '\n' + body + '\n' + b, 1)

def parse(path):
    out = {}
    for l in open(path):
        m = re.match(r'(C\d\d) rc=(\d+) t=([\d.]+)s.*?cases=(\d+) evaluated=(\d+) nontrivial=(\d+) states=(\d+) transitions=(\d+) outcomes=(\d+) exhaustive=(\w+) known=(\d+) unlisted=(\d+)', l)
        if m:
            out[m.group(1)] = m.groups()
    return out
q, t = parse(sys.argv[1]), parse(sys.argv[2])
rows = ['| check | quick: evaluated cases / impl. operations / wall | thorough: evaluated cases / impl. operations / wall | KNOWN-FINDING lines |', '|---|---|---|---|']
for c in sorted(q):
    a = q[c]; b = t.get(c)
    rows.append(f'| {c} | {int(a[4]):,} / {int(a[7]):,} / {a[2]} s | ' + (f'{int(b[4]):,} / {int(b[7]):,} / {b[2]} s' if b else 'n/a') + f' | {a[10]} |')
block('QUICKTABLE', '\n'.join(rows))

kf = json.load(open('/verif/known_findings.json'))['findings']
log = subprocess.run('git -C /repo log --format=%h%x09%s', shell=True, capture_output=True, text=True).stdout.splitlines()
subj = {l.split('\t')[0]: l.split('\t')[1] for l in log if '\t' in l}
by = {}
for f in kf:
    if f['status'] == 'fixed':
        by.setdefault(f['commit'], []).append(f)
rows = ['| commit | subject | found by (property: signature) |', '|---|---|---|']
for l in log:
    h = l.split('\t')[0]
    if h in by:
        rows.append(f"| {h} | {subj[h]} | " + '; '.join(f"{x['property']}: `{x['signature']}`" for x in by[h]) + ' |')
block('FIXTABLE', '\n'.join(rows))
try:
    res = open('/verif/seeded/RESULTS.md').read()
    tab = res[res.index('| id |'):]
    block('SEEDTABLE', 'Last full evaluation (`seeded/RESULTS.md`):\n\n' + tab.strip())
except Exception as e:
    print('no seeded results:', e)
open(D, 'w').write(s)
print('DESIGN.md tables refreshed')
