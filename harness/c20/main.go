// C20 — the struct dumper emits well-formed JSON matching the standard encoder.
// E-enum over programs: every struct type produced by a depth-bounded type grammar (reflect.StructOf; exported and
// unexported fields in every position, empty structs, pointers to structs, slices, string- and integer-keyed maps,
// nesting to depth 3) x a value-profile menu (zero / nil, one entry, two entries, empty non-nil) x {T, *T}.
// Oracle: GetDumpStructStr(v) is well-formed JSON (encoding/json.Valid and the independent RFC 8259 recogniser) and
// decodes to the document of the standard encoder normalised by the documented deviations.
package main

import (
	"time"
	"bytes"
	"encoding/json"
	"fmt"
	"math"
	"math/big"
	"reflect"
	"regexp"
	"strings"

	"gitee.com/xuesongtao/protoc-go-valid/valid"
	"verif/internal/lang"
	"verif/internal/runner"
)

const pkgPath = "verif/harness/c20"

var doubledKey = regexp.MustCompile(`[{,]""[^,\]}]`)

// ty is one type of the grammar.
type ty struct {
	t    reflect.Type
	desc string
	nt   bool // contains an empty struct, a map, a bool or a leading unexported field
}

type fld struct {
	t        ty
	exported bool
}

// named types with String methods (what protoc generates for enums)
type Lvl int

func (l Lvl) String() string { return fmt.Sprintf("LEVEL_%d", int(l)) }

type Ulvl uint8

func (l Ulvl) String() string { return "U" }

type NickS string

func (n NickS) String() string { return "nick:" + string(n) }

func mkStruct(fs []fld) ty {
	var sf []reflect.StructField
	var d []string
	nt := false
	for i, f := range fs {
		name := string(rune('A' + i))
		if !f.exported {
			name = string(rune('a' + i))
			sf = append(sf, reflect.StructField{Name: name, Type: f.t.t, PkgPath: pkgPath})
			if i == 0 {
				nt = true
			}
		} else {
			sf = append(sf, reflect.StructField{Name: name, Type: f.t.t})
		}
		if f.t.nt {
			nt = true
		}
		d = append(d, name+" "+f.t.desc)
	}
	if len(fs) == 0 {
		nt = true
	}
	return ty{reflect.StructOf(sf), "struct{" + strings.Join(d, "; ") + "}", nt}
}

func ptrTo(e ty) ty   { return ty{reflect.PointerTo(e.t), "*" + e.desc, e.nt} }
func sliceOf(e ty) ty { return ty{reflect.SliceOf(e.t), "[]" + e.desc, e.nt} }
func mapOf(k reflect.Type, e ty) ty {
	return ty{reflect.MapOf(k, e.t), "map[" + k.String() + "]" + e.desc, true}
}

var (
	tString = ty{reflect.TypeOf(""), "string", false}
	tBool   = ty{reflect.TypeOf(false), "bool", true}
	tInt    = ty{reflect.TypeOf(int(0)), "int", false}
	tF64    = ty{reflect.TypeOf(float64(0)), "float64", false}
)

func scalarsAll() []ty {
	return []ty{tString, tBool, tInt,
		{reflect.TypeOf(int8(0)), "int8", false}, {reflect.TypeOf(int16(0)), "int16", false}, {reflect.TypeOf(int32(0)), "int32", false}, {reflect.TypeOf(int64(0)), "int64", false},
		{reflect.TypeOf(uint(0)), "uint", false}, {reflect.TypeOf(uint8(0)), "uint8", false}, {reflect.TypeOf(uint16(0)), "uint16", false}, {reflect.TypeOf(uint32(0)), "uint32", false}, {reflect.TypeOf(uint64(0)), "uint64", false},
		tF64, {reflect.TypeOf(float32(0)), "float32", false}}
}

func scalarsMid() []ty {
	return []ty{tString, tBool, tInt, {reflect.TypeOf(int8(0)), "int8", false}, {reflect.TypeOf(int64(0)), "int64", false},
		{reflect.TypeOf(uint(0)), "uint", false}, {reflect.TypeOf(uint16(0)), "uint16", false}, tF64, {reflect.TypeOf(float32(0)), "float32", false}}
}

// smallStructs: the struct shapes used as elements.
func smallStructs() []ty {
	return []ty{
		mkStruct(nil),
		mkStruct([]fld{{tInt, true}}),
		mkStruct([]fld{{tInt, false}}),
		mkStruct([]fld{{tInt, false}, {tString, true}}),
		mkStruct([]fld{{tString, true}, {tBool, true}}),
	}
}

// level1: scalars, collections of reduced scalars, small structs and pointers to them.
func level1(scalars []ty, reducedElems []ty, structs []ty) []ty {
	out := append([]ty{}, scalars...)
	for _, e := range reducedElems {
		if e.t.Kind() != reflect.Uint8 { // []uint8 is base64 text for the standard encoder: not generated (DESIGN §7)
			out = append(out, sliceOf(e))
		}
		out = append(out, mapOf(tString.t, e), mapOf(tInt.t, e))
	}
	for _, s := range structs {
		out = append(out, s, ptrTo(s))
	}
	return out
}

// wrap: the seven constructors applied to an element type.
func wrap(e ty) []ty {
	return []ty{
		sliceOf(e), mapOf(tString.t, e), mapOf(reflect.TypeOf(int64(0)), e),
		mkStruct([]fld{{e, true}}),
		mkStruct([]fld{{e, false}, {e, true}}),
		ptrTo(mkStruct([]fld{{e, true}})),
		mkStruct([]fld{{e, true}, {e, true}}),
	}
}

// ---- values ----

var (
	strs = []string{"", "a", "中 b", "x-y_z.1"}
	// characters that need no escape in JSON but are unusual: DEL, a non-printable supplementary-plane rune, U+2028,
	// HTML-significant characters, emoji, a 2-byte rune (profiles >= 4)
	strsAlt = []string{"a\u007fb", "\U000E0001", "é😀\u2028", "<a&b>'"}
	mapKs   = []string{"k", "", "é\u007f\U000E0001"}
	mapKi   = []int64{1, -2, 30}
	f64s    = []float64{0, 1.5, -0.25, 1e6}
	f64alt  = []float64{123456.789, -1e-3, 0.1, 65536}
)

func val(t reflect.Type, p int) reflect.Value {
	v := reflect.New(t).Elem()
	switch t.Kind() {
	case reflect.String:
		if p >= 4 {
			v.SetString(strsAlt[p%4])
		} else {
			v.SetString(strs[p%4])
		}
	case reflect.Bool:
		v.SetBool(p%4 == 1 || p%4 == 2)
	case reflect.Int, reflect.Int8, reflect.Int16, reflect.Int32, reflect.Int64:
		switch p % 4 {
		case 1:
			v.SetInt(7)
		case 2:
			v.SetInt(-1)
		case 3:
			v.SetInt(int64(1)<<(uint(t.Bits())-1) - 1)
		}
	case reflect.Uint, reflect.Uint8, reflect.Uint16, reflect.Uint32, reflect.Uint64:
		switch p % 4 {
		case 1:
			v.SetUint(7)
		case 2:
			v.SetUint(1)
		case 3:
			v.SetUint(uint64(math.MaxUint64) >> (64 - uint(t.Bits())))
		}
	case reflect.Float64:
		if p >= 4 {
			v.SetFloat(f64alt[p%4])
		} else {
			v.SetFloat(f64s[p%4])
		}
	case reflect.Float32:
		v.SetFloat(f64s[p%4]) // dyadic values only: exact in both renderings (DESIGN §7)
	case reflect.Ptr:
		if p%4 == 1 || p%4 == 2 {
			n := reflect.New(t.Elem())
			n.Elem().Set(val(t.Elem(), p))
			v.Set(n)
		}
	case reflect.Slice:
		switch p % 4 {
		case 1:
			v.Set(reflect.Append(v, val(t.Elem(), 1)))
		case 2:
			v.Set(reflect.Append(v, val(t.Elem(), 2), val(t.Elem(), 0)))
		case 3:
			v.Set(reflect.MakeSlice(t, 0, 0))
		}
	case reflect.Map:
		key := func(i int) reflect.Value {
			k := reflect.New(t.Key()).Elem()
			if t.Key().Kind() == reflect.String {
				k.SetString(mapKs[i])
			} else {
				k.SetInt(mapKi[i])
			}
			return k
		}
		switch p % 4 {
		case 1:
			v.Set(reflect.MakeMap(t))
			v.SetMapIndex(key(0), val(t.Elem(), 1))
		case 2:
			v.Set(reflect.MakeMap(t))
			v.SetMapIndex(key(0), val(t.Elem(), 2))
			v.SetMapIndex(key(1), val(t.Elem(), 0))
			v.SetMapIndex(key(2), val(t.Elem(), 3))
		case 3:
			v.Set(reflect.MakeMap(t))
		}
	case reflect.Struct:
		if p%4 == 0 && p < 4 {
			return v
		}
		for i := 0; i < t.NumField(); i++ {
			if t.Field(i).PkgPath != "" {
				continue
			}
			v.Field(i).Set(val(t.Field(i).Type, p+i))
		}
	}
	return v
}

// deepVal fills every pointer, every slice and map with one entry and scalars with non-zero values, to any depth.
func deepVal(t reflect.Type) reflect.Value {
	v := reflect.New(t).Elem()
	switch t.Kind() {
	case reflect.Struct:
		for i := 0; i < t.NumField(); i++ {
			if t.Field(i).PkgPath == "" {
				v.Field(i).Set(deepVal(t.Field(i).Type))
			}
		}
	case reflect.Ptr:
		n := reflect.New(t.Elem())
		n.Elem().Set(deepVal(t.Elem()))
		v.Set(n)
	case reflect.Slice:
		v.Set(reflect.Append(v, deepVal(t.Elem())))
	case reflect.Map:
		v.Set(reflect.MakeMap(t))
		k := reflect.New(t.Key()).Elem()
		if t.Key().Kind() == reflect.String {
			k.SetString("k")
		} else {
			k.SetInt(7)
		}
		v.SetMapIndex(k, deepVal(t.Elem()))
	default:
		return val(t, 1)
	}
	return v
}

// ---- oracle ----

func canonNum(s string) string {
	r, ok := new(big.Rat).SetString(s)
	if !ok {
		return "NaN:" + s
	}
	return r.RatString()
}

// canon canonicalises a decoded document (numbers by value).
func canon(d interface{}) interface{} {
	switch x := d.(type) {
	case json.Number:
		return "#" + canonNum(string(x))
	case map[string]interface{}:
		o := map[string]interface{}{}
		for k, v := range x {
			o[k] = canon(v)
		}
		return o
	case []interface{}:
		o := make([]interface{}, len(x))
		for i, v := range x {
			o[i] = canon(v)
		}
		return o
	case string:
		return "s" + x
	}
	return d
}

// normalise applies the documented deviations to the standard encoder's document, guided by the type.
func normalise(d interface{}, t reflect.Type) interface{} {
	switch t.Kind() {
	case reflect.Ptr:
		if d == nil {
			return nil
		}
		return normalise(d, t.Elem())
	case reflect.Struct:
		m, _ := d.(map[string]interface{})
		o := map[string]interface{}{}
		for i := 0; i < t.NumField(); i++ {
			f := t.Field(i)
			if f.PkgPath != "" {
				continue
			}
			o[f.Name] = normalise(m[f.Name], f.Type)
		}
		return o
	case reflect.Slice:
		if d == nil {
			return []interface{}{}
		}
		a, _ := d.([]interface{})
		o := make([]interface{}, len(a))
		for i, e := range a {
			o[i] = normalise(e, t.Elem())
		}
		return o
	case reflect.Map:
		if d == nil {
			return map[string]interface{}{}
		}
		m, _ := d.(map[string]interface{})
		o := map[string]interface{}{}
		for k, e := range m {
			o[k] = normalise(e, t.Elem())
		}
		return o
	case reflect.Bool:
		if b, ok := d.(bool); ok {
			if b {
				return "strue"
			}
			return "sfalse"
		}
	}
	return canon(d)
}

func decode(s string) (interface{}, error) {
	dec := json.NewDecoder(strings.NewReader(s))
	dec.UseNumber()
	var d interface{}
	if err := dec.Decode(&d); err != nil {
		return nil, err
	}
	if dec.More() {
		return nil, fmt.Errorf("trailing data")
	}
	return d, nil
}

// sigClass names the first construct at which the dumper's text stops being JSON / differs: a narrow signature.
func sigClass(t reflect.Type, out string) string {
	var cls []string
	seen := map[string]bool{}
	var walk func(t reflect.Type, d int)
	walk = func(t reflect.Type, d int) {
		if d > 6 {
			return
		}
		add := func(s string) {
			if !seen[s] {
				seen[s] = true
				cls = append(cls, s)
			}
		}
		switch t.Kind() {
		case reflect.Ptr:
			walk(t.Elem(), d+1)
		case reflect.Struct:
			if t.NumField() == 0 {
				add("empty-struct")
			}
			for i := 0; i < t.NumField(); i++ {
				walk(t.Field(i).Type, d+1)
			}
		case reflect.Slice:
			walk(t.Elem(), d+1)
		case reflect.Map:
			if t.Key().Kind() == reflect.String {
				add("string-keyed-map")
			}
			walk(t.Elem(), d+1)
		}
	}
	walk(t, 0)
	if seen["string-keyed-map"] && doubledKey.MatchString(out) {
		return "string-keyed-map"
	}
	if seen["empty-struct"] && strings.Count(out, "{") != strings.Count(out, "}") {
		return "empty-struct"
	}
	return "other"
}

func checkOne(c *runner.Ctx, t ty, p int, asPtr bool) {
	v := val(t.t, p)
	var in interface{}
	if asPtr {
		pv := reflect.New(t.t)
		pv.Elem().Set(v)
		in = pv.Interface()
	} else {
		in = v.Interface()
	}
	var out, std string
	pan, msg, site := runner.Guard(func() { out = valid.GetDumpStructStr(in) })
	det := func() map[string]interface{} {
		return map[string]interface{}{"type": t.desc, "profile": p, "pointer": asPtr, "dump": clip(out), "std": clip(std)}
	}
	if pan {
		d := det()
		d["panic"] = msg
		c.Violation("panic@"+site, d)
		return
	}
	std = valid.GetDumpStructStrForJson(in)
	// independent rendering by encoding/json itself (the repository's wrapper is not trusted to be the standard encoder)
	var sb bytes.Buffer
	enc := json.NewEncoder(&sb)
	enc.SetEscapeHTML(false)
	enc.Encode(in)
	if strings.TrimSuffix(sb.String(), "\n") != std {
		c.Violation("GetDumpStructStrForJson-differs-from-encoding/json", det())
		return
	}
	okStd := json.Valid([]byte(out))
	okOwn, _ := lang.JSON(out)
	if !okStd || !okOwn {
		c.Outcome("malformed")
		c.Violation("not-well-formed-json/"+sigClass(t.t, out), det())
		return
	}
	d1, err := decode(out)
	if err != nil {
		c.Violation("not-decodable/"+sigClass(t.t, out), det())
		return
	}
	d2, err := decode(std)
	if err != nil {
		fmt.Println("HARNESS-ERROR: standard encoding not decodable:", std)
		return
	}
	want := normalise(d2, t.t)
	got := canon(d1)
	if !reflect.DeepEqual(got, want) {
		c.Outcome("different-document")
		c.Violation("document-differs/"+diffClass(got, want), det())
		return
	}
	c.Outcome("ok")
}

// diffClass: what kind of node differs first.
func diffClass(got, want interface{}) string {
	switch w := want.(type) {
	case map[string]interface{}:
		g, ok := got.(map[string]interface{})
		if !ok {
			return fmt.Sprintf("object-vs-%T", got)
		}
		if len(g) != len(w) {
			for k := range g {
				if _, in := w[k]; !in {
					return "unexpected-key"
				}
			}
			return "missing-key"
		}
		for k, wv := range w {
			gv, in := g[k]
			if !in {
				return "missing-key"
			}
			if !reflect.DeepEqual(gv, wv) {
				return diffClass(gv, wv)
			}
		}
	case []interface{}:
		g, ok := got.([]interface{})
		if !ok {
			return fmt.Sprintf("array-vs-%T", got)
		}
		if len(g) != len(w) {
			return "array-length"
		}
		for i := range w {
			if !reflect.DeepEqual(g[i], w[i]) {
				return diffClass(g[i], w[i])
			}
		}
	case string:
		if strings.HasPrefix(w, "#") {
			return "number"
		}
		if w == "strue" || w == "sfalse" {
			return "bool-or-string"
		}
		return "string"
	case nil:
		return "null"
	}
	return "value"
}

func clip(s string) string {
	if len(s) > 600 {
		return s[:600] + "…"
	}
	return s
}

// ---- fixed named types (the shapes an application would write) ----

type Inner struct {
	Name string
	Ok   bool
	n    int
}
type Empty struct{}
type hidden struct{ a, b int }
type Named struct {
	id    int
	Name  string
	Age   uint8
	Score float64
	In    Inner
	P     *Inner
	L     []Inner
	LP    []*Inner
	M     map[string]*Inner
	MI    map[int32]Inner
	E     Empty
	EP    *Empty
	H     hidden
	Tags  []string
	Attrs map[string]string
	Grid  [][]int
	last  string
}

func namedValues() []interface{} {
	in := Inner{"a", true, 1}
	return []interface{}{
		Named{}, &Named{},
		Named{Name: "n", Age: 3, Score: 1.5, In: in, P: &in, L: []Inner{in, {}}, LP: []*Inner{nil, &in}, M: map[string]*Inner{"k": &in, "z": nil}, MI: map[int32]Inner{1: in, -2: {}},
			EP: &Empty{}, Tags: []string{"x", "中"}, Attrs: map[string]string{"a": "b", "c": ""}, Grid: [][]int{{1, 2}, nil, {}}},
		&Named{L: []Inner{}, LP: []*Inner{}, M: map[string]*Inner{}, MI: map[int32]Inner{}, Tags: []string{}, Attrs: map[string]string{}, Grid: [][]int{}},
		Empty{}, &Empty{}, hidden{1, 2}, &hidden{}, Inner{}, &in,
		struct{ E Empty }{}, struct{ A, B Empty }{}, struct {
			e Empty
			F Empty
		}{},
	}
}

func run(c *runner.Ctx) {
	if c.Mode == "conc" || c.Mode == "race" {
		runConc(c)
		return
	}
	profiles := []int{0, 1, 2, 3}
	evalType := func(t ty, ps []int) {
		for _, p := range ps {
			for _, asPtr := range []bool{false, true} {
				checkOne(c, t, p, asPtr)
			}
		}
		c.Done(t.nt, len(ps)*2)
	}
	structs := smallStructs()
	reduced := []ty{tString, tBool, tInt, tF64}
	f1 := level1(scalarsMid(), reduced, structs)
	f1all := level1(scalarsAll(), scalarsAll(), structs)
	// reduced level-1 set for the cubic spaces of the quick tier
	var f1r []ty
	for _, t := range []ty{tString, tBool, tInt, tF64, sliceOf(tInt), sliceOf(tString), mapOf(tString.t, tInt), mapOf(tInt.t, tString), structs[0], ptrTo(structs[0]), structs[3], ptrTo(structs[4])} {
		f1r = append(f1r, t)
	}

	c.Space("named-types")
	for _, in := range namedValues() {
		if !c.Take() {
			continue
		}
		rt := reflect.TypeOf(in)
		asPtr := rt.Kind() == reflect.Ptr
		if asPtr {
			rt = rt.Elem()
		}
		t := ty{rt, rt.String(), true}
		// reuse checkOne's oracle on the fixed value
		checkFixed(c, t, in)
		c.Done(true, 1)
	}

	// long collections: n elements followed by further fields (any per-call state a dumper keeps - depth, comma or
	// brace counters, scratch buffers - is exercised over many elements of one value)
	c.Space("long-collections")
	elems := append(append([]ty{}, structs...), ptrTo(structs[0]), ptrTo(structs[4]), tString, tBool, tInt, sliceOf(tInt), mapOf(tString.t, tInt), sliceOf(structs[0]))
	for _, e := range elems {
		for _, n := range []int{31, 32, 33, 40, 64, 65, 130} {
			if !c.Take() {
				continue
			}
			t := mkStruct([]fld{{sliceOf(e), true}, {structs[4], true}, {mapOf(tInt.t, e), true}, {ptrTo(structs[3]), true}, {mapOf(tString.t, e), true}, {structs[1], true}})
			v := reflect.New(t.t).Elem()
			sl := reflect.MakeSlice(t.t.Field(0).Type, 0, n)
			mi := reflect.MakeMap(t.t.Field(2).Type)
			ms := reflect.MakeMap(t.t.Field(4).Type)
			for i := 0; i < n; i++ {
				sl = reflect.Append(sl, val(e.t, i))
				mi.SetMapIndex(reflect.ValueOf(i-3), val(e.t, i+1))
				ms.SetMapIndex(reflect.ValueOf(fmt.Sprintf("k%d", i)), val(e.t, i+2))
			}
			v.Field(0).Set(sl)
			v.Field(1).Set(val(t.t.Field(1).Type, 1))
			v.Field(2).Set(mi)
			v.Field(3).Set(val(t.t.Field(3).Type, 1))
			v.Field(4).Set(ms)
			v.Field(5).Set(val(t.t.Field(5).Type, 2))
			checkFixed(c, ty{t.t, fmt.Sprintf("%s with %d elements per collection", t.desc, n), true}, v.Interface())
			checkFixed(c, ty{t.t, fmt.Sprintf("*%s with %d elements per collection", t.desc, n), true}, v.Addr().Interface())
			c.Done(true, 2)
		}
	}

	// deep nesting (through values, pointers, slices and maps) and wide structs
	c.Space("deep-and-wide")
	for _, via := range []string{"value", "pointer", "slice", "map", "mixed"} {
		for _, depth := range []int{8, 16, 31, 32, 33, 34, 48, 64, 100} {
			if !c.Take() {
				continue
			}
			cur := mkStruct([]fld{{tInt, true}, {tString, true}})
			for k := 0; k < depth; k++ {
				var inner ty
				switch via {
				case "value":
					inner = cur
				case "pointer":
					inner = ptrTo(cur)
				case "slice":
					inner = sliceOf(cur)
				case "map":
					inner = mapOf(tString.t, cur)
				default:
					inner = []ty{cur, ptrTo(cur), sliceOf(cur), mapOf(tInt.t, cur)}[k%4]
				}
				cur = mkStruct([]fld{{tBool, k%3 == 0}, {inner, true}, {tInt, true}})
			}
			// profile 1: every pointer non-nil, every collection one entry - the value is as deep as the type
			v := deepVal(cur.t)
			checkFixed(c, ty{cur.t, fmt.Sprintf("nesting depth %d through %s", depth, via), true}, v.Interface())
			checkFixed(c, ty{cur.t, fmt.Sprintf("*nesting depth %d through %s", depth, via), true}, v.Addr().Interface())
			c.Done(true, 2)
		}
	}
	for _, n := range []int{20, 64, 65, 200} {
		if !c.Take() {
			continue
		}
		var fs []fld
		for i := 0; i < n; i++ {
			fs = append(fs, fld{[]ty{tInt, tString, tBool, tF64, sliceOf(tString), mapOf(tString.t, tInt), structs[4], ptrTo(structs[1])}[i%8], i%7 != 3})
		}
		// field names beyond 26: mkStruct names by letter; build directly
		var sf []reflect.StructField
		for i, f := range fs {
			name := fmt.Sprintf("F%03d", i)
			if !f.exported {
				sf = append(sf, reflect.StructField{Name: "f" + name, Type: f.t.t, PkgPath: pkgPath})
			} else {
				sf = append(sf, reflect.StructField{Name: name, Type: f.t.t})
			}
		}
		wt := reflect.StructOf(sf)
		for p := 0; p < 4; p++ {
			v := val(wt, p)
			checkFixed(c, ty{wt, fmt.Sprintf("struct with %d fields, profile %d", n, p), true}, v.Interface())
		}
		c.Done(true, 4)
	}

	// field names of every length from 1 to 140 bytes (round 13; generated code has names such as
	// XXX_NoUnkeyedLiteral and much longer ones), ASCII and with a multi-byte tail, three fields of that length per struct
	c.Space("field-name-lengths")
	for n := 1; n <= 140; n++ {
		for _, tail := range []string{"", "é", "名"} {
			if !c.Take() {
				continue
			}
			if len(tail) >= n {
				c.Done(false, 0)
				continue
			}
			base := "N" + strings.Repeat("a", n-1-len(tail))
			mk := func(first byte) string { return string(first) + base[1:] + tail }
			sf := []reflect.StructField{{Name: mk('A'), Type: tInt.t}, {Name: mk('B'), Type: tString.t}, {Name: mk('C'), Type: reflect.SliceOf(tBool.t)}}
			nt := reflect.StructOf(sf)
			outer := reflect.StructOf([]reflect.StructField{{Name: mk('D'), Type: nt}, {Name: mk('E'), Type: reflect.PointerTo(nt)}, {Name: "Z", Type: tInt.t}})
			for p := 0; p < 2; p++ {
				checkFixed(c, ty{nt, fmt.Sprintf("three fields with names of %d bytes (tail %q), profile %d", n, tail, p), true}, val(nt, p).Interface())
				checkFixed(c, ty{outer, fmt.Sprintf("nested under fields with names of %d bytes (tail %q), profile %d", n, tail, p), true}, val(outer, p).Interface())
			}
			c.Done(true, 4)
		}
	}

	// field names beyond ASCII: exported means "starts with an upper-case letter" in Go's sense; lower-case two-byte
	// initials (é, и, ω, ü), '_' and CJK initials are unexported
	c.Space("field-names")
	expNames := []string{"A", "Ärger", "Дата", "Ωmega", "Élan", "Z9", "Ǆ"}
	unexpNames := []string{"a", "élan", "имя", "ωmega", "ünter", "_x", "内部", "ǆ", "z"}
	for _, en := range expNames {
		for _, un := range unexpNames {
			for order := 0; order < 3; order++ {
				if !c.Take() {
					continue
				}
				e1 := reflect.StructField{Name: en, Type: tInt.t}
				e2 := reflect.StructField{Name: en + "2", Type: tString.t}
				u := reflect.StructField{Name: un, Type: tString.t, PkgPath: pkgPath}
				sf := [][]reflect.StructField{{u, e1, e2}, {e1, u, e2}, {e1, e2, u}}[order]
				nt := reflect.StructOf(sf)
				outer := reflect.StructOf([]reflect.StructField{{Name: "L", Type: reflect.SliceOf(nt)}, {Name: en, Type: reflect.PointerTo(nt)}, {Name: un, Type: nt, PkgPath: pkgPath}})
				for p := 0; p < 3; p++ {
					checkFixed(c, ty{nt, fmt.Sprintf("struct with fields %s, %s2 and unexported %s (order %d), profile %d", en, en, un, order, p), true}, val(nt, p).Interface())
					checkFixed(c, ty{outer, fmt.Sprintf("struct{L []T; %s *T; %s T} with T = fields %s, %s2, unexported %s, profile %d", en, un, en, en, un, p), true}, val(outer, p).Interface())
				}
				c.Done(true, 6)
			}
		}
	}

	// named key and value types with a String method of their own (generated enums, time.Month): the document holds
	// the number / the text, as the standard encoder writes it
	c.Space("named-types-with-String")
	named := []struct {
		desc string
		v    interface{}
	}{
		{"struct{M map[Lvl]int}", struct{ M map[Lvl]int }{map[Lvl]int{0: 1, 3: 2, -1: 3}}},
		{"struct{M map[NickS]string}", struct{ M map[NickS]string }{map[NickS]string{"a": "x", "": "y"}}},
		{"struct{M map[time.Month]int64}", struct{ M map[time.Month]int64 }{map[time.Month]int64{time.March: 3, time.December: 12}}},
		{"struct{A Lvl; B NickS; C []Lvl; D map[string]Lvl}", struct {
			A Lvl
			B NickS
			C []Lvl
			D map[string]Lvl
		}{2, "n", []Lvl{0, 1}, map[string]Lvl{"k": 5}}},
		{"struct{P *struct{M map[Lvl][]NickS}}", struct {
			P *struct{ M map[Lvl][]NickS }
		}{&struct{ M map[Lvl][]NickS }{map[Lvl][]NickS{7: {"a", "b"}}}}},
		{"struct{U map[Ulvl]Lvl}", struct{ U map[Ulvl]Lvl }{map[Ulvl]Lvl{0: 0, 255: 1}}},
		{"struct{P map[uintptr]string; Q map[uint]int8}", struct {
			P map[uintptr]string
			Q map[uint]int8
		}{map[uintptr]string{4096: "page", 0: "z"}, map[uint]int8{7: -1}}},
		// strings that look like pieces of the surrounding syntax (none needs escaping)
		{"struct{S string; L []string; M map[string]string} with syntax look-alikes", struct {
			S string
			L []string
			M map[string]string
		}{"{a,b,}", []string{",}", "[1,]", ",]", "},{", ":{", "null", "true"}, map[string]string{",}": "x,}", "a,]": "]"}}},
		// strings that are, as a whole, JSON arrays / objects / literals themselves (none needs escaping): still strings
		{"struct{S, T string; L []string; M map[string]string} with strings that are JSON documents", struct {
			S, T string
			L    []string
			M    map[string]string
		}{"[]", "{}", []string{"[1, 2, 3]", "[7]", "[[]]", "[null]", "{}", "[]", "123", "1e5", "-0", "null", "false"}, map[string]string{"[]": "{}", "{}": "[1]", "[2]": "x", "7": "[true]"}}},
		// structs that emit no field at all (empty, or unexported fields only) in front of, between and behind ordinary fields
		{"field-less structs between fields", struct {
			E  struct{}
			A  int
			U  struct{ hidden int }
			B  string
			P  *struct{}
			C  []struct{}
			D  map[string]struct{ x int }
			Z  int
			E2 struct{}
		}{A: 1, B: "b", P: &struct{}{}, C: []struct{}{{}, {}}, D: map[string]struct{ x int }{"k": {}}, Z: 9}},
	}
	for _, nv := range named {
		if !c.Take() {
			continue
		}
		checkFixed(c, ty{reflect.TypeOf(nv.v), nv.desc, true}, nv.v)
		c.Done(true, 1)
	}

	c.Space("no-fields")
	if c.Take() {
		evalType(mkStruct(nil), []int{0})
	}
	// one field, every level-1 type over all 14 scalar kinds, exported and unexported, 8 value profiles
	c.Space("one-field/level1-all-kinds")
	for _, t := range f1all {
		for _, exp := range []bool{true, false} {
			if !c.Take() {
				continue
			}
			evalType(mkStruct([]fld{{t, exp}}), []int{0, 1, 2, 3, 5, 6, 7})
			c.Sample(func() interface{} { return mkStruct([]fld{{t, exp}}).desc })
		}
	}
	// one field, level 2 = seven constructors over every level-1 type
	var f2 []ty
	for _, e := range f1 {
		f2 = append(f2, wrap(e)...)
	}
	c.Space("one-field/level2")
	for _, t := range f2 {
		if !c.Take() {
			continue
		}
		evalType(mkStruct([]fld{{t, true}}), profiles)
		c.Sample(func() interface{} { return mkStruct([]fld{{t, true}}).desc })
	}
	// two fields over level 1 x exportedness
	c.Space("two-fields/level1")
	for _, a := range f1 {
		for _, ea := range []bool{true, false} {
			for _, b := range f1 {
				for _, eb := range []bool{true, false} {
					if !c.Take() {
						continue
					}
					evalType(mkStruct([]fld{{a, ea}, {b, eb}}), profiles)
				}
			}
		}
	}
	// three fields
	set3 := f1
	c.Space("three-fields/level1")
	for _, a := range set3 {
		for _, ea := range []bool{true, false} {
			for _, b := range set3 {
				for _, eb := range []bool{true, false} {
					for _, d := range set3 {
						for _, ed := range []bool{true, false} {
							if !c.Take() {
								continue
							}
							evalType(mkStruct([]fld{{a, ea}, {b, eb}, {d, ed}}), profiles)
							c.Sample(func() interface{} { return mkStruct([]fld{{a, ea}, {b, eb}, {d, ed}}).desc })
						}
					}
				}
			}
		}
	}
	if c.Thorough() {
		// four fields over the 12-type subset x exportedness
		c.Space("four-fields/level1-subset")
		type fe struct {
			t ty
			e bool
		}
		var fes []fe
		for _, t := range f1r {
			fes = append(fes, fe{t, true}, fe{t, false})
		}
		for _, a := range fes {
			for _, b := range fes {
				for _, d := range fes {
					for _, e := range fes {
						if !c.Take() {
							continue
						}
						evalType(mkStruct([]fld{{a.t, a.e}, {b.t, b.e}, {d.t, d.e}, {e.t, e.e}}), []int{1, 2})
					}
				}
			}
		}
	}
	// level 2 next to a level-1 / level-2 neighbour (comma and brace bookkeeping across nested values)
	neigh := f1r
	first := f2
	if !c.Thorough() {
		first = nil
		for i, t := range f2 {
			if i%3 == 0 {
				first = append(first, t)
			}
		}
	}
	c.Space("two-fields/level2+level1")
	for _, a := range first {
		for _, b := range neigh {
			for _, eb := range []bool{true, false} {
				for _, swap := range []bool{false, true} {
					if !c.Take() {
						continue
					}
					fs := []fld{{a, true}, {b, eb}}
					if swap {
						fs = []fld{{b, eb}, {a, true}}
					}
					evalType(mkStruct(fs), profiles)
				}
			}
		}
	}
	if c.Thorough() {
		c.Space("two-fields/level2+level2")
		for i, a := range f2 {
			for j, b := range f2 {
				if !c.Take() {
					continue
				}
				_ = i
				_ = j
				evalType(mkStruct([]fld{{a, true}, {b, true}}), []int{1, 2})
			}
		}
	}
	// level 3 = seven constructors over level 2 built from the reduced level-1 set
	var f2r []ty
	for _, e := range f1r {
		f2r = append(f2r, wrap(e)...)
	}
	var f3 []ty
	for _, e := range f2r {
		f3 = append(f3, wrap(e)...)
	}
	tail := []*fld{nil, {tBool, true}, {tInt, false}, {mapOf(tString.t, tInt), true}}
	c.Space("level3")
	for _, a := range f3 {
		for _, tl := range tail {
			if !c.Take() {
				continue
			}
			fs := []fld{{a, true}}
			if tl != nil {
				fs = append(fs, *tl)
			}
			evalType(mkStruct(fs), profiles)
			c.Sample(func() interface{} { return mkStruct(fs).desc })
		}
	}
	if c.Thorough() {
		// level 4 over a thinned level 3
		c.Space("level4")
		for i, e := range f3 {
			if i%5 != 0 {
				continue
			}
			for _, a := range wrap(e) {
				if !c.Take() {
					continue
				}
				evalType(mkStruct([]fld{{a, true}}), []int{1, 2, 3})
			}
		}
	}
}

// checkFixed runs the oracle on a given value (named types).
func checkFixed(c *runner.Ctx, t ty, in interface{}) {
	var out string
	pan, msg, site := runner.Guard(func() { out = valid.GetDumpStructStr(in) })
	var sb bytes.Buffer
	enc := json.NewEncoder(&sb)
	enc.SetEscapeHTML(false)
	enc.Encode(in)
	std := strings.TrimSuffix(sb.String(), "\n")
	det := map[string]interface{}{"type": t.desc, "value": fmt.Sprintf("%+v", in), "dump": clip(out), "std": clip(std)}
	if pan {
		det["panic"] = msg
		c.Violation("panic@"+site, det)
		return
	}
	okStd := json.Valid([]byte(out))
	okOwn, _ := lang.JSON(out)
	if !okStd || !okOwn {
		c.Violation("not-well-formed-json/"+sigClass(t.t, out), det)
		return
	}
	d1, err := decode(out)
	if err != nil {
		c.Violation("not-decodable/"+sigClass(t.t, out), det)
		return
	}
	d2, _ := decode(std)
	if want, got := normalise(d2, t.t), canon(d1); !reflect.DeepEqual(got, want) {
		c.Violation("document-differs/"+diffClass(got, want), det)
		return
	}
	c.Outcome("ok")
}

func main() {
	runner.Main(runner.Config{
		Property:  "C20",
		Technique: "bounded-exhaustive enumeration of struct types from a depth-bounded type grammar (reflect.StructOf) x value profiles; dumper output vs the standard encoder's document normalised by the documented deviations",
		Rule: "(round 13: field names of every length 1..140 bytes, ASCII and with a two- / three-byte tail) types: level 1 = 14 scalar kinds (string, bool, all int/uint widths, float64, float32), slices and string-/int-keyed maps of them, five small structs (empty, one exported, all unexported, first unexported, two exported incl. bool) and pointers to them; " +
			"level k+1 = {[]e, map[string]e, map[int64]e, struct{A e}, struct{a e; B e}, *struct{A e}, struct{A e; B e}} over level k; top-level structs with 0..3 fields, every field exported or unexported in every position, " +
			"all 1- and 2-field structs over level 1, 3-field structs (thorough: full level 1; quick: 12-type subset), level 2 alone and next to level-1 / level-2 neighbours in both orders, level 3 (and a thinned level 4 on thorough); " +
			"values: 4 profiles per type (all zero / nil; one entry; two-three entries with nested zero values and nil pointers; empty non-nil collections) plus alternative floats, extremes of every integer width; each as T and *T; " +
			"plus fixed named types (incl. strings that look like syntax fragments or are JSON documents themselves, field-less structs between fields), nesting to depth 100 through values / pointers / slices / maps, structs with up to 200 fields, and long collections (31..130 elements of 14 element types in a slice, an int-keyed and a string-keyed map, followed by further struct fields); oracle: json.Valid and the independent RFC 8259 recogniser accept the output; decoded with UseNumber it equals the standard encoder's document after bool -> \"true\"/\"false\", null slice -> [], null map -> {}, numbers compared by value; " +
			"additionally (modes conc / race, under the controlled scheduler of C10/C11): 2-3 threads dump values of struct types that are new in every execution, all schedules within preemption bound 2 (thorough 3), each result = the result of the call made alone, race detector silent; " +
			"transitions = dumper calls / scheduling steps; non-trivial = types containing an empty struct, a map, a bool or a leading unexported field",
		Assumptions: []string{"excluded by the statement: interface fields, pointers to scalars, time.Time, func/chan, strings needing escapes; additionally not generated: arrays, []uint8 (base64 in the standard encoder), embedded fields (flattened by the standard encoder), pointers to pointers, float32 values that are not dyadic, json struct tags",
			"encoding/json is the standard encoder"},
		Run: run,
		Modes: []runner.Mode{
			{Name: "seq"},
			{Name: "conc", Workers: 4},
			{Name: "race", BinarySuffix: ".race", Workers: 4, Env: []string{"GORACE=log_path={W}.race halt_on_error=0 exitcode=0 atexit_sleep_ms=0 history_size=2"}},
		},
	})
}
