package main

// Concurrent use of the dumper (modes "conc" and "race" of C20): 2-3 threads dump values of struct types that are new
// in every execution (so that any per-type first-use work happens inside the explored window) under the controlled
// scheduler; every result must equal the result of the same call made alone, and the race build must stay silent.

import (
	"fmt"
	"os"
	"reflect"
	"sort"
	"strings"

	"gitee.com/xuesongtao/protoc-go-valid/valid"
	"gitee.com/xuesongtao/protoc-go-valid/verifshim/vsched"
	"verif/internal/runner"
)

var raceLog string

func raceLogSize() int64 {
	if raceLog == "" {
		return 0
	}
	fi, err := os.Stat(fmt.Sprintf("%s.%d", raceLog, os.Getpid()))
	if err != nil {
		return 0
	}
	return fi.Size()
}

func raceReportFrom(off int64) string {
	b, err := os.ReadFile(fmt.Sprintf("%s.%d", raceLog, os.Getpid()))
	if err != nil || int64(len(b)) <= off {
		return ""
	}
	s := string(b[off:])
	if len(s) > 4000 {
		s = s[:4000]
	}
	return s
}

func raceSig(rep string) string {
	var fns []string
	lines := strings.Split(rep, "\n")
	for i, l := range lines {
		t := strings.TrimSpace(l)
		if strings.HasPrefix(t, "Write at ") || strings.HasPrefix(t, "Read at ") || strings.HasPrefix(t, "Previous write at ") || strings.HasPrefix(t, "Previous read at ") {
			for j := i + 1; j < len(lines) && strings.TrimSpace(lines[j]) != ""; j++ {
				fr := strings.TrimSpace(lines[j])
				if strings.HasPrefix(fr, "gitee.com/xuesongtao/protoc-go-valid/") && !strings.Contains(fr, "verifshim") {
					fr = strings.TrimPrefix(fr, "gitee.com/xuesongtao/protoc-go-valid/")
					if k := strings.LastIndex(fr, "("); k > 0 {
						fr = fr[:k]
					}
					fns = append(fns, fr)
					break
				}
			}
		}
	}
	sort.Strings(fns)
	if len(fns) == 0 {
		return "unattributed"
	}
	return strings.Join(fns, "~")
}

var concSalt int

// isolatedBudget: child executions this worker may still spend on the one-process-per-execution fallback.
var isolatedBudget = 2000

// sameDoc: equal as JSON documents (map entries are emitted in Go map iteration order).
func sameDoc(a, b string) bool {
	if a == b {
		return true
	}
	da, ea := decode(a)
	db, eb := decode(b)
	return ea == nil && eb == nil && reflect.DeepEqual(canon(da), canon(db))
}

// salted returns a copy of the struct type t that is a different type (a tag on its first field), recursively for
// struct-typed fields, so that nothing cached per type by an earlier execution applies to it.
func salted(t reflect.Type, salt int) reflect.Type {
	switch t.Kind() {
	case reflect.Struct:
		var fs []reflect.StructField
		for i := 0; i < t.NumField(); i++ {
			f := t.Field(i)
			nf := reflect.StructField{Name: f.Name, Type: salted(f.Type, salt), PkgPath: f.PkgPath}
			if i == 0 {
				nf.Tag = reflect.StructTag(fmt.Sprintf(`salt:"%d"`, salt))
			}
			fs = append(fs, nf)
		}
		if len(fs) == 0 {
			return t
		}
		return reflect.StructOf(fs)
	case reflect.Ptr:
		return reflect.PtrTo(salted(t.Elem(), salt))
	case reflect.Slice:
		return reflect.SliceOf(salted(t.Elem(), salt))
	case reflect.Map:
		return reflect.MapOf(t.Key(), salted(t.Elem(), salt))
	}
	return t
}

func runConc(c *runner.Ctx) {
	race := c.Mode == "race"
	if race {
		for _, kv := range strings.Fields(os.Getenv("GORACE")) {
			if strings.HasPrefix(kv, "log_path=") {
				raceLog = strings.TrimPrefix(kv, "log_path=")
			}
		}
		if !vsched.RaceEnabled || raceLog == "" {
			fmt.Fprintln(os.Stderr, "HARNESS-ERROR: race mode without race build / log_path")
			os.Exit(3)
		}
	}
	structs := smallStructs()
	wide := func(n int) ty {
		var fs []fld
		for i := 0; i < n; i++ {
			fs = append(fs, fld{[]ty{tInt, tString, tBool, structs[4], sliceOf(tInt), mapOf(tString.t, tInt)}[i%6], i%5 != 3})
		}
		return mkStruct(fs)
	}
	menu := []ty{
		mkStruct([]fld{{tInt, true}}),
		mkStruct([]fld{{tString, true}, {tBool, true}, {tInt, false}}),
		mkStruct([]fld{{structs[4], true}, {ptrTo(structs[3]), true}, {sliceOf(structs[1]), true}}),
		mkStruct([]fld{{mapOf(tString.t, structs[4]), true}, {structs[0], true}}),
		wide(12),
	}
	if c.Thorough() {
		menu = append(menu, wide(5), mkStruct([]fld{{sliceOf(ptrTo(structs[4])), true}, {mapOf(tInt.t, sliceOf(tString)), true}}))
	}
	bound := 2
	if c.Thorough() && !race {
		bound = 3
	}
	explore := func(idx []int, same bool) {
		results := make([]string, len(idx))
		want := make([]string, len(idx))
		reported := map[string]bool{}
		var names []string
		for _, i := range idx {
			names = append(names, menu[i].desc)
		}
		ex := &vsched.Explorer{
			Opt: vsched.Options{Bound: bound, PoolChoices: true, Deadline: c.Deadline()},
			Setup: func() []func() {
				concSalt++
				bodies := make([]func(), len(idx))
				var shared reflect.Type
				for t, i := range idx {
					t := t
					st := salted(menu[i].t, concSalt*8+t)
					if same { // all threads use one new type
						if shared == nil {
							shared = st
						}
						st = shared
					}
					v := val(st, 1+t)
					in := v.Interface()
					// the same call alone, on another new type of the same shape (the salt is not part of the output)
					want[t] = valid.GetDumpStructStr(val(salted(menu[i].t, -concSalt*8-t-1), 1+t).Interface())
					bodies[t] = func() { results[t] = valid.GetDumpStructStr(in) }
				}
				return bodies
			},
		}
		ex.Check = func(x *vsched.Exec) bool {
			ok := true
			rep := func(sig, what string) {
				ok = false
				if !reported[sig] {
					reported[sig] = true
					c.Violation(sig, map[string]interface{}{"types": names, "same_type": same, "bound": bound, "schedule": x.Choices, "trace": x.TraceString(), "what": what})
				}
			}
			for t, p := range x.Panics {
				if p != "" {
					rep("concurrent/panic@"+x.Sites[t], fmt.Sprintf("thread %d: %s", t, p))
				}
			}
			if x.Deadlock || x.Hang {
				rep("concurrent/deadlock", strings.Join(x.Blocked, "; "))
				return false
			}
			for t := range idx {
				if x.Panics[t] == "" && !sameDoc(results[t], want[t]) {
					rep("concurrent/result-differs-from-solo", fmt.Sprintf("thread %d: got %s, alone %s", t, clip(results[t]), clip(want[t])))
				}
			}
			return ok
		}
		var before int64
		if race {
			before = raceLogSize()
		}
		noBudget := 0
		bud := &isolatedBudget
		if race {
			bud = &noBudget
		}
		res, isolated := ex.ExploreIsolating(c.RunCaseInChild, os.Getenv("VERIF_SCRATCH"), bud, func(prefix []int, stderr string, err error) {
			if strings.Contains(stderr, "HARNESS-ERROR") {
				fmt.Fprintln(os.Stderr, stderr)
				os.Exit(3)
			}
			c.Violation("concurrent/isolated-execution-crashed", map[string]interface{}{"types": names, "schedule": prefix, "error": err.Error(), "stderr": stderr})
		})
		if isolated {
			c.Count("harnesses_explored_with_one_process_per_execution", 1)
		}
		if res.Diverged != "" {
			c.MarkIncomplete()
			c.Note("replay divergence (process-global state survives between executions): harness not explored in this mode: " + res.Diverged)
			c.Done(false, 0)
			return
		}
		if race && raceLogSize() > before {
			rp := raceReportFrom(before)
			c.Violation("concurrent/data-race:"+raceSig(rp), map[string]interface{}{"types": names, "same_type": same, "report": rp})
		}
		if res.Capped {
			c.MarkIncomplete()
		}
		c.Count("schedules", res.Execs)
		c.StateN(res.Execs)
		c.Done(true, int(res.Steps))
		c.Outcome("ok")
		c.Sample(func() interface{} {
			return map[string]interface{}{"types": names, "same_type": same, "schedules": res.Execs, "mode": c.Mode}
		})
	}
	c.Space(c.Mode + ":2-threads")
	for i := range menu {
		for j := i; j < len(menu); j++ {
			for _, same := range []bool{false, true} {
				if same && i != j {
					continue
				}
				if c.Take() {
					explore([]int{i, j}, same)
				}
			}
		}
	}
	c.Space(c.Mode + ":3-threads")
	for i := range menu {
		if c.Take() {
			explore([]int{i, i, i}, true)
			explore([]int{i, (i + 1) % len(menu), i}, false)
		}
	}
}
