// C12 — a call's result depends only on its own arguments and stays fixed afterwards.
// E-seq + pool answers: all sequences of heterogeneous calls up to a length and all permutations of 4-subsets, each run
// single-threaded under the controlled scheduler so that every sync.Pool.Get answer (recycled top / other recycled
// object / fresh) is enumerated up to a deviation bound. Oracles: fresh-state result, model result, inputs and rule
// maps unmodified, handed-out error strings and rule tokens never change afterwards.
package main

import (
	"fmt"
	"math"
	"os"
	"path/filepath"
	"reflect"
	"sort"
	"strings"
	"time"

	"gitee.com/xuesongtao/protoc-go-valid/valid"
	"gitee.com/xuesongtao/protoc-go-valid/verifshim/vsched"
	"verif/internal/errparse"
	"verif/internal/runner"
	"verif/internal/walk"
)

type T1 struct {
	F string `valid:"required|need-F,to=2~3" b:"to=1~9" check:"to=5|bad-to"`
	G int    `valid:"to=1~3" b:"ge=1" check:"in=1/2"`
	// rule tags on unexported fields are never evaluated and never reported, on the first call as on any later one
	hidden string `valid:"required|need-hidden,to=9~9" b:"required" check:"required"`
}

type T2 struct {
	Tel  string `valid:"phone"`
	Code string `valid:"zz,le=3"`
}

// Holder reaches T1 as a nested field, as slice elements and as map values.
type Holder struct {
	N T1            `valid:"required"`
	L []*T1         `valid:"exist"`
	M map[string]T1 `valid:"exist"`
}

func holder() *Holder {
	return &Holder{N: T1{F: "", G: 9}, L: []*T1{{F: "abcd", G: 2}}, M: map[string]T1{"k": {F: "", G: 0}}}
}

type Scalars struct {
	S []string       `valid:"required"`
	I []int32        `valid:"exist"`
	M map[string]int `valid:"required"`
	P []*int         `valid:"exist"`
}

var sharedRM = valid.RM{}

// isolatedBudget: child executions this worker may still spend on the one-process-per-execution fallback.
var isolatedBudget = 2000

type LongSlices struct {
	S []string `valid:"unique,ints,le=100"`
	I []int    `valid:"unique,ints,le=100"`
}

type T4 struct {
	A string `valid:"either=1"`
	B string `valid:"either=1"`
	C int    `valid:"botheq=2"`
	D int    `valid:"botheq=2"`
}

var churnTypes = func() []reflect.Type {
	var ts []reflect.Type
	for i := 0; i < 8; i++ {
		ts = append(ts, reflect.StructOf([]reflect.StructField{{Name: "A", Type: reflect.TypeOf(""), Tag: reflect.StructTag(fmt.Sprintf(`valid:"required" salt:"%d"`, i))}}))
	}
	return ts
}()

type deleg struct{ inner valid.CacheEr }

func (d *deleg) Load(k interface{}) (interface{}, bool) { return d.inner.Load(k) }
func (d *deleg) Store(k, v interface{})                 { d.inner.Store(k, v) }

type callT struct {
	name string
	// mk builds fresh arguments; run executes the call on them; args are returned for the "unmodified" check
	mk  func() []interface{}
	run func(args []interface{}) (string, []string) // result text ("<nil>" for nil) and handed-out tokens
	mdl func() (string, bool)                       // model result, if modelled
}

// keptErrs: the error values handed out during the current sequence, with the text they had when they were handed
// out (a caller may keep an error and read it later: its text stays what it was).
type keptErr struct {
	err  error
	text string
}

var keptErrs []keptErr

func errText(err error) string {
	if err == nil {
		return "<nil>"
	}
	t := err.Error()
	keptErrs = append(keptErrs, keptErr{err, strings.Clone(t)})
	return t
}

func lenientPhone(errBuf *strings.Builder, validName, objName, fieldName string, tv reflect.Value) {}
func zzFn(errBuf *strings.Builder, validName, objName, fieldName string, tv reflect.Value) {
	errBuf.WriteString(valid.GetJoinValidErrStr(objName, fieldName, tv.String(), valid.ExplainEn, "call-zz"))
}

func callMenu() []callT {
	t1 := func() []interface{} { return []interface{}{&T1{F: "", G: 9}} }
	t2 := func() []interface{} { return []interface{}{&T2{Tel: "not-a-phone", Code: "abcdef"}} }
	return []callT{
		{"Struct(T1)", t1, func(a []interface{}) (string, []string) { return errText(valid.Struct(a[0])), nil },
			func() (string, bool) { return walk.Struct(t1()[0], walk.Opts{}).Error(), true }},
		{"ValidateStruct(T1,b)", t1, func(a []interface{}) (string, []string) { return errText(valid.ValidateStruct(a[0], "b")), nil },
			func() (string, bool) { return walk.Struct(t1()[0], walk.Opts{Tag: "b"}).Error(), true }},
		{"StructForFn(T1,rm)", func() []interface{} { return []interface{}{&T1{F: "abcd", G: 2}, valid.RM{"G": "eq=7|ovr-G"}} },
			func(a []interface{}) (string, []string) {
				return errText(valid.StructForFn(a[0], a[1].(valid.RM))), nil
			},
			func() (string, bool) {
				return walk.Struct(&T1{F: "abcd", G: 2}, walk.Opts{Unscoped: map[string]string{"G": "eq=7|ovr-G"}}).Error(), true
			}},
		{"StructForFns(T2,fns)", func() []interface{} {
			return []interface{}{&T2{Tel: "not-a-phone", Code: "abcdef"}, valid.RM{"Code": "zz,le=9"}, valid.Name2FnMap{"phone": lenientPhone, "zz": zzFn}}
		}, func(a []interface{}) (string, []string) {
			return errText(valid.StructForFns(a[0], a[1].(valid.RM), a[2].(valid.Name2FnMap))), nil
		}, nil},
		{"Struct(T2)", t2, func(a []interface{}) (string, []string) { return errText(valid.Struct(a[0])), nil },
			func() (string, bool) { return walk.Struct(t2()[0], walk.Opts{}).Error(), true }},
		{"Struct(T4 groups)", func() []interface{} { return []interface{}{[]T4{{C: 1, D: 2}, {A: "x", C: 3, D: 3}}} },
			func(a []interface{}) (string, []string) { return errText(valid.Struct(a[0])), nil }, nil},
		{"Var(quoted)", func() []interface{} { return []interface{}{"a,b", []string{"in=('a,b'/c)|'m,n'", "re='^a,b$'"}} },
			func(a []interface{}) (string, []string) { return errText(valid.Var(a[0], a[1].([]string)...)), nil }, nil},
		{"Var(quoted-fail)", func() []interface{} { return []interface{}{"zz", []string{"required", "in=('run'/'read,write')"}} },
			func(a []interface{}) (string, []string) { return errText(valid.Var(a[0], a[1].([]string)...)), nil }, nil},
		{"Var(5,to)", func() []interface{} { return []interface{}{5, []string{"to=1~3"}} },
			func(a []interface{}) (string, []string) { return errText(valid.Var(a[0], a[1].([]string)...)), nil }, nil},
		{"Map", func() []interface{} {
			return []interface{}{map[string]string{"k": "", "j": ""}, valid.RM{"k": "either=1", "j": "either=1,required|need-j"}}
		}, func(a []interface{}) (string, []string) { return errText(valid.Map(a[0], a[1].(valid.RM))), nil }, nil},
		{"Url", func() []interface{} {
			return []interface{}{"http://h/p?k=ab&j=", valid.RM{"k": "to=3~5|short", "j": "required"}}
		},
			func(a []interface{}) (string, []string) { return errText(valid.Url(a[0], a[1].(valid.RM))), nil }, nil},
		{"Struct(nil)", func() []interface{} { return []interface{}{nil} },
			func(a []interface{}) (string, []string) { return errText(valid.Struct(a[0])), nil }, nil},
		{"Split(quoted)", func() []interface{} { return []interface{}{"required|'x,y',to=1~2,re='\\d+{1,2}'"} },
			func(a []interface{}) (string, []string) {
				toks := valid.ValidNamesSplit(a[0].(string))
				return strings.Join(toks, "\x00"), toks
			}, nil},
		// rules with their own separator arguments next to the same rule with defaults: defaults must not be overwritten
		{"Var(datetime custom separators)", func() []interface{} { return []interface{}{"2021/09/28 10.30.00", []string{"datetime='/, ,.'"}} },
			func(a []interface{}) (string, []string) { return errText(valid.Var(a[0], a[1].([]string)...)), nil },
			func() (string, bool) { return "<nil>", true }},
		{"Var(datetime default ok + date custom bad)", func() []interface{} {
			return []interface{}{"2021-09-28 10:30:00", []string{"datetime", "date='/'|d"}}
		}, func(a []interface{}) (string, []string) { return errText(valid.Var(a[0], a[1].([]string)...)), nil },
			func() (string, bool) { return `input "2021-09-28 10:30:00", explain: d`, true }},
		// a call that is rejected before any rule is evaluated (unsupported source) must leave nothing behind either
		{"Var(unsupported src)", func() []interface{} { return []interface{}{map[string]int{"a": 1}, []string{"phone", "to=9~9|never"}} },
			func(a []interface{}) (string, []string) { return errText(valid.Var(a[0], a[1].([]string)...)), nil }, nil},
		{"Var(nil)", func() []interface{} { return []interface{}{nil, []string{"email|never"}} },
			func(a []interface{}) (string, []string) { return errText(valid.Var(a[0], a[1].([]string)...)), nil }, nil},
		// a rule set targeted at a type that is reached below the outermost object, and the same objects judged by their
		// tags alone: what one call was given for T1 plays no part in another
		{"NestedStructForRule(Holder, rules for T1)", func() []interface{} {
			return []interface{}{holder(), map[interface{}]valid.RM{T1{}: {"F": "eq=9|typed-F", "G": "required|typed-G"}}}
		}, func(a []interface{}) (string, []string) {
			return errText(valid.NestedStructForRule(a[0], a[1].(map[interface{}]valid.RM))), nil
		}, func() (string, bool) {
			return walk.Struct(holder(), walk.Opts{Typed: map[reflect.Type]map[string]string{reflect.TypeOf(T1{}): {"F": "eq=9|typed-F", "G": "required|typed-G"}}}).Error(), true
		}},
		{"Struct(Holder)", func() []interface{} { return []interface{}{holder()} },
			func(a []interface{}) (string, []string) { return errText(valid.Struct(a[0])), nil },
			func() (string, bool) { return walk.Struct(holder(), walk.Opts{}).Error(), true }},
		{"VStruct.SetRule(rm, &T1{}).Valid([]*T1)", func() []interface{} {
			return []interface{}{[]*T1{{F: "", G: 9}, {F: "abcd", G: 2}}, valid.RM{"F": "eq=9|typed-F", "G": "required|typed-G"}}
		}, func(a []interface{}) (string, []string) {
			return errText(valid.NewVStruct().SetRule(a[1].(valid.RM), &T1{}).Valid(a[0])), nil
		}, nil},
		{"Struct([]*T1)", func() []interface{} { return []interface{}{[]*T1{{F: "", G: 9}, {F: "abcd", G: 2}}} },
			func(a []interface{}) (string, []string) { return errText(valid.Struct(a[0])), nil },
			func() (string, bool) {
				return walk.Struct([]*T1{{F: "", G: 9}, {F: "abcd", G: 2}}, walk.Opts{}).Error(), true
			}},
		// groups in the elements of a slice of maps, then (in other calls of the menu) groups in structs and URLs
		{"Map([]map, either+botheq groups)", func() []interface{} {
			return []interface{}{[]map[string]string{{"k": "", "j": "", "a": "1", "b": "2"}, {"k": "x", "j": "", "a": "1", "b": "1"}, {"k": "", "j": "", "a": "", "b": ""}},
				valid.RM{"k": "either=1", "j": "either=1", "a": "botheq=2", "b": "botheq=2"}}
		}, func(a []interface{}) (string, []string) { return errText(valid.Map(a[0], a[1].(valid.RM))), nil }, nil},
		{"Url(either group)", func() []interface{} {
			return []interface{}{"http://h/p?k=&j=&a=1", valid.RM{"k": "either=1", "j": "either=1"}}
		}, func(a []interface{}) (string, []string) {
			return errText(valid.Url(a[0].(string), a[1].(valid.RM))), nil
		}, nil},
		// a rule list with empty entries, handed over as a slice: the caller's slice stays as it is
		{"Var(rule slice with empty entries)", func() []interface{} {
			return []interface{}{7, []string{"required", "", "to=1~3|too big", "", "noeq=7|seven"}}
		}, func(a []interface{}) (string, []string) { return errText(valid.Var(a[0], a[1].([]string)...)), nil }, nil},
		{"RM.Set(rule slice with empty entries) + Map", func() []interface{} {
			return []interface{}{map[string]int{"k": 7}, []string{"", "to=1~3|too big", "", "noeq=7|seven", ""}}
		}, func(a []interface{}) (string, []string) {
			return errText(valid.Map(a[0], valid.NewRule().Set("k", a[1].([]string)...))), nil
		}, nil},
		// two patterns that agree up to an escaped quote
		{"Var(re with escaped quote, a-c)", func() []interface{} { return []interface{}{"it's abc", []string{"re='^it\\'s [a-c]+$'|must be a-c"}} },
			func(a []interface{}) (string, []string) { return errText(valid.Var(a[0], a[1].([]string)...)), nil },
			func() (string, bool) { return "<nil>", true }},
		{"Var(re with escaped quote, x-z)", func() []interface{} { return []interface{}{"it's xyz", []string{"re='^it\\'s [x-z]+$'|must be x-z"}} },
			func(a []interface{}) (string, []string) { return errText(valid.Var(a[0], a[1].([]string)...)), nil },
			func() (string, bool) { return "<nil>", true }},
		{"Var(re with escaped quote, x-z, failing)", func() []interface{} { return []interface{}{"it's abc", []string{"re='^it\\'s [x-z]+$'|must be x-z"}} },
			func(a []interface{}) (string, []string) { return errText(valid.Var(a[0], a[1].([]string)...)), nil },
			func() (string, bool) { return `input "it's abc", explain: must be x-z`, true }},
		// calls that end early inside the walk: a source that is no struct, scalar collections under required / exist
		{"Struct(int)", func() []interface{} { return []interface{}{5} },
			func(a []interface{}) (string, []string) { return errText(valid.Struct(a[0])), nil }, nil},
		{"Struct(scalar collections under required/exist)", func() []interface{} {
			return []interface{}{&Scalars{S: []string{"a", "b", "c"}, I: []int32{1, 2}, M: map[string]int{"k": 1, "j": 2}, P: []*int{nil}}}
		}, func(a []interface{}) (string, []string) { return errText(valid.Struct(a[0])), nil }, nil},
		// two rule sets registered in one call: the caller's maps stay the caller's
		{"VStruct.SetRule x2", func() []interface{} {
			return []interface{}{&T1{F: "abcd", G: 2}, valid.RM{"F": "to=1~2|rm1-F"}, valid.RM{"G": "eq=7|rm2-G"}}
		}, func(a []interface{}) (string, []string) {
			return errText(valid.NewVStruct().SetRule(a[1].(valid.RM)).SetRule(a[2].(valid.RM)).Valid(a[0])), nil
		}, nil},
		{"VStruct.SetRule x2 (typed)", func() []interface{} {
			return []interface{}{&T1{F: "abcd", G: 2}, valid.RM{"F": "to=1~2|rm1-F"}, valid.RM{"G": "eq=7|rm2-G"}}
		}, func(a []interface{}) (string, []string) {
			return errText(valid.NewVStruct().SetRule(a[1].(valid.RM), &T1{}).SetRule(a[2].(valid.RM), T1{}).Valid(a[0])), nil
		}, nil},
		// a long unsorted slice with one duplicate under unique: the caller's slice keeps its order
		{"Var([]string x40, unique)", func() []interface{} {
			var v []string
			for i := 0; i < 40; i++ {
				v = append(v, fmt.Sprintf("s%02d", (i*7)%39))
			}
			return []interface{}{v, []string{"unique", "ge=3"}}
		}, func(a []interface{}) (string, []string) { return errText(valid.Var(a[0], a[1].([]string)...)), nil }, nil},
		{"Struct(long slices)", func() []interface{} {
			var v []string
			var w []int
			for i := 0; i < 70; i++ {
				v = append(v, fmt.Sprintf("s%02d", (i*11)%64))
				w = append(w, (i*13)%61)
			}
			return []interface{}{&LongSlices{S: v, I: w}}
		}, func(a []interface{}) (string, []string) { return errText(valid.Struct(a[0])), nil }, nil},
		// calls rejected before validation although they carry rules
		{"StructForFn(typed nil, rm)", func() []interface{} {
			return []interface{}{(*T1)(nil), valid.RM{"F": "required|leak-F", "G": "eq=77|leak-G"}}
		},
			func(a []interface{}) (string, []string) {
				return errText(valid.StructForFn(a[0], a[1].(valid.RM))), nil
			}, nil},
		{"StructForFns(nil, rm, fns)", func() []interface{} {
			return []interface{}{nil, valid.RM{"Code": "zz|leak"}, valid.Name2FnMap{"zz": zzFn, "phone": lenientPhone}}
		}, func(a []interface{}) (string, []string) {
			return errText(valid.StructForFns(a[0], a[1].(valid.RM), a[2].(valid.Name2FnMap))), nil
		}, nil},
		// one rule-map object whose content differs from call to call (same address, same number of keys)
		{"Map(shared rm: to=1~10)", func() []interface{} {
			sharedRM["k"], sharedRM["j"] = "to=1~10|wide", "required|need-j"
			return []interface{}{map[string]int{"k": 15, "j": 1}, sharedRM}
		}, func(a []interface{}) (string, []string) { return errText(valid.Map(a[0], a[1].(valid.RM))), nil },
			func() (string, bool) { return `"map[k]" input "15", explain: wide`, true }},
		{"Map(shared rm: to=1~20)", func() []interface{} {
			sharedRM["k"], sharedRM["j"] = "to=1~20|wider", "eq=2|two"
			return []interface{}{map[string]int{"k": 15, "j": 1}, sharedRM}
		}, func(a []interface{}) (string, []string) { return errText(valid.Map(a[0], a[1].(valid.RM))), nil },
			func() (string, bool) { return `"map[j]" input "1", explain: two`, true }},
		{"Url(shared rm)", func() []interface{} {
			sharedRM["k"], sharedRM["j"] = "eq=2|len2", "phone|tel"
			return []interface{}{"http://h/p?k=abc&j=12", sharedRM}
		}, func(a []interface{}) (string, []string) { return errText(valid.Url(a[0], a[1].(valid.RM))), nil }, nil},
		{"GenValidKV+Explain", func() []interface{} { return []interface{}{"to", "1~10", "需要在 1-10"} },
			func(a []interface{}) (string, []string) {
				s := valid.GenValidKV(a[0].(string), a[1].(string), a[2].(string))
				e := valid.GetOnlyExplainErr(`"T.F" input "1", 说明: 短; "T.G" input "2", explain: long`)
				return s + "\x00" + e, []string{s, e}
			}, nil},
	}
}

var sharedRM2 = valid.RM{"k": "", "j": ""}

// fsPath: one path name that is a file during some calls, a directory during others and absent in between: what a
// file / dir rule answers is what the file system holds at the time of the call.
var fsPath = filepath.Join(func() string {
	if s := os.Getenv("VERIF_SCRATCH"); s != "" {
		return s
	}
	return os.TempDir()
}(), fmt.Sprintf("c12-path-%d", os.Getpid()))

// extraMenu: calls that are explored in a space of their own (all sequences over them and a few calls of the main menu).
func extraMenu() []callT {
	pathCall := func(name, state, rule, want string) callT {
		return callT{name, func() []interface{} { return []interface{}{fsPath, []string{rule}} },
			func(a []interface{}) (string, []string) {
				os.RemoveAll(fsPath)
				switch state {
				case "file":
					os.WriteFile(fsPath, []byte("x"), 0644)
				case "dir":
					os.Mkdir(fsPath, 0755)
				}
				r := errText(valid.Var(a[0], a[1].([]string)...))
				os.RemoveAll(fsPath)
				return r, nil
			}, func() (string, bool) {
				if want == "" {
					return "<nil>", true
				}
				return fmt.Sprintf("input %q, explain: %s", fsPath, want), true
			}}
	}
	return []callT{
		pathCall("Var(path, file) while the path is a file", "file", "file|not-a-file", ""),
		pathCall("Var(path, file) while the path does not exist", "", "file|not-a-file", "not-a-file"),
		pathCall("Var(path, file) while the path is a directory", "dir", "file|not-a-file", "not-a-file"),
		pathCall("Var(path, dir) while the path is a directory", "dir", "dir|not-a-dir", ""),
		pathCall("Var(path, dir) while the path does not exist", "", "dir|not-a-dir", "not-a-dir"),
		pathCall("Var(path, dir) while the path is a file", "file", "dir|not-a-dir", "not-a-dir"),
		// the extractor on messages that hold no explanation at all, and on an empty clause list
		{"GetOnlyExplainErr(no explanation)", func() []interface{} { return []interface{}{"src is nil"} },
			func(a []interface{}) (string, []string) {
				e := valid.GetOnlyExplainErr(a[0].(string))
				return e, []string{e}
			}, nil},
		{"GetOnlyExplainErr(clauses without explanation)", func() []interface{} { return []interface{}{`valid "zz" is not exist; valid "yy" is not exist`} },
			func(a []interface{}) (string, []string) {
				e := valid.GetOnlyExplainErr(a[0].(string))
				return e, []string{e}
			}, nil},
		// a struct call under another tag name that ends before validation starts (typed nil), then rule-writing errors
		// reported by the other entry points: their wording does not depend on what was called before
		{"StructForFn(typed nil, nil, tag check)", func() []interface{} { return []interface{}{(*T1)(nil)} },
			func(a []interface{}) (string, []string) { return errText(valid.StructForFn(a[0], nil, "check")), nil }, nil},
		{"ValidateStruct(nil, tag check)", func() []interface{} { return []interface{}{nil} },
			func(a []interface{}) (string, []string) { return errText(valid.ValidateStruct(a[0], "check")), nil }, nil},
		{"Var(malformed to)", func() []interface{} { return []interface{}{"abc", []string{"to=5"}} },
			func(a []interface{}) (string, []string) { return errText(valid.Var(a[0], a[1].([]string)...)), nil }, nil},
		{"Map(malformed in, either with one member)", func() []interface{} {
			return []interface{}{map[string]string{"k": "v", "j": ""}, valid.RM{"k": "in=a/b", "j": "either=1"}}
		}, func(a []interface{}) (string, []string) { return errText(valid.Map(a[0], a[1].(valid.RM))), nil }, nil},
		{"Struct(T1, tag check: malformed rules)", func() []interface{} { return []interface{}{&T1{F: "abc", G: 3}} },
			func(a []interface{}) (string, []string) { return errText(valid.ValidateStruct(a[0], "check")), nil }, nil},
		// one rule-map object (same address, same number of keys) whose required key differs from call to call, with
		// that key missing from the input
		{"Map(shared rm2: k required and missing)", func() []interface{} {
			sharedRM2["k"], sharedRM2["j"] = "required|need-k", "to=1~3|j-size"
			return []interface{}{map[string]string{"j": "ab"}, sharedRM2}
		}, func(a []interface{}) (string, []string) { return errText(valid.Map(a[0], a[1].(valid.RM))), nil },
			func() (string, bool) { return `"map[k]" input "", explain: need-k`, true }},
		{"Map(shared rm2: j required and missing)", func() []interface{} {
			sharedRM2["k"], sharedRM2["j"] = "to=1~3|k-size", "required|need-j"
			return []interface{}{map[string]string{"k": "ab"}, sharedRM2}
		}, func(a []interface{}) (string, []string) { return errText(valid.Map(a[0], a[1].(valid.RM))), nil },
			func() (string, bool) { return `"map[j]" input "", explain: need-j`, true }},
		{"Url(shared rm2: k required and missing)", func() []interface{} {
			sharedRM2["k"], sharedRM2["j"] = "required|need-k", "to=1~3|j-size"
			return []interface{}{"http://h/p?j=ab", sharedRM2}
		}, func(a []interface{}) (string, []string) { return errText(valid.Url(a[0], a[1].(valid.RM))), nil }, nil},
		{"Url(shared rm2: j required and missing)", func() []interface{} {
			sharedRM2["k"], sharedRM2["j"] = "to=1~3|k-size", "required|need-j"
			return []interface{}{"http://h/p?k=ab", sharedRM2}
		}, func(a []interface{}) (string, []string) { return errText(valid.Url(a[0], a[1].(valid.RM))), nil }, nil},
		// more rule objects than the entry point documents: the caller's objects stay as they are
		{"Struct(T1, rm1, rm2)", func() []interface{} {
			return []interface{}{&T1{F: "abcd", G: 2}, valid.RM{"F": "to=1~9|rm1-F"}, valid.RM{"F": "required|rm2-F", "G": "eq=7|rm2-G"}}
		}, func(a []interface{}) (string, []string) {
			return errText(valid.Struct(a[0], a[1].(valid.RM), a[2].(valid.RM))), nil
		}, nil},
		{"GetJoinValidErrStr+GetJoinFieldErr", func() []interface{} { return []interface{}{"Obj", "Field", "in"} },
			func(a []interface{}) (string, []string) {
				e1 := valid.GetJoinValidErrStr(a[0].(string), a[1].(string), a[2].(string), valid.ExplainEn, "one")
				e2 := valid.GetJoinFieldErr(a[0].(string), a[1].(string), "two")
				return e1 + "\x00" + e2, []string{e1, e2}
			}, nil},
	}
}

// extraMenu2: group rules over slices of maps and URLs, unique over values that are not equal to themselves, and calls
// abandoned because a function supplied by the caller panics (the caller recovers): whatever such a call leaves behind
// - pooled records, pooled sets, a builder given back twice - the calls after it do not see.
func extraMenu2() []callT {
	boom := func(errBuf *strings.Builder, validName, objName, fieldName string, tv reflect.Value) {
		var m map[string]int
		m[fieldName] = 1 // assignment to entry in nil map
	}
	recovered := func(f func() error) (res string) {
		defer func() {
			if r := recover(); r != nil {
				res = "panicked: " + fmt.Sprint(r)
			}
		}()
		return errText(f())
	}
	nan := math.NaN()
	return []callT{
		{"Map([]map, either over two maps)", func() []interface{} {
			return []interface{}{[]map[string]string{{"a": "", "b": ""}, {"a": "x", "b": ""}, {"a": "", "b": ""}}, valid.RM{"a": "either=1", "b": "either=1"}}
		}, func(a []interface{}) (string, []string) { return errText(valid.Map(a[0], a[1].(valid.RM))), nil }, nil},
		{"Map([]map, botheq over two maps)", func() []interface{} {
			return []interface{}{[]map[string]string{{"a": "1", "b": "2"}, {"a": "3", "b": "3"}}, valid.RM{"a": "botheq=2|ab", "b": "botheq=2|ab"}}
		}, func(a []interface{}) (string, []string) { return errText(valid.Map(a[0], a[1].(valid.RM))), nil }, nil},
		{"Url(either, both empty)", func() []interface{} {
			return []interface{}{"http://h/p?k1=&k2=&z=1", valid.RM{"k1": "either=4", "k2": "either=4"}}
		},
			func(a []interface{}) (string, []string) { return errText(valid.Url(a[0], a[1].(valid.RM))), nil }, nil},
		{"Var([]float64 with NaN, unique)", func() []interface{} { return []interface{}{[]string{"unique|uq"}} },
			func(a []interface{}) (string, []string) {
				return errText(valid.Var([]float64{nan, 1, 2, nan}, a[0].([]string)...)), nil
			}, nil},
		{"Var([2]float32{NaN, 1}, unique)", func() []interface{} { return []interface{}{[]string{"unique|uq"}} },
			func(a []interface{}) (string, []string) {
				return errText(valid.Var([2]float32{float32(nan), 1}, a[0].([]string)...)), nil
			}, nil},
		{"Var([]int{1,2,3}, unique)", func() []interface{} { return []interface{}{[]int{1, 2, 3}, []string{"unique|uq"}} },
			func(a []interface{}) (string, []string) { return errText(valid.Var(a[0], a[1].([]string)...)), nil },
			func() (string, bool) { return "<nil>", true }},
		{"Var([]string{a,b,a}, unique)", func() []interface{} { return []interface{}{[]string{"a", "b", "a"}, []string{"unique|uq"}} },
			func(a []interface{}) (string, []string) { return errText(valid.Var(a[0], a[1].([]string)...)), nil }, nil},
		{"StructForFns(T1, function that panics) recovered", func() []interface{} { return []interface{}{&T1{F: "abc", G: 3}} },
			func(a []interface{}) (string, []string) {
				return recovered(func() error {
					return valid.StructForFns(a[0], valid.RM{"F": "required,boom,to=1~2|after-boom", "G": "boom"}, valid.Name2FnMap{"boom": boom})
				}), nil
			}, nil},
		{"ValidStructForMyValidFn(T2, phone panics) recovered", func() []interface{} { return []interface{}{&T2{Tel: "not-a-phone", Code: "abcdef"}} },
			func(a []interface{}) (string, []string) {
				return recovered(func() error { return valid.ValidStructForMyValidFn(a[0], "phone", boom) }), nil
			}, nil},
		{"VarForFn(function that panics) recovered", func() []interface{} { return []interface{}{"abc"} },
			func(a []interface{}) (string, []string) {
				return recovered(func() error { return valid.VarForFn(a[0], boom) }), nil
			}, nil},
		{"MapFn(function that panics) recovered", func() []interface{} { return []interface{}{map[string]string{"k": "v", "j": "w"}} },
			func(a []interface{}) (string, []string) {
				return recovered(func() error {
					return valid.MapFn(a[0], valid.RM{"k": "to=5~9|k-size,boom", "j": "either=3"}, valid.Name2FnMap{"boom": boom})
				}), nil
			}, nil},
		{"UrlForFn(function that panics) recovered", func() []interface{} { return []interface{}{"http://h/p?k=v&j=w"} },
			func(a []interface{}) (string, []string) {
				return recovered(func() error {
					return valid.NewVUrl().SetValidFn("boom", boom).SetRule(valid.RM{"k": "to=5~9|k-size,boom", "j": "botheq=3"}).Valid(a[0])
				}), nil
			}, nil},
	}
}

// extraMenu3 (round 12): calls that leave a validator through one of its early exits (a value that is no struct, a URL
// without query string), calls whose walk is abandoned by a panicking function *behind a marker*, collections of structs
// under an unscoped rule set, and two validator objects alive at the same time - with the ordinary calls they must not
// disturb.
func extraMenu3() []callT {
	boom := func(errBuf *strings.Builder, validName, objName, fieldName string, tv reflect.Value) {
		var m map[string]int
		m[fieldName] = 1
	}
	recovered := func(f func() error) (res string) {
		defer func() {
			if r := recover(); r != nil {
				res = "panicked: " + fmt.Sprint(r)
			}
		}()
		return errText(f())
	}
	unscoped := func() valid.RM { return valid.RM{"F": "eq=9|unscoped-F", "G": "required|unscoped-G"} }
	return []callT{
		{"Struct(&int)", func() []interface{} { n := 5; return []interface{}{&n} },
			func(a []interface{}) (string, []string) { return errText(valid.Struct(a[0])), nil }, nil},
		{"Struct(string, rm)", func() []interface{} { return []interface{}{"abc", unscoped()} },
			func(a []interface{}) (string, []string) { return errText(valid.Struct(a[0], a[1].(valid.RM))), nil }, nil},
		{"Struct([]*T1, unscoped rm)", func() []interface{} {
			return []interface{}{[]*T1{{F: "", G: 9}, {F: "abcd", G: 2}, {F: "", G: 0}}, unscoped()}
		}, func(a []interface{}) (string, []string) { return errText(valid.Struct(a[0], a[1].(valid.RM))), nil }, nil},
		{"Struct([2]T1, unscoped rm)", func() []interface{} {
			return []interface{}{[2]T1{{F: "", G: 9}, {F: "abcd", G: 2}}, unscoped()}
		}, func(a []interface{}) (string, []string) { return errText(valid.Struct(a[0], a[1].(valid.RM))), nil }, nil},
		{"Struct(map[string]*T1 with one entry, unscoped rm)", func() []interface{} {
			return []interface{}{map[string]*T1{"k": {F: "", G: 9}}, unscoped()}
		}, func(a []interface{}) (string, []string) { return errText(valid.Struct(a[0], a[1].(valid.RM))), nil }, nil},
		{"Struct(T1, unscoped rm)", func() []interface{} { return []interface{}{&T1{F: "", G: 9}, unscoped()} },
			func(a []interface{}) (string, []string) { return errText(valid.Struct(a[0], a[1].(valid.RM))), nil }, nil},
		{"Struct(Holder)", func() []interface{} { return []interface{}{holder()} },
			func(a []interface{}) (string, []string) { return errText(valid.Struct(a[0])), nil }, nil},
		{"StructForFns(Holder, marker followed by a function that panics) recovered", func() []interface{} { return []interface{}{holder()} },
			func(a []interface{}) (string, []string) {
				return recovered(func() error {
					return valid.StructForFns(a[0], valid.RM{"N": "required,boom", "L": "exist,boom"}, valid.Name2FnMap{"boom": boom})
				}), nil
			}, nil},
		{"StructForFns(Holder, function that panics inside a sub-object) recovered", func() []interface{} { return []interface{}{holder()} },
			func(a []interface{}) (string, []string) {
				return recovered(func() error {
					return valid.NewVStruct().SetValidFn("boom", boom).SetRule(valid.RM{"G": "boom"}, T1{}).Valid(a[0])
				}), nil
			}, nil},
		{"Url(k present, k required)", func() []interface{} {
			return []interface{}{"http://h/p?k=abc&z=1", valid.RM{"k": "required|need-k"}}
		}, func(a []interface{}) (string, []string) { return errText(valid.Url(a[0], a[1].(valid.RM))), nil }, nil},
		{"Url(no query string, k required)", func() []interface{} {
			return []interface{}{"http://h/p", valid.RM{"k": "required|need-k"}}
		}, func(a []interface{}) (string, []string) { return errText(valid.Url(a[0], a[1].(valid.RM))), nil }, nil},
		{"Url(empty query string, k required)", func() []interface{} {
			return []interface{}{"http://h/p?", valid.RM{"k": "required|need-k"}}
		}, func(a []interface{}) (string, []string) { return errText(valid.Url(a[0], a[1].(valid.RM))), nil }, nil},
		{"Map(empty map, k required)", func() []interface{} {
			return []interface{}{map[string]string{}, valid.RM{"k": "required|need-k"}}
		}, func(a []interface{}) (string, []string) { return errText(valid.Map(a[0], a[1].(valid.RM))), nil }, nil},
		// (expected texts written out: a baseline computed in this process would itself come after the other call)
		{"Var(malformed to=7)", func() []interface{} { return []interface{}{"abc", []string{"to=7"}} },
			func(a []interface{}) (string, []string) { return errText(valid.Var(a[0], a[1].([]string)...)), nil },
			func() (string, bool) {
				return "valid \"to\" is not ok, eg: type Test struct {\n    Name string `valid:\"to=1~10\"`\n}", true
			}},
		{"Var(malformed oto=7)", func() []interface{} { return []interface{}{"abc", []string{"oto=7"}} },
			func(a []interface{}) (string, []string) { return errText(valid.Var(a[0], a[1].([]string)...)), nil },
			func() (string, bool) {
				return "valid \"to\" is not ok, eg: type Test struct {\n    Name string `valid:\"oto=1~10\"`\n}", true
			}},
		{"UrlForFn(url with k, function under a rule name of its own)", func() []interface{} { return []interface{}{"http://h/p?k=abc&j="} },
			func(a []interface{}) (string, []string) { return errText(valid.UrlForFn(a[0], "k", zzFn)), nil }, nil},
		{"NewVMap().Valid(map) without rules", func() []interface{} { return []interface{}{map[string]string{"k": "", "j": "abc"}} },
			func(a []interface{}) (string, []string) { return errText(valid.NewVMap().Valid(a[0])), nil }, nil},
		{"NewVUrl().Valid(url) without rules", func() []interface{} { return []interface{}{"http://h/p?k=&j=abc"} },
			func(a []interface{}) (string, []string) { return errText(valid.NewVUrl().Valid(a[0])), nil }, nil},
		{"two VVar objects alive together", func() []interface{} { return []interface{}{"abc"} },
			func(a []interface{}) (string, []string) {
				return recovered(func() error {
					x, y := valid.NewVVar(), valid.NewVVar()
					x.SetRules("to=1~2|x-short")
					ex := x.Valid(a[0])
					y.SetRules("in=(a/b)|y-in")
					ey := y.Valid(a[0])
					return fmt.Errorf("%v + %v", ex, ey)
				}), nil
			}, nil},
		{"two VStruct objects alive together", func() []interface{} { return []interface{}{&T1{F: "", G: 9}} },
			func(a []interface{}) (string, []string) {
				return recovered(func() error {
					x, y := valid.NewVStruct(), valid.NewVStruct()
					y.SetRule(valid.RM{"G": "eq=7|y-G"})
					ey := y.Valid(a[0])
					x.SetRule(valid.RM{"F": "required|x-F"})
					ex := x.Valid(a[0])
					return fmt.Errorf("%v + %v", ex, ey)
				}), nil
			}, nil},
		{"VUrl and VMap objects alive together", func() []interface{} { return []interface{}{"http://h/p?k=abc", map[string]string{"k": "abc"}} },
			func(a []interface{}) (string, []string) {
				return recovered(func() error {
					x, y, z := valid.NewVUrl(), valid.NewVMap(), valid.NewVUrl()
					x.SetRule(valid.RM{"k": "to=1~2|x-short"})
					y.SetRule(valid.RM{"k": "to=5~6|y-long"})
					z.SetRule(valid.RM{"j": "required|z-j"})
					ey := y.Valid(a[1])
					ez := z.Valid(a[0])
					ex := x.Valid(a[0])
					return fmt.Errorf("%v + %v + %v", ex, ey, ez)
				}), nil
			}, nil},
	}
}

// canon makes a result independent of Go map iteration order (group clause order, member order inside a Map group clause).
func canon(res string) string {
	if !strings.Contains(res, "explain: they ") {
		return res
	}
	var out []string
	for _, cl := range errparse.Parse(res) {
		if cl.Group {
			m := append([]string{}, cl.Members...)
			sort.Strings(m)
			out = append(out, "G{"+strings.Join(m, ",")+"}"+cl.Text)
		} else {
			out = append(out, cl.Raw)
		}
	}
	sort.Strings(out)
	return strings.Join(out, "; ")
}

// sameArgs: deep equality, function tables compared by their key sets (func values are not comparable).
func sameArgs(a, b []interface{}) bool {
	if len(a) != len(b) {
		return false
	}
	for i := range a {
		fa, ok := a[i].(valid.Name2FnMap)
		if ok {
			fb := b[i].(valid.Name2FnMap)
			if len(fa) != len(fb) {
				return false
			}
			for k, f := range fa {
				if g, ok := fb[k]; !ok || (f == nil) != (g == nil) {
					return false
				}
			}
			continue
		}
		if !reflect.DeepEqual(a[i], b[i]) {
			return false
		}
	}
	return true
}

type handed struct {
	live string // the string as handed out (possibly aliasing an internal buffer)
	copy string // detached copy made at hand-out time
	from string
}

func run(c *runner.Ctx) {
	d := &deleg{inner: valid.NewLRU()}
	valid.SetStructTypeCache(d)
	menu := callMenu()
	nMain := len(menu)
	menu = append(menu, extraMenu()...)
	nExtra1 := len(menu)
	menu = append(menu, extraMenu2()...)
	nExtra2 := len(menu)
	menu = append(menu, extraMenu3()...)
	// fresh-state results (scheduler inactive, fresh cache), cross-checked with the model
	fresh := make([]string, len(menu))
	for i, cl := range menu {
		d.inner = valid.NewLRU()
		fresh[i], _ = cl.run(cl.mk())
		if cl.mdl != nil {
			m, _ := cl.mdl()
			if m == "" {
				m = "<nil>"
			}
			if m != fresh[i] && c.Worker == 0 {
				c.Space("model")
				c.Take()
				c.Violation("fresh-result-differs-from-model/"+cl.name, map[string]interface{}{"call": cl.name, "model": m, "actual": fresh[i]})
			}
		}
	}

	// the same fresh-state results again in reverse order: a call must not depend on which calls this process made
	// before (state surviving in package variables is invisible to a single forward pass, which computes every baseline
	// after the same predecessors)
	for i := len(menu) - 1; i >= 0; i-- {
		d.inner = valid.NewLRU()
		r, _ := menu[i].run(menu[i].mk())
		if canon(r) != canon(fresh[i]) && c.Worker == 0 {
			c.Space("model")
			c.Take()
			c.Violation("result-depends-on-history/"+menu[i].name, map[string]interface{}{"call": menu[i].name, "after_the_calls_before_it": fresh[i], "after_all_calls": r})
		}
	}

	// churn >= 0: the type cache of the execution is LRU(1) and `churn` other types are validated (scheduler inactive)
	// before the sequence, so that the cache's internal removal counter sits at every residue of its rebuild period
	churn := -1
	explore := func(seq []int, bound int) {
		var viol []string
		reported := map[string]bool{}
		var names []string
		for _, i := range seq {
			names = append(names, menu[i].name)
		}
		var obsKey string
		ex := &vsched.Explorer{
			Opt: vsched.Options{Bound: bound, PoolChoices: true, Deadline: c.Deadline()},
			Setup: func() []func() {
				d.inner = valid.NewLRU()
				if churn >= 0 {
					d.inner = valid.NewLRU(1)
					for i := 0; i < churn; i++ {
						_ = valid.Struct(reflect.New(churnTypes[i]).Interface())
					}
				}
				viol = viol[:0]
				obsKey = ""
				keptErrs = keptErrs[:0]
				return []func(){func() {
					var hs []handed
					type keptArg struct {
						args []interface{}
						ci   int
					}
					var keptArgs []keptArg
					for pos, ci := range seq {
						cl := menu[ci]
						args := cl.mk()
						res, toks := cl.run(args)
						if canon(res) != canon(fresh[ci]) {
							viol = append(viol, fmt.Sprintf("result-depends-on-history/%s|position %d: got %q, fresh-state result %q", cl.name, pos, res, fresh[ci]))
						}
						if !sameArgs(args, cl.mk()) {
							viol = append(viol, fmt.Sprintf("arguments-modified/%s|position %d: %v", cl.name, pos, args))
						}
						// what earlier calls of the sequence were given is still what it was (a later call must not write into a rule
						// slice, rule map or value an earlier caller still holds)
						for _, k := range keptArgs {
							if !sameArgs(k.args, menu[k.ci].mk()) {
								viol = append(viol, fmt.Sprintf("arguments-of-an-earlier-call-modified/%s|after %s at position %d: %v", menu[k.ci].name, cl.name, pos, k.args))
							}
						}
						keptArgs = append(keptArgs, keptArg{args, ci})
						hs = append(hs, handed{res, strings.Clone(res), cl.name})
						for _, t := range toks {
							hs = append(hs, handed{t, strings.Clone(t), cl.name + " token"})
						}
						for _, k := range keptErrs {
							if now := k.err.Error(); now != k.text {
								viol = append(viol, fmt.Sprintf("kept-error-changed|after %s at position %d: %q became %q", cl.name, pos, k.text, now))
							}
						}
						for _, h := range hs {
							if h.live != h.copy {
								viol = append(viol, fmt.Sprintf("handed-out-string-changed/%s|after %s at position %d: %q became %q", h.from, cl.name, pos, h.copy, h.live))
							}
						}
						obsKey += res + "|"
					}
				}}
			},
		}
		ex.Check = func(x *vsched.Exec) bool {
			ok := true
			if x.Panics[0] != "" {
				viol = append(viol, "panic@"+x.Sites[0]+"|"+x.Panics[0])
			}
			if x.Deadlock || x.Hang || x.Misuse != "" {
				viol = append(viol, "deadlock-or-misuse|"+strings.Join(x.Blocked, ";")+x.Misuse)
			}
			for _, v := range viol {
				ok = false
				p := strings.SplitN(v, "|", 2)
				if !reported[p[0]] {
					reported[p[0]] = true
					c.Violation(p[0], map[string]interface{}{"sequence": names, "pool_schedule": x.Choices, "trace": x.TraceString(), "what": p[1]})
				}
			}
			c.State(obsKey)
			return ok
		}
		var res vsched.Result
		if choices, child := vsched.ChildChoices(); child {
			x := ex.Replay(choices)
			if dv := ex.Diverged(); dv != "" {
				vsched.WriteChildDiverged(dv)
				res = vsched.Result{Execs: 1}
			} else {
				vsched.WriteChildResult(x, ex.Check(x))
				res = vsched.Result{Execs: 1, Steps: int64(len(x.Trace))}
			}
		} else {
			res = ex.Explore()
		}
		if res.Diverged != "" {
			// process-global state of the code under test survives between executions: one process per execution
			if isolatedBudget <= 0 {
				c.MarkIncomplete()
				c.Note("replay divergence (process-global state survives between executions); isolated-process budget used up")
				c.Done(false, 0)
				return
			}
			c.Count("sequences_explored_with_one_process_per_execution", 1)
			ex.Remote = vsched.RemoteVia(c.RunCaseInChild, os.Getenv("VERIF_SCRATCH"), &isolatedBudget, func(prefix []int, stderr string, err error) {
				if strings.Contains(stderr, "HARNESS-ERROR") {
					fmt.Fprintln(os.Stderr, stderr)
					os.Exit(3)
				}
				c.Violation("isolated-execution-crashed", map[string]interface{}{"sequence": names, "pool_schedule": prefix, "error": err.Error(), "stderr": stderr})
			})
			ex.Opt.StopAtFirst = true
			res = ex.Explore()
			ex.Remote = nil
		}
		if res.Capped {
			c.MarkIncomplete()
		}
		c.Count("executions", res.Execs)
		c.Done(len(seq) >= 2, int(res.Steps))
		if len(reported) == 0 {
			c.Outcome("ok")
		} else {
			c.Outcome("violation")
		}
		c.Sample(func() interface{} {
			return map[string]interface{}{"sequence": names, "pool_answer_executions": res.Execs, "bound": bound}
		})
	}

	// long histories: one call repeated 100 times (whatever a call leaks - a counter, a pooled object that is a little
	// more used each time - adds up), then every call once: still the fresh-state result. Scheduler inactive.
	c.Space("after-100-repetitions-of-one-call")
	for i := range menu {
		if !c.Take() {
			continue
		}
		d.inner = valid.NewLRU()
		var bad string
		pan, msg, site := runner.Guard(func() {
			for k := 0; k < 100; k++ {
				menu[i].run(menu[i].mk())
			}
			for j := range menu {
				r, _ := menu[j].run(menu[j].mk())
				if canon(r) != canon(fresh[j]) && bad == "" {
					bad = menu[j].name
					c.Violation("result-depends-on-history/after-100x/"+menu[j].name, map[string]interface{}{"repeated_call": menu[i].name, "call": menu[j].name, "fresh_result": fresh[j], "result_after_the_repetitions": r})
				}
			}
		})
		c.Done(true, 100+len(menu))
		if pan {
			c.Violation("panic@"+site, map[string]interface{}{"repeated_call": menu[i].name, "panic": msg})
		} else if bad == "" {
			c.Outcome("ok")
		}
	}

	// the calls of the extra menu with five calls of the main menu: every sequence up to length 3 (thorough: 4)
	{
		ext := []int{}
		for i := nMain; i < nExtra1; i++ {
			ext = append(ext, i)
		}
		for i, cl := range menu[:nMain] {
			switch cl.name {
			case "Struct(T1)", "Struct(T4 groups)", "Var(quoted-fail)", "Map", "Url":
				ext = append(ext, i)
			}
		}
		maxE := 3
		if c.Thorough() {
			maxE = 4
		}
		for l := 1; l <= maxE; l++ {
			c.Space(fmt.Sprintf("file-system-and-extractor-calls/sequences-len%d", l))
			total := 1
			for i := 0; i < l; i++ {
				total *= len(ext)
			}
			for x := 0; x < total; x++ {
				if !c.Take() {
					continue
				}
				seq := make([]int, l)
				y := x
				for i := l - 1; i >= 0; i-- {
					seq[i] = ext[y%len(ext)]
					y /= len(ext)
				}
				bd := 2
				if l >= 4 {
					bd = 1
				}
				explore(seq, bd)
			}
			if c.Expired() {
				return
			}
		}
	}
	// the group / unique / abandoned calls with five calls of the main menu: every sequence up to length 3 (thorough: 4)
	{
		ext := []int{}
		for i := nExtra1; i < nExtra2; i++ {
			ext = append(ext, i)
		}
		for i, cl := range menu[:nMain] {
			switch cl.name {
			case "Struct(T1)", "Struct(T4 groups)", "Var(quoted-fail)", "Map", "Url":
				ext = append(ext, i)
			}
		}
		maxE := 3
		if c.Thorough() {
			maxE = 4
		}
		for l := 1; l <= maxE; l++ {
			c.Space(fmt.Sprintf("group-unique-and-abandoned-calls/sequences-len%d", l))
			total := 1
			for i := 0; i < l; i++ {
				total *= len(ext)
			}
			for x := 0; x < total; x++ {
				if !c.Take() {
					continue
				}
				seq := make([]int, l)
				y := x
				for i := l - 1; i >= 0; i-- {
					seq[i] = ext[y%len(ext)]
					y /= len(ext)
				}
				bd := 2
				if l >= 4 {
					bd = 1
				}
				explore(seq, bd)
			}
			if c.Expired() {
				return
			}
		}
	}
	// round 12: early exits, abandoned walks behind a marker, unscoped rule sets over collections, validator objects alive together, with five calls of the main menu: every sequence up to length 3 (thorough: 4)
	{
		ext := []int{}
		for i := nExtra2; i < len(menu); i++ {
			ext = append(ext, i)
		}
		for i, cl := range menu[:nMain] {
			switch cl.name {
			case "Struct(T1)", "Struct(T4 groups)", "Var(quoted-fail)", "Map", "Url":
				ext = append(ext, i)
			}
		}
		maxE := 3
		if c.Thorough() {
			maxE = 4
		}
		for l := 1; l <= maxE; l++ {
			c.Space(fmt.Sprintf("early-exits-unscoped-collections-and-objects-alive-together/sequences-len%d", l))
			total := 1
			for i := 0; i < l; i++ {
				total *= len(ext)
			}
			for x := 0; x < total; x++ {
				if !c.Take() {
					continue
				}
				seq := make([]int, l)
				y := x
				for i := l - 1; i >= 0; i-- {
					seq[i] = ext[y%len(ext)]
					y /= len(ext)
				}
				bd := 2
				if l >= 4 {
					bd = 1
				}
				explore(seq, bd)
			}
			if c.Expired() {
				return
			}
		}
	}
	n := nMain
	b3, b4 := 2, 1
	if c.Thorough() {
		b3, b4 = 2, 2
	}
	maxL := 3
	if c.Thorough() {
		maxL = 4
	}
	for l := 1; l <= maxL; l++ {
		c.Space(fmt.Sprintf("sequences-len%d", l))
		seq := make([]int, l)
		total := 1
		for i := 0; i < l; i++ {
			total *= n
		}
		for x := 0; x < total; x++ {
			if !c.Take() {
				continue
			}
			y := x
			for i := l - 1; i >= 0; i-- {
				seq[i] = y % n
				y /= n
			}
			bd := b3
			if l <= 2 {
				bd = 2
			}
			if l >= 4 {
				bd = 1
			}
			explore(append([]int{}, seq...), bd)
		}
		if c.Expired() {
			return
		}
	}
	// every sequence of length 3 again on a one-entry cache after 0..5 evictions (default pool answers only)
	for churn = 0; churn <= 5; churn++ {
		c.Space(fmt.Sprintf("sequences-len3/LRU(1)-after-%d-evictions", churn))
		seq := make([]int, 3)
		for x := 0; x < n*n*n; x++ {
			if !c.Take() {
				continue
			}
			seq[0], seq[1], seq[2] = x/(n*n), (x/n)%n, x%n
			explore(append([]int{}, seq...), 0)
		}
	}
	churn = -1
	c.Space("permutations-of-4-subsets")
	var rec func(cur []int, used uint)
	rec = func(cur []int, used uint) {
		if len(cur) == 4 {
			if c.Take() {
				explore(append([]int{}, cur...), b4)
			}
			return
		}
		for i := 0; i < n; i++ {
			if used&(1<<uint(i)) == 0 {
				rec(append(cur, i), used|1<<uint(i))
			}
		}
	}
	if c.Thorough() {
		rec(nil, 0)
	} else {
		// quick: permutations of the 4-subsets of the first 8 calls
		n8 := n
		n = 8
		rec(nil, 0)
		n = n8
	}
}

func main() {
	runner.Main(runner.Config{
		Property:  "C12",
		Technique: "all call sequences/permutations up to a depth, single-threaded under the controlled scheduler with every sync.Pool.Get answer enumerated (deviation-bounded); fresh-state oracle + aliasing re-reads",
		Rule: "40 heterogeneous calls + 16 in a third space of their own (round 12: values rejected as no struct, URLs without or with an empty query string and empty maps under required, collections of structs under an unscoped rule set, walks abandoned by a panicking function behind a marker or inside a sub-object, two or three validator objects alive at the same time), every sequence <=3 (thorough 4) over these and five main calls; + 12 in a second space of their own (either / botheq over a slice of maps and over URL parameters, unique over slices that hold NaN, calls abandoned by a caller-supplied function that panics - the caller recovers - through StructForFns / ValidStructForMyValidFn / VarForFn / MapFn / VUrl), every sequence <=3 (thorough 4) over these and five main calls; + 9 in a space of their own (file / dir rules on one path that is a file, a directory or absent at the time of the call; the explanation extractor on messages without explanation; the clause builders), every sequence <=3 (thorough 4) over these and five main calls; main menu: (calls rejected before validation although they carry rules, one rule-map object whose content differs from call to call, long unsorted slices under unique, datetime with custom and default separators, calls rejected before validation (unsupported / nil source), two rule sets registered in one call, struct with default tag / tag b / per-call rules / per-call functions, group rules over a slice, Var with quoted rules, Map, Url, a call returning before validation, splitter, builder+extractor); " +
			"all sequences of length<=3 (thorough: <=4), all sequences of length 3 again on a one-entry type cache after 0..5 evictions, and all permutations of 4-subsets; per sequence every Pool.Get answer (top / other pooled object / New) within the deviation bound; per call: result = fresh-state result (= model for struct calls), " +
			"arguments deep-equal to a fresh copy, every previously handed-out error string / rule token re-compared with its detached copy; transitions = scheduling steps; states = distinct result vectors; non-trivial = sequences of >=2 calls",
		Assumptions: []string{"pool answers are owned by the scheduler shim (sync.Pool replaced through the build overlay)", "global type cache fresh per execution (delegating CacheEr)"},
		Run:         run,
		QuickBudget: 5 * time.Minute,
	})
}
