// C07 — tag injection is idempotent.
// E-seq: (1) every generated file is injected 4 times through the library (same process) and through the CLI
// (process per run): run n+1 = run n for n >= 1, files without annotations never change; (2) explicit-state breadth
// first search over directory states under real CLI runs {-f a, -f b, -d D, -p D/*.go, -p D/a*.go} until closure,
// with the idempotence invariants checked on every transition.
package main

import (
	"bytes"
	"crypto/sha1"
	"fmt"
	"go/parser"
	"go/token"
	"os"
	"os/exec"
	"path/filepath"
	"sort"
	"strings"

	"gitee.com/xuesongtao/protoc-go-valid/file"
	"verif/internal/inject"
	"verif/internal/runner"
)

var scratch, cli string

func libInject(path string) (err error, pan bool, msg, site string) {
	pan, msg, site = runner.Guard(func() {
		areas, e := file.ParseFile(path)
		if e != nil {
			err = e
			return
		}
		err = file.WriteFile(path, areas)
	})
	return
}

func runCLI(args ...string) (string, error) {
	cmd := exec.Command(cli, args...)
	var out bytes.Buffer
	cmd.Stderr = &out
	cmd.Stdout = &out
	err := cmd.Run()
	return out.String(), err
}

// throughLink: the next repeat() reaches the file through a symbolic link.
var throughLink bool

func repeat(c *runner.Ctx, src []byte, desc string, annotated int, viaCLI bool, runs int) {
	dir := filepath.Join(scratch, fmt.Sprintf("w%d", c.Worker))
	os.MkdirAll(dir, 0755)
	path := filepath.Join(dir, "x.pb.go")
	os.Remove(path)
	if throughLink {
		// the generated file is reached through a symbolic link (api.pb.go -> gen/v1.go)
		os.MkdirAll(filepath.Join(dir, "gen"), 0755)
		os.WriteFile(filepath.Join(dir, "gen", "v1.go"), src, 0644)
		os.Symlink(filepath.Join("gen", "v1.go"), path)
		defer os.Remove(path)
	} else {
		os.WriteFile(path, src, 0644)
	}
	var prev []byte
	via := "library"
	if viaCLI {
		via = "cli -f"
	}
	if throughLink {
		via += " through a symbolic link"
	}
	for r := 1; r <= runs; r++ {
		if viaCLI {
			out, err := runCLI("-f", path)
			if err != nil || strings.Contains(out, "panic:") {
				c.Violation("cli-crash", map[string]interface{}{"file": string(src), "run": r, "output": tail(out)})
				return
			}
		} else {
			err, pan, msg, site := libInject(path)
			if pan {
				c.Violation("panic@"+site, map[string]interface{}{"file": string(src), "run": r, "panic": msg})
				return
			}
			if err != nil {
				// refusing a file that is not Go any more is the right answer (an earlier run wrote an annotation value
				// that a raw-string literal cannot hold: what to write for it is not specified); anything else is not
				before := src
				if r >= 2 {
					before = prev
				}
				if _, perr := parser.ParseFile(token.NewFileSet(), "x.go", before, parser.ParseComments); perr == nil {
					c.Violation("library-error", map[string]interface{}{"file": string(src), "run": r, "error": err.Error()})
					return
				}
			}
		}
		c.AddTransitions(1)
		cur, _ := os.ReadFile(path)
		if r == 1 && annotated == 0 && !bytes.Equal(cur, src) {
			c.Violation("unannotated-file-changed/"+via, map[string]interface{}{"file": string(src), "after": string(cur), "what": desc})
			return
		}
		if r >= 2 && !bytes.Equal(cur, prev) {
			c.Outcome("not-idempotent")
			c.Violation(fmt.Sprintf("run%d-differs-from-run%d/%s", r, r-1, via), map[string]interface{}{"file": string(src), "what": desc, "after_run_" + fmt.Sprint(r-1): string(prev), "after_run_" + fmt.Sprint(r): string(cur)})
			return
		}
		prev = cur
	}
	c.Outcome("stable")
}

func tail(s string) string {
	if len(s) > 1200 {
		return s[len(s)-1200:]
	}
	return s
}

// ---- directory state graph ----

type dirState map[string]string // file name -> content

func (d dirState) key() string {
	var names []string
	for n := range d {
		names = append(names, n)
	}
	sort.Strings(names)
	h := sha1.New()
	for _, n := range names {
		fmt.Fprintf(h, "%s\x00%d\x00%s\x00", n, len(d[n]), d[n])
	}
	return fmt.Sprintf("%x", h.Sum(nil))
}

func materialise(dir string, d dirState) {
	os.RemoveAll(dir)
	os.MkdirAll(dir, 0755)
	for n, cnt := range d {
		os.WriteFile(filepath.Join(dir, n), []byte(cnt), 0644)
	}
}

func readDir(dir string) dirState {
	d := dirState{}
	ents, _ := os.ReadDir(dir)
	for _, e := range ents {
		if !e.IsDir() {
			b, _ := os.ReadFile(filepath.Join(dir, e.Name()))
			d[e.Name()] = string(b)
		}
	}
	return d
}

type transition struct {
	name    string
	args    func(dir string) []string
	targets func(name string) bool
}

func transitions() []transition {
	return []transition{
		{"-f a.pb.go", func(d string) []string { return []string{"-f", filepath.Join(d, "a.pb.go")} }, func(n string) bool { return n == "a.pb.go" }},
		{"-f b.pb.go", func(d string) []string { return []string{"-f", filepath.Join(d, "b.pb.go")} }, func(n string) bool { return n == "b.pb.go" }},
		{"-d D", func(d string) []string { return []string{"-d", d} }, func(n string) bool { return strings.HasSuffix(n, ".go") }},
		{"-p D/*.go", func(d string) []string { return []string{"-p", filepath.Join(d, "*.go")} }, func(n string) bool { return strings.HasSuffix(n, ".go") }},
		{"-p D/a*.go", func(d string) []string { return []string{"-p", filepath.Join(d, "a*.go")} }, func(n string) bool { return strings.HasPrefix(n, "a") && strings.HasSuffix(n, ".go") }},
		{"-f c.txt", func(d string) []string { return []string{"-f", filepath.Join(d, "c.txt")} }, func(n string) bool { return false }},
	}
}

func bfs(c *runner.Ctx, init dirState, desc string) {
	dir := filepath.Join(scratch, fmt.Sprintf("g%d", c.Worker))
	trs := transitions()
	seen := map[string]dirState{init.key(): init}
	frontier := []dirState{init}
	depthOf := map[string]int{init.key(): 0}
	values := map[string]map[string]bool{} // file -> distinct contents seen
	for n, cnt := range init {
		values[n] = map[string]bool{cnt: true}
	}
	processed := map[string]string{} // file -> injected value (first seen)
	ntrans, maxDepth := 0, 0
	fail := func(sig string, det map[string]interface{}) {
		det["directory"] = desc
		c.Violation(sig, det)
	}
	for len(frontier) > 0 {
		st := frontier[0]
		frontier = frontier[1:]
		for _, tr := range trs {
			materialise(dir, st)
			out, err := runCLI(tr.args(dir)...)
			ntrans++
			if err != nil || strings.Contains(out, "panic:") {
				fail("cli-crash", map[string]interface{}{"transition": tr.name, "output": tail(out)})
				return
			}
			nx := readDir(dir)
			for n := range nx {
				if _, ok := st[n]; !ok {
					fail("file-created", map[string]interface{}{"transition": tr.name, "file": n})
					return
				}
			}
			for n, before := range st {
				after, ok := nx[n]
				if !ok {
					fail("file-removed", map[string]interface{}{"transition": tr.name, "file": n})
					return
				}
				if after == before {
					continue
				}
				if !tr.targets(n) { // I1
					fail("transition-changed-untargeted-file", map[string]interface{}{"transition": tr.name, "file": n, "before": before, "after": after})
					return
				}
				ann, parses := inject.Analyse([]byte(init[n]))
				if !strings.HasSuffix(n, ".go") || !parses || len(ann) == 0 { // I4
					fail("unannotated-or-non-go-file-changed", map[string]interface{}{"transition": tr.name, "file": n, "before": before, "after": after})
					return
				}
				if before != init[n] { // I3: it had been processed already
					fail("processed-file-changed-again", map[string]interface{}{"transition": tr.name, "file": n, "before": before, "after": after})
					return
				}
				if p, ok := processed[n]; ok && p != after { // I2
					fail("injected-value-depends-on-path", map[string]interface{}{"transition": tr.name, "file": n, "one": p, "other": after})
					return
				}
				processed[n] = after
				values[n][after] = true
				if len(values[n]) > 2 {
					fail("file-takes-more-than-two-values", map[string]interface{}{"file": n})
					return
				}
			}
			k := nx.key()
			if _, ok := seen[k]; !ok {
				seen[k] = nx
				depthOf[k] = depthOf[st.key()] + 1
				if depthOf[k] > maxDepth {
					maxDepth = depthOf[k]
				}
				frontier = append(frontier, nx)
			}
		}
	}
	c.StateN(int64(len(seen)))
	c.Done(len(seen) > 2, ntrans)
	c.Count("graph_max_depth_sum", int64(maxDepth))
	c.Outcome(fmt.Sprintf("closed:states=%d", len(seen)))
	c.Sample(func() interface{} {
		return map[string]interface{}{"directory": desc, "states": len(seen), "transitions": ntrans, "max_depth": maxDepth}
	})
}

func run(c *runner.Ctx) {
	scratch = os.Getenv("VERIF_SCRATCH")
	cli = os.Getenv("VERIF_CLI")
	menu := append(inject.FieldMenu(), inject.DupKeyMenu()...) // incl. annotations that repeat a key (idempotence only)
	emb := inject.Fillers[5]
	header := "// 生成的文件 ✓"
	mkFile := func(fs []inject.FieldVariant, hdr bool) ([]byte, int) {
		h := ""
		if hdr {
			h = header
		}
		n := 0
		for _, f := range fs {
			if f.Annotated {
				n++
			}
		}
		return inject.File(h, []string{inject.Fillers[1], inject.StructDecl("Msg", fs), emb}), n
	}
	c.Space("library-repeat/1-2-fields")
	for i, f := range menu {
		if c.Take() {
			src, n := mkFile([]inject.FieldVariant{f}, i%2 == 0)
			repeat(c, src, f.Shape, n, false, 4)
			c.Done(n > 0, 0)
		}
		for j, g := range menu {
			if !c.Take() {
				continue
			}
			src, n := mkFile([]inject.FieldVariant{f, g}, (i+j)%2 == 0)
			repeat(c, src, f.Shape+"+"+g.Shape, n, false, 4)
			if (i+j)%7 == 3 {
				throughLink = true
				repeat(c, src, f.Shape+"+"+g.Shape, n, false, 3)
				if cli != "" {
					repeat(c, src, f.Shape+"+"+g.Shape, n, true, 2)
				}
				throughLink = false
			}
			if (i+j)%4 == 0 { // two annotated structs declared against the alphabet (round 13)
				two := inject.File("", []string{inject.StructDecl("Zone", []inject.FieldVariant{f}), inject.Fillers[1], inject.StructDecl("Account", []inject.FieldVariant{g, f}), emb})
				repeat(c, two, f.Shape+" | "+g.Shape+"+"+f.Shape+" [structs Zone, Account]", n, false, 4)
			}
			if (i+j)%3 == 1 { // the headers real generated files carry
				gh := inject.GeneratedHeaders[((i+j)/3)%len(inject.GeneratedHeaders)]
				gsrc := inject.File(gh, []string{inject.Fillers[1], inject.StructDecl("Msg", []inject.FieldVariant{f, g}), emb})
				repeat(c, gsrc, f.Shape+"+"+g.Shape+" [generated-file header]", n, false, 4)
				if cli != "" && (i+j)%24 == 1 {
					repeat(c, gsrc, f.Shape+"+"+g.Shape+" [generated-file header]", n, true, 3)
				}
			}
			if (i+j)%5 == 2 { // CRLF line endings / byte-order mark
				crlf := bytes.ReplaceAll(src, []byte("\n"), []byte("\r\n"))
				repeat(c, crlf, f.Shape+"+"+g.Shape+" [CRLF]", n, false, 3)
				repeat(c, append([]byte("\xef\xbb\xbf"), crlf...), f.Shape+"+"+g.Shape+" [BOM+CRLF]", n, false, 3)
			}
			c.Done(n > 0, 0)
			c.Sample(func() interface{} { return f.Shape + "+" + g.Shape + " x4 (library)" })
		}
	}
	m3 := menu
	if !c.Thorough() {
		m3 = nil
		for i, f := range menu {
			if i%2 == 0 || strings.HasPrefix(f.Shape, "F13") || strings.HasPrefix(f.Shape, "F11") || strings.HasPrefix(f.Shape, "D") {
				m3 = append(m3, f)
			}
		}
	}
	c.Space("library-repeat/3-fields")
	for _, f := range m3 {
		for _, g := range m3 {
			for _, h := range m3 {
				if !c.Take() {
					continue
				}
				src, n := mkFile([]inject.FieldVariant{f, g, h}, true)
				repeat(c, src, f.Shape+"+"+g.Shape+"+"+h.Shape, n, false, 3)
				c.Done(n > 0, 0)
			}
		}
	}
	if cli == "" {
		return
	}
	c.Space("cli-repeat")
	for i, f := range menu {
		for j, g := range menu {
			if !c.Thorough() && (i*len(menu)+j)%2 != 0 {
				continue
			}
			if !c.Take() {
				continue
			}
			src, n := mkFile([]inject.FieldVariant{f, g}, true)
			repeat(c, src, f.Shape+"+"+g.Shape, n, true, 3)
			c.Done(n > 0, 0)
		}
	}
	// directory state graphs
	c.Space("cli-directory-graphs")
	var fileMenu []struct {
		desc string
		src  string
	}
	pick := []int{}
	for i, f := range menu {
		if !f.Annotated || i%4 == 0 || strings.HasPrefix(f.Shape, "F13") || strings.HasPrefix(f.Shape, "F11") || strings.HasPrefix(f.Shape, "F5") || strings.HasPrefix(f.Shape, "D") || strings.HasPrefix(f.Shape, "F17") {
			pick = append(pick, i)
		}
	}
	if !c.Thorough() && len(pick) > 16 {
		pick = pick[:16]
	}
	for _, i := range pick {
		src, _ := mkFile([]inject.FieldVariant{menu[i], menu[(i+7)%len(menu)]}, i%2 == 0)
		fileMenu = append(fileMenu, struct{ desc, src string }{menu[i].Shape + "+" + menu[(i+7)%len(menu)].Shape, string(src)})
	}
	nonGo := "notes: field string `json:\"x\"` // @tag valid:\"required\"\n"
	for _, a := range fileMenu {
		for _, b := range fileMenu {
			if !c.Take() {
				continue
			}
			bfs(c, dirState{"a.pb.go": a.src, "b.pb.go": b.src, "c.txt": nonGo}, "a="+a.desc+" b="+b.desc+" c.txt=non-Go text")
		}
	}
	// directories that an interrupted earlier run (or an editor) left behind: stale siblings next to the .go files.
	// They are not .go files: no transition may touch them, and the .go files must end exactly as without them.
	c.Space("cli-directory-graphs/stale-siblings")
	for i, a := range fileMenu {
		if !c.Take() {
			continue
		}
		b := fileMenu[(i+3)%len(fileMenu)]
		stale := a.src + "\n// stale copy left by an interrupted run\ntype Stale struct {\n\tOld string `json:\"old\"` // @tag valid:\"required\"\n}\n"
		bfs(c, dirState{"a.pb.go": a.src, "b.pb.go": b.src, "c.txt": nonGo, "a.pb.go.tmp": stale, "b.pb.go.bak": stale, "a.pb.go~": stale, ".a.pb.go.swp": stale},
			"a="+a.desc+" b="+b.desc+" + stale siblings a.pb.go.tmp, b.pb.go.bak, a.pb.go~, .a.pb.go.swp")
	}
}

func pre(tier string) ([]string, error) {
	bin := filepath.Join(runner.VerifDir, ".build", "injector-cli-c07")
	cmd := exec.Command("go", "build", "-o", bin, ".")
	cmd.Dir = runner.RepoDir
	cmd.Env = append(os.Environ(), "GOFLAGS=-mod=mod", "GOPROXY=off", "GOSUMDB=off", "GOTOOLCHAIN=local")
	if out, err := cmd.CombinedOutput(); err != nil {
		return nil, fmt.Errorf("building the CLI from /repo: %v\n%s", err, out)
	}
	return []string{"VERIF_CLI=" + bin}, nil
}

func main() {
	runner.Main(runner.Config{
		Property:  "C07",
		Technique: "explicit-state BFS over directory states under real CLI runs until closure + repeated library/CLI runs over all generated files; idempotence invariants on every transition",
		Rule: "(1) every 1-/2-field struct file of the 41-variant field menu (C06's menu + 3 annotations that repeat a key) (3-field over a reduced menu) injected 4 times in-process and (a slice) 3 times through the CLI: content after run n+1 = after run n, unannotated files unchanged; " +
			"(2) for every ordered pair of file variants: breadth-first search from the directory {a.pb.go, b.pb.go, c.txt} over the transitions {-f a, -f b, -d D, -p D/*.go, -p D/a*.go, -f c.txt}, states keyed by the hash of all file bytes, until closure; " +
			"the same graphs from directories holding stale siblings (a.pb.go.tmp, b.pb.go.bak, a.pb.go~, .a.pb.go.swp) left by an interrupted run; on every transition: only targeted files change, no file disappears, unannotated / non-Go files never change, a processed file never changes again, the injected content does not depend on the path; states/transitions are measured; non-trivial = graphs with >2 states",
		Assumptions: []string{"the CLI binary is built from /repo's working tree at check time", "file menu as in C06"},
		Run:         run,
		Pre:         pre,
	})
}
