// C05 — format and content rules accept exactly their documented language.
// E-enum: per rule (a) all strings up to a length over a rule-specific alphabet, (b) the complete one-edit
// neighbourhood of valid seed members over a 40-symbol alphabet, plus numeric / slice inputs; verdict compared with
// the independent recognisers of internal/lang.
package main

import (
	"fmt"
	"math"
	"os"
	"path/filepath"
	"reflect"
	"regexp"
	"strconv"
	"strings"

	"verif/internal/carrier"
	"verif/internal/enum"
	"verif/internal/lang"
	"verif/internal/runner"
)

type recog func(v reflect.Value) (member, specified bool)

type spec struct {
	space string
	rule  string
	rec   recog
	gen   func(emit func(reflect.Value))
	// classify refines the signature of a disagreement (optional)
	classify func(v reflect.Value, want bool) string
}

func rv(x interface{}) reflect.Value { return reflect.ValueOf(x) }

func strRec(f func(string) bool) recog {
	return func(v reflect.Value) (bool, bool) { return f(v.String()), true }
}
func strRec2(f func(string) (bool, bool)) recog {
	return func(v reflect.Value) (bool, bool) { return f(v.String()) }
}

func genStrings(alpha []string, n int) func(func(reflect.Value)) {
	return func(emit func(reflect.Value)) { enum.Strings(alpha, n, func(s string) { emit(rv(s)) }) }
}
func genEdits(seeds ...string) func(func(reflect.Value)) {
	return func(emit func(reflect.Value)) {
		for _, sd := range seeds {
			enum.Edits1(sd, enum.EditAlphabet, func(s string) {
				if s != "" {
					emit(rv(s))
				}
			})
		}
	}
}
func genList(vals ...interface{}) func(func(reflect.Value)) {
	return func(emit func(reflect.Value)) {
		for _, v := range vals {
			emit(rv(v))
		}
	}
}

// Level is a string-backed enum whose String method renders something else than its text.
type Level string

func (l Level) String() string { return "Level(" + strings.ToUpper(string(l)) + ")" }

var signedNum = regexp.MustCompile(`^[+-][0-9]+(\.[0-9]+)?$`)

// canon renders a scalar the way the documentation says numbers are compared (canonical decimal).
func canon(v reflect.Value) string {
	switch v.Kind() {
	case reflect.String:
		return v.String()
	case reflect.Int, reflect.Int8, reflect.Int16, reflect.Int32, reflect.Int64:
		return strconv.FormatInt(v.Int(), 10)
	case reflect.Uint, reflect.Uint8, reflect.Uint16, reflect.Uint32, reflect.Uint64:
		return strconv.FormatUint(v.Uint(), 10)
	case reflect.Float32:
		return strconv.FormatFloat(v.Float(), 'f', -1, 32)
	case reflect.Float64:
		return strconv.FormatFloat(v.Float(), 'f', -1, 64)
	case reflect.Bool:
		return strconv.FormatBool(v.Bool())
	}
	return fmt.Sprint(v.Interface())
}

func dateSpecs(thorough bool) []spec {
	var out []spec
	seps := []string{"", "-", "/", ".", ":", " ", "_"}
	type tr struct{ d, m, t string }
	var triples []tr
	for _, d := range seps {
		for _, m := range seps {
			for _, t := range seps {
				triples = append(triples, tr{d, m, t})
			}
		}
	}
	dates := [][6]int{{2021, 9, 28, 23, 0, 0}, {2024, 2, 29, 0, 0, 0}, {2023, 2, 29, 12, 30, 30}, {2023, 2, 30, 1, 1, 1}, {2021, 4, 31, 1, 1, 1}, {2021, 0, 10, 1, 1, 1},
		{2021, 13, 10, 1, 1, 1}, {2021, 1, 0, 1, 1, 1}, {2021, 1, 32, 1, 1, 1}, {2021, 1, 2, 24, 0, 0}, {2021, 1, 2, 23, 60, 0}, {2021, 1, 2, 23, 59, 60}, {1900, 2, 29, 0, 0, 0}, {2000, 2, 29, 23, 59, 59}, {0, 1, 1, 0, 0, 0}, {9999, 12, 31, 23, 59, 59}}
	render := func(x [6]int, level int, d, m, t string) string {
		s := fmt.Sprintf("%04d", x[0])
		if level >= 2 {
			s += d + fmt.Sprintf("%02d", x[1])
		}
		if level >= 3 {
			s += d + fmt.Sprintf("%02d", x[2])
		}
		if level >= 6 {
			s += m + fmt.Sprintf("%02d", x[3]) + t + fmt.Sprintf("%02d", x[4]) + t + fmt.Sprintf("%02d", x[5])
		}
		return s
	}
	classify := func(level int, d, m, t string) func(reflect.Value, bool) string {
		return func(v reflect.Value, want bool) string {
			s := v.String()
			if want { // recogniser rejects, implementation accepts
				sp := regexp.MustCompile(` {2,}`).ReplaceAllString(s, " ")
				if sp != s && lang.DateTime(sp, level, d, m, t) {
					return "accepts-repeated-space"
				}
				if level == 6 {
					if fr := regexp.MustCompile(`[.,][0-9]+$`).ReplaceAllString(s, ""); fr != s && lang.DateTime(fr, level, d, m, t) {
						return "accepts-fractional-seconds"
					}
					// single-digit hour: zero-pad the hour position
					pre := 4 + len(d) + 2 + len(d) + 2 + len(m)
					if len(s) > pre && lang.DateTime(s[:pre]+"0"+s[pre:], level, d, m, t) {
						return "accepts-single-digit-hour"
					}
				}
				if (d == " " || m == " " || t == " ") && lang.DateTime(s+" ", level, d, m, t) {
					return "accepts-missing-space"
				}
			}
			return ""
		}
	}
	mk := func(name string, level int, ruleOf func(tr) string, trs []tr) {
		for _, x := range trs {
			x := x
			if level < 6 && (x.m != seps[0] || x.t != seps[0]) {
				continue
			}
			rule := ruleOf(x)
			out = append(out, spec{
				space: fmt.Sprintf("%s d=%q m=%q t=%q", name, x.d, x.m, x.t), rule: rule,
				rec: strRec(func(s string) bool { return lang.DateTime(s, level, x.d, x.m, x.t) }),
				gen: func(emit func(reflect.Value)) {
					seen := map[string]bool{}
					put := func(s string) {
						if s != "" && !seen[s] {
							seen[s] = true
							emit(rv(s))
						}
					}
					for i, dt := range dates {
						s := render(dt, level, x.d, x.m, x.t)
						put(s)
						if level == 6 { // fractional seconds are not part of the documented shape
							put(s + ".5")
							put(s + ",5")
							put(s + ".123")
						}
						if i < 2 || (thorough && i < 4) { // full edit neighbourhood of valid members
							enum.Edits1(s, enum.EditAlphabet, put)
						}
						// mixed separators
						for _, o := range seps {
							put(render(dt, level, o, x.m, x.t))
							if level == 6 {
								put(render(dt, level, x.d, o, x.t))
								put(render(dt, level, x.d, x.m, o))
							}
						}
					}
				},
				classify: classify(level, x.d, x.m, x.t),
			})
		}
	}
	q := func(s string) string {
		if s == "" || strings.ContainsAny(s, " ,") {
			return "'" + s + "'"
		}
		return s
	}
	mk("year", 1, func(tr) string { return "year" }, []tr{{"", "", ""}})
	var dOnly []tr
	for _, d := range seps {
		dOnly = append(dOnly, tr{d, "", ""})
	}
	// separators that hold a comma (quoted, so that the rule list is not split there): for year2month / date the whole
	// quoted text is the one separator
	dOnly = append(dOnly, tr{",", "", ""}, tr{", ", "", ""}, tr{"/,", "", ""}, tr{",/", "", ""}, tr{"-,-", "", ""})
	mk("year2month", 2, func(x tr) string { return "year2month=" + q(x.d) }, dOnly)
	mk("date", 3, func(x tr) string { return "date=" + q(x.d) }, dOnly)
	// defaults (no argument)
	mk("year2month-default", 2, func(tr) string { return "year2month" }, []tr{{"-", "", ""}})
	mk("date-default", 3, func(tr) string { return "date" }, []tr{{"-", "", ""}})
	mk("datetime-default", 6, func(tr) string { return "datetime" }, []tr{{"-", " ", ":"}})
	if !thorough {
		// quick: a diagonal slice of the 343 triples (every separator occurs in every position)
		var sub []tr
		for i, x := range triples {
			if i%7 == (i/7)%7 || i%49 == 0 {
				sub = append(sub, x)
			}
		}
		// plus pairs of triples that differ only in where an empty separator sits (same concatenation, different layout):
		// the layout must be derived from the triple, not from any flattened form of it
		sub = append(sub, tr{"-", "", ":"}, tr{"", "-", ":"}, tr{"/", "", "."}, tr{"", "/", "."}, tr{" ", "", " "}, tr{"", " ", " "})
		triples = sub
	}
	mk("datetime", 6, func(x tr) string { return "datetime='" + x.d + "," + x.m + "," + x.t + "'" }, triples)
	// the defaults and partly specified separators again, after every custom triple has been used in this process
	mk("datetime-default-again", 6, func(tr) string { return "datetime" }, []tr{{"-", " ", ":"}})
	mk("datetime-date-separator-only", 6, func(x tr) string { return "datetime=" + q(x.d) }, []tr{{"/", " ", ":"}, {".", " ", ":"}, {"-", " ", ":"}})
	mk("datetime-two-separators", 6, func(x tr) string { return "datetime='" + x.d + "," + x.m + "'" }, []tr{{"/", "_", ":"}, {"-", " ", ":"}})
	mk("date-default-again", 3, func(tr) string { return "date" }, []tr{{"-", "", ""}})
	mk("year2month-default-again", 2, func(tr) string { return "year2month" }, []tr{{"-", "", ""}})
	return out
}

func specs(c *runner.Ctx) []spec {
	th := c.Thorough()
	// string lengths: the quick tier runs what used to be the thorough lengths, the thorough tier one symbol more
	n := func(q, t int) int {
		if th {
			return t + 1
		}
		return t
	}
	var out []spec
	numAlpha := []string{"0", "1", "9", ".", "-", "+", "x", "e", " "}
	signedUnspec := func(f func(string) bool) recog {
		return func(v reflect.Value) (bool, bool) {
			s := v.String()
			if signedNum.MatchString(s) {
				return false, false
			}
			return f(s), true
		}
	}
	out = append(out,
		spec{space: "int/strings", rule: "int", rec: signedUnspec(lang.Int), gen: genStrings(numAlpha, n(4, 5))},
		spec{space: "int/edits", rule: "int", rec: signedUnspec(lang.Int), gen: genEdits("7", "007", "15", "1234567890", "18446744073709551615", "18446744073709551616", "99999999999999999999999999999999")},
		spec{space: "int/kinds", rule: "int", rec: func(v reflect.Value) (bool, bool) { return true, true },
			gen: genList(int(5), int8(-3), int64(1<<40), uint16(7), uint64(1<<63))},
		spec{space: "float/strings", rule: "float", rec: signedUnspec(lang.Float), gen: genStrings(numAlpha, n(4, 5))},
		spec{space: "float/edits", rule: "float", rec: signedUnspec(lang.Float), gen: genEdits("1.5", "10.25", "0.5", "3.14159", "123456789012345678901234567890.5", "0.000000000000000000000000000001")},
		spec{space: "float/kinds", rule: "float", rec: func(v reflect.Value) (bool, bool) { return true, true }, gen: genList(float32(1.5), float64(2.25), float64(1e20), float32(0.1))},
	)
	// ints
	for _, sep := range []string{"", "-", "/", "ab", "、", "--", "::"} {
		sep := sep
		rule, eff := "ints", ","
		if sep != "" {
			rule, eff = "ints="+sep, sep
		}
		other := "-"
		if eff == "-" {
			other = ","
		}
		alpha := []string{"1", "2", eff, other, "x"}
		out = append(out, spec{space: "ints/strings sep=" + eff, rule: rule, rec: strRec(func(s string) bool { return lang.Ints(s, eff) }), gen: genStrings(alpha, n(5, 6))})
		out = append(out, spec{space: "ints/edits sep=" + eff, rule: rule, rec: strRec(func(s string) bool { return lang.Ints(s, eff) }),
			gen: genEdits("1"+eff+"2"+eff+"3", "10"+eff+"20")})
	}
	sliceInts := func(v reflect.Value) (bool, bool) {
		for i := 0; i < v.Len(); i++ {
			s := canon(v.Index(i))
			if signedNum.MatchString(s) {
				return false, false
			}
			if !lang.Int(s) {
				return false, true
			}
		}
		return true, true
	}
	out = append(out, spec{space: "ints/slices", rule: "ints", rec: sliceInts, gen: genList(
		[]int{1, 2, 3}, []int{7}, []int{0, 5}, []string{"1", "2"}, []string{"1", "hello"}, []string{"1", ""}, []string{"1", "2.5"}, []string{"x"}, []string{"1", "2", "3x"}, []string{"3x", "1", "2"},
		[]float64{1, 2}, []float64{1.5, 2}, []float64{1, 2.5}, []int32{4, 5}, [2]int{1, 2}, [3]string{"1", "2", "a"}, [3]string{"1", "2", "3"})})
	// phone
	out = append(out,
		spec{space: "phone/infix", rule: "phone", rec: strRec(lang.Phone), gen: func(emit func(reflect.Value)) {
			enum.Strings([]string{"1", "3", "9", "0", "2", ",", "a"}, n(3, 4), func(p string) {
				emit(rv(padPhone(p)))
			})
		}},
		spec{space: "phone/edits", rule: "phone", rec: strRec(lang.Phone), gen: genEdits("13800138000", "19912345678", "14700000000")},
	)
	// email
	out = append(out,
		spec{space: "email/strings", rule: "email", rec: strRec(lang.Email), gen: genStrings([]string{"a", "1", "_", "-", "+", ".", "@"}, n(6, 7))},
		spec{space: "email/edits", rule: "email", rec: strRec(lang.Email), gen: genEdits("a@b.cn", "a.b+c@d-e.f.org", "x_1@y.z")},
	)
	// idcard
	out = append(out, spec{space: "idcard/edits", rule: "idcard", rec: strRec(lang.IDCard),
		gen: genEdits("110101199003074", "110101199003074514", "11010119900307451X", "11010119900307451x")})
	// ip
	ipAlpha := []string{"0", "1", "2", "5", ".", ":", "f"}
	ipSeeds := []string{"1.2.3.4", "255.255.255.255", "10.0.0.1", "::1", "2001:db8::1", "1:2:3:4:5:6:7:8", "fe80::", "::"}
	out = append(out,
		spec{space: "ip/strings", rule: "ip", rec: strRec2(lang.IP), gen: genStrings(ipAlpha, n(6, 7))},
		spec{space: "ip/edits", rule: "ip", rec: strRec2(lang.IP), gen: genEdits(ipSeeds...)},
		spec{space: "ipv4/strings", rule: "ipv4", rec: strRec2(ipv4Only), gen: genStrings(ipAlpha, n(6, 7))},
		spec{space: "ipv4/edits", rule: "ipv4", rec: strRec2(ipv4Only), gen: genEdits(ipSeeds...)},
		spec{space: "ipv6/strings", rule: "ipv6", rec: strRec2(ipv6Only), gen: genStrings(ipAlpha, n(6, 7))},
		spec{space: "ipv6/edits", rule: "ipv6", rec: strRec2(ipv6Only), gen: genEdits(ipSeeds...)},
	)
	// zone-suffixed literals are not part of the RFC 4291 text form
	zones := genList("fe80::1%eth0", "::1%1", "fe80::%0", "1.2.3.4%eth0", "fe80::1%", "%eth0", "::%25eth0")
	out = append(out,
		spec{space: "ip/zones", rule: "ip", rec: strRec2(lang.IP), gen: zones},
		spec{space: "ipv6/zones", rule: "ipv6", rec: strRec2(ipv6Only), gen: zones},
		spec{space: "ipv4/zones", rule: "ipv4", rec: strRec2(ipv4Only), gen: zones},
	)
	out = append(out, dateSpecs(th)...)
	// in / include
	optMenu := []string{"a", "b", "ab", "1", "1.5", "0.1", "中", "'/d'", "'a/b'", "''", "true"}
	var optLists [][]string
	for i := range optMenu {
		optLists = append(optLists, []string{optMenu[i]})
		for j := range optMenu {
			if j != i {
				optLists = append(optLists, []string{optMenu[i], optMenu[j]})
				if th {
					for k := range optMenu {
						if k != i && k != j && (i+j+k)%3 == 0 {
							optLists = append(optLists, []string{optMenu[i], optMenu[j], optMenu[k]})
						}
					}
				}
			}
		}
	}
	optLists = append(optLists, []string{"a", "b", "ab"}, []string{"1", "2", "3"}, []string{"'a/b'", "中", "1.5"})
	// options that are other spellings of a number (round 13): an option is a text, a numeric value is a member when
	// its own rendering is that text - "1e2", "0x10", "+7", "07", "1.0" and '3.0' name no number's rendering, and
	// 9007199254740992 is not 9007199254740993
	for _, ol := range [][]string{{"1e2", "0x10", "+7"}, {"07", "1.0", "2.50"}, {"'3.0'", "9007199254740992", "1_000"}, {"100", "16", "7", "3", "1", "2.5"}, {"1E2", "0X10", "0b11", "0o7", ".5", "5."}} {
		list := strings.Join(ol, "/")
		opts := lang.Options(list)
		out = append(out, spec{space: "in (" + list + ") over numbers", rule: "in=(" + list + ")",
			rec: func(v reflect.Value) (bool, bool) { return lang.In(canon(v), opts), true },
			gen: func(emit func(reflect.Value)) {
				for _, x := range []interface{}{int(100), int64(16), uint8(7), int(7), float64(3), float32(3), float64(1), float64(2.5), float32(2.5), int64(9007199254740993), int64(9007199254740992), uint64(9007199254740993), float64(100), int(1000), int8(3), float64(0.5), int(5),
					"1e2", "0x10", "+7", "07", "1.0", "2.50", "3.0", "100", "16", "7", "3", "1E2", ".5", "5."} {
					emit(rv(x))
				}
			}})
	}
	for _, ol := range optLists {
		list := strings.Join(ol, "/")
		opts := lang.Options(list)
		out = append(out, spec{space: "in (" + list + ")", rule: "in=(" + list + ")",
			rec: func(v reflect.Value) (bool, bool) { return lang.In(canon(v), opts), true },
			gen: func(emit func(reflect.Value)) {
				enum.Strings([]string{"a", "b", "1", ".", "5", "中", "/", "d", "'"}, 2, func(s string) { emit(rv(s)) })
				for _, x := range []interface{}{"ab", "1.5", "0.1", "a/b", "/d", "true", "1.50", "abc", int(1), int8(1), int64(15), uint(1), uint8(5), float64(1.5), float32(1.5), float32(0.1), float64(0.1), float64(1), float32(16777.217), true} {
					emit(rv(x))
				}
				// string-backed enums with a String method of their own: the value is its text, not its rendering
				for _, x := range []string{"a", "b", "ab", "1", "1.5", "中", "A", "Level(A)"} {
					emit(rv(Level(x)))
				}
			}})
		hasEmpty := false
		for _, o := range opts {
			if o == "" {
				hasEmpty = true
			}
		}
		if hasEmpty {
			continue // an empty option under include is a rule-writing question, not part of the documented language
		}
		out = append(out, spec{space: "include (" + list + ")", rule: "include=(" + list + ")",
			rec: strRec(func(s string) bool { return lang.Include(s, opts) }),
			gen: func(emit func(reflect.Value)) {
				enum.Strings([]string{"a", "b", "1", ".", "5", "中", "/", "d"}, 3, func(s string) { emit(rv(s)) })
				for _, x := range []string{"xabx", "x1.5", "0.1", "xa/b", "truex", "tru"} {
					emit(rv(x))
				}
				for _, x := range []string{"a", "xabx", "1", "Level", "L", "(", "中"} {
					emit(rv(Level(x)))
				}
			}})
	}
	// two rules on one field, each with quoted text of its own (the second one is the last thing in the rule string)
	{
		inOpts := lang.Options("'2024/01/02'/'2024/01/03'/x")
		dateRe := regexp.MustCompile(`^\d{4}/\d{2}/\d{2}$`)
		vals := genList("2024/01/02", "2024/01/03", "2024/01/04", "x", "2024-01-02", "'2024/01/02'", "2024/01", "2024/13/45", "required", "a/b")
		out = append(out,
			spec{space: "in(quoted options) then date(quoted separator)", rule: "in=('2024/01/02'/'2024/01/03'/x),date='/'",
				rec: strRec(func(s string) bool { return lang.In(s, inOpts) && dateRe.MatchString(s) }), gen: vals},
			spec{space: "in(quoted options) then re", rule: "in=('a/b'/required/'2024/01/02'),re='^[a-z/]+$'",
				rec: strRec(func(s string) bool {
					return lang.In(s, lang.Options("'a/b'/required/'2024/01/02'")) && regexp.MustCompile(`^[a-z/]+$`).MatchString(s)
				}), gen: vals},
			spec{space: "include(quoted option) then in(quoted options)", rule: "include=('a/b'),in=('a/b'/'xa/bx'/'2024/01/02')",
				rec: strRec(func(s string) bool {
					return strings.Contains(s, "a/b") && lang.In(s, lang.Options("'a/b'/'xa/bx'/'2024/01/02'"))
				}),
				gen: genList("a/b", "xa/bx", "2024/01/02", "a", "xa/b", "'a/b'")})
	}
	// quoted options that end in a backslash (Windows paths): the backslash is an ordinary character, the quote closes
	{
		opts := []string{`C:\`, `D:\`, "x"}
		vals := genList(`C:\`, `D:\`, "x", "C:", `C:\'/'D:\`, `\`, "D:", `C:\x`)
		out = append(out,
			spec{space: "in(quoted options ending in a backslash)", rule: `in=('C:\'/'D:\'/x)`, rec: strRec(func(s string) bool { return lang.In(s, opts) }), gen: vals},
			spec{space: "include(quoted option ending in a backslash)", rule: `include=('\'/ab)`, rec: strRec(func(s string) bool { return strings.Contains(s, `\`) || strings.Contains(s, "ab") }),
				gen: genList("xaby", `a\b`, "x", `\`, "ab", "a", `'\'`)})
	}
	// re
	reValAlpha := []string{"a", "b", "x", "y", "z", "1", ",", "'", "|", "\\", "d"}
	for _, pat := range []string{`[a-z]+`, `^\d{2}$`, `a|b`, `a,b`, `^it\'s$`, `^(x|y),z$`, `\\d+`, `^[ab]{2},?$`, `^1|x$`} {
		pat := pat
		re := regexp.MustCompile(pat)
		for _, msg := range []string{"", "|bad", "|不对", "|'x,y'", "|it's"} {
			if strings.Contains(pat, `\'`) && strings.Contains(msg, "'") {
				continue // an escaped quote in the pattern together with quotes in the message: which quotes pair up is not specified (§7)
			}
			out = append(out, spec{space: "re " + pat + msg, rule: "re='" + pat + "'" + msg,
				rec: strRec(re.MatchString),
				gen: func(emit func(reflect.Value)) {
					enum.Strings(reValAlpha, n(2, 3), func(s string) { emit(rv(s)) })
					for _, x := range []string{"it's", "x,z", "y,z", "xyz", "12", "123", `\d`, `\dd`, "ab,", "a,b"} {
						emit(rv(x))
					}
				}})
		}
	}
	// unique
	out = append(out, spec{space: "unique/strings", rule: "unique", rec: strRec(func(s string) bool { return lang.Unique(strings.Split(s, ",")) }),
		gen: func(emit func(reflect.Value)) {
			pieces := []string{"a", "b", "", "1", "1.0"}
			for k := 1; k <= 4; k++ {
				enum.Seqs(len(pieces), k, func(ix []int) {
					var p []string
					for _, i := range ix {
						p = append(p, pieces[i])
					}
					if s := strings.Join(p, ","); s != "" {
						emit(rv(s))
					}
				})
			}
		}})
	out = append(out, spec{space: "unique/slices", rule: "unique",
		rec: func(v reflect.Value) (bool, bool) {
			var items []string
			for i := 0; i < v.Len(); i++ {
				items = append(items, canon(v.Index(i)))
			}
			return lang.Unique(items), true
		},
		gen: func(emit func(reflect.Value)) {
			for k := 1; k <= 4; k++ {
				enum.Seqs(3, k, func(ix []int) {
					is := make([]int, len(ix))
					fs := make([]float64, len(ix))
					f32 := make([]float32, len(ix))
					ss := make([]string, len(ix))
					for j, i := range ix {
						is[j] = []int{1, 2, -1}[i]
						fs[j] = []float64{1, 1.5, 0.1}[i]
						f32[j] = []float32{1, 1.5, 0.1}[i]
						ss[j] = []string{"a", "", "中"}[i]
					}
					emit(rv(is))
					emit(rv(fs))
					emit(rv(f32))
					emit(rv(ss))
				})
			}
			emit(rv([3]string{"a", "b", "a"}))
			emit(rv([2]int{1, 2}))
			emit(rv([]string{"1", "1.0"}))
			emit(rv([]float64{1, 1.0}))
			// values whose IEEE equality differs from the equality of their renderings
			negZero := math.Copysign(0, -1)
			nan := math.NaN()
			emit(rv([]float64{0, negZero}))
			emit(rv([]float64{negZero, 0, 1}))
			emit(rv([]float64{nan, nan}))
			emit(rv([]float64{nan, 1, nan}))
			emit(rv([]float64{nan, 1}))
			emit(rv([]float32{0, float32(negZero)}))
			emit(rv([]float32{float32(nan), float32(nan)}))
			emit(rv([2]float64{nan, nan}))
			emit(rv([]float64{math.Inf(1), math.Inf(1)}))
			emit(rv([]float64{math.Inf(1), math.Inf(-1)}))
		}})
	// json
	out = append(out,
		spec{space: "json/strings", rule: "json", rec: strRec2(lang.JSON), gen: genStrings([]string{"{", "}", "[", "]", "\"", ":", ",", "1", "-", "a", " "}, n(5, 6))},
		spec{space: "json/edits", rule: "json", rec: strRec2(lang.JSON), gen: genEdits(`{"a":[1,true,null]}`, `"x"`, `1e5`, `[1.5,-0]`, `{"k":"\n"}`)},
	)
	// prefix / suffix
	var args []string
	enum.Strings([]string{"a", "b", "中"}, 3, func(s string) { args = append(args, s) })
	for _, a := range args {
		a := a
		out = append(out, spec{space: "prefix " + a, rule: "prefix=" + a, rec: strRec(func(s string) bool { return len(s) >= len(a) && s[:len(a)] == a }), gen: genStrings([]string{"a", "b", "中"}, 3)})
		out = append(out, spec{space: "suffix " + a, rule: "suffix=" + a, rec: strRec(func(s string) bool { return len(s) >= len(a) && s[len(s)-len(a):] == a }), gen: genStrings([]string{"a", "b", "中"}, 3)})
	}
	// options that hold '/' (URLs, paths): one literal string, not a list of alternatives
	for _, a := range []string{"http://", "/usr/", "/", "a/b", "//", "a/"} {
		a := a
		vals := genList("http://x", "http:x", "http:/x", "/usr/bin", "usr", "/usr", "usr/", "/", "a/b", "a/bx", "xa/b", "bx", "ax", "a", "b", "//", "x//", "a/", "xa/", "a")
		out = append(out, spec{space: "prefix " + a, rule: "prefix=" + a, rec: strRec(func(s string) bool { return strings.HasPrefix(s, a) }), gen: vals})
		out = append(out, spec{space: "suffix " + a, rule: "suffix=" + a, rec: strRec(func(s string) bool { return strings.HasSuffix(s, a) }), gen: vals})
	}
	// options that start or end with a blank: the blank is part of the literal
	for _, a := range []string{"Re: ", " kg", " ", "a ", " a"} {
		a := a
		vals := genList("Re: topic", "Re:topic", "Re: ", "Re:", "10 kg", "10kg", " kg", "kg", " x", "x", " ", "a b", "a ", "ab", "a", " a", "b a", "ba", "x ")
		out = append(out, spec{space: "prefix " + a, rule: "prefix=" + a, rec: strRec(func(s string) bool { return strings.HasPrefix(s, a) }), gen: vals})
		out = append(out, spec{space: "suffix " + a, rule: "suffix=" + a, rec: strRec(func(s string) bool { return strings.HasSuffix(s, a) }), gen: vals})
	}
	// file / dir (fixture built per worker)
	fx := fixture()
	out = append(out, spec{space: "file", rule: "file", rec: func(v reflect.Value) (bool, bool) { return fx[v.String()] == 'f', true }, gen: func(emit func(reflect.Value)) {
		for _, p := range fxOrder {
			emit(rv(p))
		}
	}})
	out = append(out, spec{space: "dir", rule: "dir", rec: func(v reflect.Value) (bool, bool) { return fx[v.String()] == 'd', true }, gen: func(emit func(reflect.Value)) {
		for _, p := range fxOrder {
			emit(rv(p))
		}
	}})
	return out
}

// padPhone completes an infix to the 11-digit frame 1 3 8 0 0 1 3 8 0 0 0: the first len(p) symbols replaced by p.
func padPhone(p string) string {
	frame := "13800138000"
	k := len([]rune(p))
	if k > len(frame) {
		return p
	}
	return p + frame[k:]
}

func ipv4Only(s string) (bool, bool) {
	m, sp := lang.IPv4(s)
	if !sp {
		return false, false
	}
	if m {
		return true, true
	}
	// IPv6 text denoting an IPv4-mapped address / mixed notation: unspecified (DESIGN §7)
	if _, sp6 := lang.IPv6(s); !sp6 {
		return false, false
	}
	return false, true
}

func ipv6Only(s string) (bool, bool) {
	m, sp := lang.IPv6(s)
	if !sp {
		return false, false
	}
	if !m {
		if _, sp4 := lang.IPv4(s); !sp4 {
			return false, false
		}
	}
	return m, true
}

var fxOrder []string

// fixture builds {file, dir, missing, symlink->file, symlink->dir, dangling symlink, trailing slashes}.
func fixture() map[string]byte {
	base := os.Getenv("VERIF_SCRATCH")
	if base == "" {
		base = os.TempDir()
	}
	root := filepath.Join(base, fmt.Sprintf("fx-%d", os.Getpid()))
	os.MkdirAll(filepath.Join(root, "dir"), 0755)
	os.WriteFile(filepath.Join(root, "file"), []byte("x"), 0644)
	os.WriteFile(filepath.Join(root, "dir", "inner.txt"), []byte("y"), 0644)
	os.Symlink(filepath.Join(root, "file"), filepath.Join(root, "ln-file"))
	os.Symlink(filepath.Join(root, "dir"), filepath.Join(root, "ln-dir"))
	os.Symlink(filepath.Join(root, "nowhere"), filepath.Join(root, "ln-dangling"))
	m := map[string]byte{}
	add := func(rel string, k byte) {
		p := filepath.Join(root, rel)
		if strings.HasSuffix(rel, "/") {
			p += "/"
		}
		m[p] = k
		fxOrder = append(fxOrder, p)
	}
	add("file", 'f')
	add("dir", 'd')
	add("missing", 'x')
	add("ln-file", 'f')
	add("ln-dir", 'd')
	add("ln-dangling", 'x')
	add("file/", 'x')
	add("dir/", 'd')
	add("dir/inner.txt", 'f')
	add("dir/none", 'x')
	return m
}

func run(c *runner.Ctx) {
	defer localZones(c)
	for _, sp := range specs(c) {
		c.Space(sp.space)
		sp := sp
		sp.gen(func(v reflect.Value) {
			if !c.Take() {
				return
			}
			if v.Kind() == reflect.String && v.String() == "" {
				return
			}
			want, specified := sp.rec(v)
			if !specified {
				c.Count("unspecified_skipped", 1)
				return
			}
			cars := []carrier.Kind{carrier.Var, carrier.StructTag}
			if !carrier.TagOK(sp.rule) {
				cars[1] = carrier.StructRM
			} else if c.Index()%4 == 0 {
				// (a quarter of the values also right after a call that shadowed the built-in names for itself)
				cars = append(cars, carrier.StructTagLocalFn, carrier.VarLocalFn, carrier.MapLocalFn, carrier.StructAfterAbandoned, carrier.VarAfterRefused)
				if v.Kind() == reflect.String && !strings.ContainsAny(v.String(), "&=?#") {
					cars = append(cars, carrier.UrlLocalFn)
				}
			} else if c.Index()%4 == 1 {
				// (another quarter right after a call that replaced the field's rule for itself)
				cars = append(cars, carrier.StructTagHist)
			} else if c.Index()%4 == 2 {
				// (another quarter through every public spelling of the struct and Var entry points)
				cars = append(cars, carrier.StructWrappers, carrier.VarWrappers)
			}
			if v.Kind() == reflect.Bool {
				cars = cars[1:] // Var(bool) is a separate question (C03)
			}
			for _, car := range cars {
				if !carrier.Supports(car, v) {
					continue
				}
				var errStr string
				var isNil bool
				pan, msg, site := runner.Guard(func() { errStr, isNil = carrier.Validate(car, v, sp.rule) })
				c.Done(want || strings.Contains(sp.space, "edits"), 1)
				det := func() map[string]interface{} {
					return map[string]interface{}{"rule": sp.rule, "value": fmt.Sprintf("%q", fmt.Sprint(v.Interface())), "type": v.Type().String(), "carrier": car, "member": want, "error": errStr}
				}
				if pan {
					d := det()
					d["panic"] = msg
					c.Violation("panic@"+site, d)
					continue
				}
				accepted := isNil
				if accepted == want {
					if want {
						c.Outcome("accept")
					} else {
						c.Outcome("reject")
					}
					continue
				}
				rname := sp.rule
				if k := strings.IndexAny(rname, "=|"); k > 0 {
					rname = rname[:k]
				}
				dir := "accepts-non-member"
				if want {
					dir = "rejects-member"
				}
				sig := rname + "/" + v.Kind().String() + "/" + dir
				if sp.classify != nil {
					if cl := sp.classify(v, !want); cl != "" {
						sig = rname + "/" + cl
					}
				}
				c.Outcome(dir)
				c.Violation(sig, det())
			}
			c.Sample(func() interface{} {
				return map[string]interface{}{"rule": sp.rule, "value": fmt.Sprint(v.Interface()), "member": want}
			})
		})
	}
}

func main() {
	runner.Main(runner.Config{
		Property:  "C05",
		Technique: "bounded-exhaustive enumeration: all strings up to a length over rule-specific alphabets + complete one-edit neighbourhoods of valid members, vs independent recognisers",
		Rule: "(round 13: the date rules under 7 local time zones, among them zones with a skipped day, a missing hour and a missing midnight: every calendar day of 2011, 2018, 2023 and every quarter hour of 9 gap days is a member; values also right after map / URL / struct calls with local functions and after abandoned calls) per rule: (a) every string of length<=n over a small rule-specific alphabet, (b) every single substitution/insertion/deletion over a 40-symbol alphabet applied to valid seed members, " +
			"(c) numeric and slice inputs for in/int/ints/float/unique; 343 date separator triples; carriers Var + struct field (a quarter of the values also right after a call that shadowed every built-in name for itself, another quarter right after a call that replaced the field's rule for itself); prefix / suffix options that hold slashes or start / end with a blank; evaluation = one (value, carrier) call; " +
			"inputs the documentation does not decide (signed numbers, leading-zero octets, IPv4-mapped IPv6 text, invalid UTF-8 for json) are skipped and counted",
		Assumptions: []string{"recognisers in internal/lang are the documented languages", "Go regexp engine trusted for the re rule (pattern extraction is under test)"},
		Run:         run,
	})
}
