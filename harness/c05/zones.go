package main

import (
	"fmt"
	"time"

	"gitee.com/xuesongtao/protoc-go-valid/valid"
	"verif/internal/runner"
)

// localZones (round 13): the date rules accept a *documented shape* - a calendar date and a clock time - whatever the
// process's local time zone is. Under zones whose wall clock has gaps (a day that was skipped, an hour that does not
// exist, a midnight that does not exist) every calendar day of three years and every quarter hour of the gap days is
// still a date / a datetime; impossible dates are still refused. time.Local is the environment answer owned here.
func localZones(c *runner.Ctx) {
	saved := time.Local
	defer func() { time.Local = saved }()
	zones := []string{"UTC", "America/New_York", "America/Sao_Paulo", "Pacific/Apia", "Europe/Berlin", "Asia/Shanghai", "Australia/Lord_Howe"}
	for _, zn := range zones {
		c.Space("date-rules/local-time-zone=" + zn)
		loc, err := time.LoadLocation(zn)
		if err != nil {
			c.Note("time zone " + zn + " not available in this sandbox: " + err.Error())
			continue
		}
		time.Local = loc
		check := func(rule, val string, member bool) {
			var e error
			pan, msg, site := runner.Guard(func() { e = valid.Var(val, rule) })
			c.AddTransitions(1)
			det := map[string]interface{}{"rule": rule, "value": val, "local_time_zone": zn, "member": member, "error": fmt.Sprint(e)}
			switch {
			case pan:
				det["panic"] = msg
				c.Violation("panic@"+site, det)
			case member && e != nil:
				c.Violation(ruleName(rule)+"/string/rejects-member/local-time-zone", det)
			case !member && e == nil:
				c.Violation(ruleName(rule)+"/string/accepts-non-member/local-time-zone", det)
			}
		}
		for _, year := range []int{2011, 2018, 2023} {
			if !c.Take() {
				continue
			}
			for d := time.Date(year, 1, 1, 0, 0, 0, 0, time.UTC); d.Year() == year; d = d.AddDate(0, 0, 1) {
				day := d.Format("2006-01-02")
				check("date", day, true)
				check("date='/'", d.Format("2006/01/02"), true)
				check("datetime", day+" 00:00:00", true)
				check("datetime", day+" 02:30:00", true)
				check("datetime", day+" 23:59:59", true)
				check("datetime", day+" 24:00:00", false)
				if d.Day() == 1 {
					check("year2month", d.Format("2006-01"), true)
					check("year", d.Format("2006"), true)
				}
			}
			check("date", fmt.Sprintf("%d-02-30", year), false)
			check("date", fmt.Sprintf("%d-13-01", year), false)
			c.Done(true, 0)
		}
		// every quarter hour of the days around the known gaps
		for _, day := range []string{"2023-03-12", "2023-11-05", "2018-11-04", "2018-02-18", "2011-12-30", "2011-12-29", "2023-03-26", "2023-10-01", "2023-04-02"} {
			if !c.Take() {
				continue
			}
			for h := 0; h < 24; h++ {
				for _, m := range []int{0, 15, 30, 45} {
					check("datetime", fmt.Sprintf("%s %02d:%02d:00", day, h, m), true)
				}
			}
			c.Done(true, 0)
		}
	}
}

func ruleName(rule string) string {
	for i := 0; i < len(rule); i++ {
		if rule[i] == '=' {
			return rule[:i]
		}
	}
	return rule
}
