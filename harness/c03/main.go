// C03 — required means present and non-empty; all other rules skip empty values.
// E-enum: complete product of field types x emptiness x rule (alone / with required before / after) x entry points.
package main

import (
	"fmt"
	"reflect"
	"strings"
	"time"

	"gitee.com/xuesongtao/protoc-go-valid/valid"
	"verif/internal/carrier"
	"verif/internal/errparse"
	"verif/internal/runner"
)

type Inner struct {
	A int
	B string
}

// Wide3: long collections of scalars under required / exist in front of a nested object whose required member is empty.
type Wide3 struct {
	IDs   []int64           `valid:"required"`
	Names []string          `valid:"exist"`
	M     map[string]string `valid:"required"`
	In    Inner3            `valid:"required"`
	Ptrs  []*Inner3         `valid:"exist"`
}

type Inner3 struct {
	V string `valid:"required"`
	K int
}

// zeroElements: elements of a top-level slice / array / map that have no field set are objects like any other: their
// empty required fields are reported.
func zeroElements(c *runner.Ctx) {
	c.Space("all-zero-elements-of-top-level-collections")
	req := func(path string) string { return `"` + path + `" input "", explain: it is required` }
	cases := []struct {
		name string
		src  interface{}
		want []string
	}{
		{"[]Inner3{{}, {V:x}}", []Inner3{{}, {V: "x"}}, []string{req("Inner3[0].V")}},
		{"[]Inner3{{V:x}, {}, {}}", []Inner3{{V: "x"}, {}, {}}, []string{req("Inner3[1].V"), req("Inner3[2].V")}},
		{"[2]Inner3{}", [2]Inner3{}, []string{req("Inner3[0].V"), req("Inner3[1].V")}},
		{"map[string]Inner3{k:{}}", map[string]Inner3{"k": {}}, []string{req("Inner3[k].V")}},
		{"[]*Inner3{&{}, nil, &{K:1}}", []*Inner3{{}, nil, {K: 1}}, []string{req("Inner3[0].V"), req("Inner3[2].V")}},
		{"map[int]*Inner3{7:&{}}", map[int]*Inner3{7: {}}, []string{req("Inner3[7].V")}},
	}
	for _, cs := range cases {
		if !c.Take() {
			continue
		}
		var err error
		pan, msg, site := runner.Guard(func() { err = valid.Struct(cs.src) })
		c.Done(true, 1)
		got := ""
		if err != nil {
			got = err.Error()
		}
		// path prefixes differ by collection kind; compare the clause count and the field part
		det := map[string]interface{}{"input": cs.name, "expected_clauses": len(cs.want), "actual": got}
		if pan {
			det["panic"] = msg
			c.Violation("panic@"+site, det)
			continue
		}
		n := 0
		if got != "" {
			n = len(errparse.Split(got))
		}
		if n != len(cs.want) || strings.Count(got, ".V\" input \"\", explain: it is required") != len(cs.want) {
			c.Violation("zero-elements/required-not-reported", det)
		} else {
			c.Outcome("zero-elements-ok")
		}
	}
}

func longCollections(c *runner.Ctx) {
	c.Space("required-next-to-long-collections")
	for _, n := range []int{1, 50, 63, 64, 98, 99, 100, 127, 128, 129, 255, 256, 1000} {
		for shape := 0; shape < 3; shape++ {
			if !c.Take() {
				continue
			}
			w := &Wide3{In: Inner3{K: 1}, M: map[string]string{}}
			want := []string{`"Wide3.In.V" input "", explain: it is required`}
			switch shape {
			case 0:
				w.IDs = make([]int64, n)
				w.Names = []string{"a"}
				w.M["k"] = "v"
			case 1:
				w.IDs = []int64{1}
				w.Names = make([]string, n)
				for i := 0; i < n && i < 300; i++ {
					w.M[fmt.Sprint("k", i)] = "v"
				}
			case 2:
				// many nil pointers in front of one element that violates
				w.IDs = []int64{1}
				w.M["k"] = "v"
				w.Ptrs = make([]*Inner3, n+1)
				w.Ptrs[n] = &Inner3{K: 2}
				want = append(want, fmt.Sprintf(`"Wide3.Ptrs[%d].V" input "", explain: it is required`, n))
			}
			var err error
			pan, msg, site := runner.Guard(func() { err = valid.Struct(w) })
			c.Done(true, 1)
			got := ""
			if err != nil {
				got = err.Error()
			}
			det := map[string]interface{}{"elements": n, "shape": []string{"long []int64", "long []string and map", "nil pointers before a violating element"}[shape], "expected": strings.Join(want, "; "), "actual": got}
			if pan {
				det["panic"] = msg
				c.Violation("panic@"+site, det)
			} else if got != strings.Join(want, "; ") {
				c.Violation("long-collections/required-member-of-the-nested-object", det)
			} else {
				c.Outcome("long-collections-ok")
			}
		}
	}
}

type tval struct {
	name     string
	v        reflect.Value
	empty    bool // empty per the statement (zero value, or empty slice/array/map)
	trueZero bool // the Go zero value of its type (the only values on which "other rules skip" is asserted)
	varOK    bool // supported by Var per the documentation: [int,float,bool,string] and slices/arrays of them
}

func rv(x interface{}) reflect.Value { return reflect.ValueOf(x) }

func values() []tval {
	var out []tval
	add := func(name string, x interface{}, empty, trueZero, varOK bool) {
		out = append(out, tval{name, rv(x), empty, trueZero, varOK})
	}
	add("string/zero", "", true, true, true)
	add("string/x", "x", false, false, true)
	add("string/space", " ", false, false, true)
	add("bool/false", false, true, true, true)
	add("bool/true", true, false, false, true)
	add("int/0", int(0), true, true, true)
	add("int/1", int(1), false, false, true)
	add("int/-1", int(-1), false, false, true)
	add("int8/0", int8(0), true, true, true)
	add("int8/5", int8(5), false, false, true)
	add("int16/0", int16(0), true, true, true)
	add("int16/5", int16(5), false, false, true)
	add("int32/0", int32(0), true, true, true)
	add("int32/5", int32(5), false, false, true)
	add("int64/0", int64(0), true, true, true)
	add("int64/5", int64(5), false, false, true)
	add("uint/0", uint(0), true, true, true)
	add("uint/5", uint(5), false, false, true)
	add("uint8/0", uint8(0), true, true, true)
	add("uint8/5", uint8(5), false, false, true)
	add("uint16/0", uint16(0), true, true, true)
	add("uint16/5", uint16(5), false, false, true)
	add("uint32/0", uint32(0), true, true, true)
	add("uint32/5", uint32(5), false, false, true)
	add("uint64/0", uint64(0), true, true, true)
	add("uint64/5", uint64(5), false, false, true)
	add("float32/0", float32(0), true, true, true)
	add("float32/0.5", float32(0.5), false, false, true)
	add("float64/0", float64(0), true, true, true)
	add("float64/-0.5", float64(-0.5), false, false, true)
	add("[]int/nil", []int(nil), true, true, true)
	add("[]int/empty", []int{}, true, false, true)
	add("[]int/[0]", []int{0}, false, false, true)
	add("[]int/[1 2]", []int{1, 2}, false, false, true)
	add("[]string/nil", []string(nil), true, true, true)
	add("[]string/empty", []string{}, true, false, true)
	add("[]string/[a]", []string{"a"}, false, false, true)
	add("[2]int/zero", [2]int{}, true, true, true)
	add("[2]int/[0 1]", [2]int{0, 1}, false, false, true)
	add("[0]int", [0]int{}, true, true, true)
	add("map/nil", map[string]int(nil), true, true, false)
	add("map/empty", map[string]int{}, true, false, false)
	add("map/{a:0}", map[string]int{"a": 0}, false, false, false)
	add("struct/zero", Inner{}, true, true, false)
	add("struct/{1 x}", Inner{1, "x"}, false, false, false)
	add("*struct/nil", (*Inner)(nil), true, true, false)
	add("*struct/->zero", &Inner{}, false, false, false)
	add("*struct/->{1 x}", &Inner{1, "x"}, false, false, false)
	pi := &Inner{2, "y"}
	add("**struct/->->{2 y}", &pi, false, false, false)
	var nilpi *Inner
	add("**struct/->nil", &nilpi, false, false, false)
	add("**struct/nil", (**Inner)(nil), true, true, false)
	zero, one := 0, 1
	es, xs := "", "x"
	add("*int/nil", (*int)(nil), true, true, false)
	add("*int/->0", &zero, false, false, false)
	add("*int/->1", &one, false, false, false)
	add("*string/nil", (*string)(nil), true, true, false)
	add("*string/->empty", &es, false, false, false)
	add("*string/->x", &xs, false, false, false)
	// pointers to time.Time (timestamps of generated messages)
	now := time.Date(2024, 2, 29, 12, 0, 0, 0, time.UTC)
	var zt time.Time
	add("*time.Time/nil", (*time.Time)(nil), true, true, false)
	add("*time.Time/->zero", &zt, false, false, false)
	add("*time.Time/->now", &now, false, false, false)
	// (fields of type time.Time itself are left out by the library on purpose - validstruct.go drops them from the
	// field table - so they are not a "supported field type" in the sense of the property)
	return out
}

var otherRules = []string{"to=1~3", "ge=1", "le=3", "oto=1~3", "gt=1", "lt=3", "eq=2", "noeq=2", "in=(a/b)", "include=(a)", "phone", "email", "idcard",
	"year", "year2month", "date", "datetime", "int", "ints", "float", "re='^a$'", "ip", "ipv4", "ipv6", "unique", "json", "prefix=a", "suffix=a", "file", "dir", "exist"}

const reqText = "it is required"

type obs struct {
	pan    bool
	msg    string
	site   string
	nilRes bool
	err    string
	cls    []errparse.Clause
}

func observe(f func() error) obs {
	var o obs
	var err error
	o.pan, o.msg, o.site = runner.Guard(func() { err = f() })
	if o.pan {
		return o
	}
	if err == nil {
		o.nilRes = true
		return o
	}
	o.err = err.Error()
	o.cls = errparse.Parse(o.err)
	return o
}

func countReq(o obs) int {
	n := 0
	for _, c := range o.cls {
		if c.HasInput && c.Input == "" && (strings.HasPrefix(c.Text, reqText) || c.Text == "必填" || c.Text == "need it") {
			n++
		}
	}
	return n
}

// call presents v through a carrier with the given rule text.
func call(car string, v reflect.Value, rules string) func() error {
	switch car {
	case "struct-tag":
		st := carrier.TagType(v.Type(), rules)
		p := reflect.New(st)
		p.Elem().Field(0).Set(v)
		return func() error { return valid.Struct(p.Interface()) }
	case "struct-rm":
		st := carrier.TagType(v.Type(), "")
		p := reflect.New(st)
		p.Elem().Field(0).Set(v)
		return func() error { return valid.Struct(p.Interface(), valid.RM{"F": rules}) }
	case "struct-tag-after-override":
		// the tagged type again, right after a call that replaced the field's rules for that call only
		st := carrier.TagType(v.Type(), rules)
		p := reflect.New(st)
		p.Elem().Field(0).Set(v)
		return func() error {
			_ = valid.Struct(p.Interface(), valid.RM{"F": "le=-7|zz,in=(zz)|zz"})
			return valid.Struct(p.Interface())
		}
	case "struct-tag-after-rejected-call":
		// the tagged type right after calls that carried rules for a field of the same name but were rejected before
		// validation (nil source, typed nil pointer): nothing of them may survive
		st := carrier.TagType(v.Type(), rules)
		p := reflect.New(st)
		p.Elem().Field(0).Set(v)
		return func() error {
			_ = valid.StructForFn(nil, valid.RM{"F": "required|leak1,le=-7|leak2"})
			_ = valid.StructForFn(reflect.Zero(reflect.PtrTo(st)).Interface(), valid.RM{"F": "required|leak3,in=(zz)|leak4"})
			return valid.Struct(p.Interface())
		}
	case "struct-tag-after-other-tag", "struct-tag-after-call-local-functions", "struct-tag-field-70", "struct-rm-after-plain-call", "map-25-entries", "url-parameter-151-of-200",
		string(carrier.StructWrappers), string(carrier.VarWrappers), string(carrier.MapWrappers), string(carrier.UrlWrappers),
		string(carrier.StructFirstLocalFn), string(carrier.StructFirstOverride), string(carrier.StructFirstOtherTag), string(carrier.StructFirstNested),
		string(carrier.MapRMEdited), string(carrier.UrlRMEdited), string(carrier.StructRMEdited), string(carrier.MapLocalFn), string(carrier.UrlLocalFn), string(carrier.VarLocalFn), string(carrier.StructAfterAbandoned), string(carrier.VarAfterRefused):
		return func() error {
			s, isNil := carrier.Validate(carrier.Kind(car), v, rules)
			if isNil {
				return nil
			}
			return fmt.Errorf("%s", s)
		}
	case "struct-rm-set-per-rule":
		// the same rules accumulated with one RM.Set call per rule
		st := carrier.TagType(v.Type(), "")
		p := reflect.New(st)
		p.Elem().Field(0).Set(v)
		rm := valid.NewRule()
		for _, item := range valid.ValidNamesSplit(rules) {
			rm.Set("F", strings.Clone(item))
		}
		return func() error { return valid.Struct(p.Interface(), rm) }
	case "struct-tagged+rm":
		// the field declares optional rules in its tag; the per-call rule set replaces them for this call
		st := carrier.TagType(v.Type(), "to=2~10,phone")
		p := reflect.New(st)
		p.Elem().Field(0).Set(v)
		return func() error { return valid.Struct(p.Interface(), valid.RM{"F": rules}) }
	case "var":
		x := v.Interface()
		return func() error { return valid.Var(x, rules) }
	case "map":
		m := reflect.MakeMap(reflect.MapOf(reflect.TypeOf(""), v.Type()))
		m.SetMapIndex(rv("k"), v)
		m.SetMapIndex(rv("other"), v)
		return func() error { return valid.Map(m.Interface(), valid.RM{"k": rules}) }
	case "map-iface":
		m := map[string]interface{}{"k": v.Interface(), "other": 1}
		return func() error { return valid.Map(m, valid.RM{"k": rules}) }
	}
	panic(car)
}

func check(c *runner.Ctx, car, vname, rules, form string, v reflect.Value, empty, trueZero bool, f func() error, wantReqOpt ...int) {
	wantReq := 1
	if len(wantReqOpt) > 0 {
		wantReq = wantReqOpt[0]
	}
	o := observe(f)
	c.Done(empty, 1)
	det := func() map[string]interface{} {
		return map[string]interface{}{"carrier": car, "value": vname, "rules": rules, "error": o.err, "nil": o.nilRes, "panic": o.msg}
	}
	kind := strings.SplitN(vname, "/", 2)[0]
	if o.pan {
		c.Violation(fmt.Sprintf("panic@%s/%s/%s", o.site, car, kind), det())
		return
	}
	nreq := countReq(o)
	hasReq := form != "other"
	sigBase := car + "/" + kind + "/" + form
	if car == "map-iface" {
		sigBase = "map[string]interface{}"
	}
	switch {
	case empty && hasReq:
		// exactly one clause: the required one (other rules skip the empty value) — asserted for true zero values;
		// for empty-but-not-zero collections only the presence of the required clause is asserted.
		if nreq != wantReq {
			c.Outcome("missing-required")
			c.Violation(sigBase+"/empty-value-not-reported-as-required", det())
			return
		}
		if trueZero && len(o.cls) != wantReq {
			c.Outcome("extra-clause-on-zero")
			c.Violation(sigBase+"/zero-value-evaluated-by-other-rule", det())
			return
		}
		c.Outcome("required-reported")
	case empty && !hasReq:
		if !trueZero {
			return // unspecified (DESIGN §7)
		}
		if !o.nilRes {
			c.Outcome("clause-on-zero")
			c.Violation(sigBase+"/zero-value-evaluated-by-other-rule", det())
			return
		}
		c.Outcome("zero-skipped")
	case !empty && hasReq:
		if nreq != 0 {
			c.Outcome("spurious-required")
			c.Violation(sigBase+"/non-empty-value-reported-as-required", det())
			return
		}
		if form == "required" && !o.nilRes {
			c.Outcome("spurious-clause")
			c.Violation(sigBase+"/non-empty-value-under-required-produces-a-clause", det())
			return
		}
		c.Outcome("non-empty-ok")
	}
}

// dropCache: a CacheEr that keeps nothing.
type dropCache struct{}

func (dropCache) Load(interface{}) (interface{}, bool) { return nil, false }
func (dropCache) Store(interface{}, interface{})       {}

// swapCache: the library accepts a struct-type cache once per process (SetStructTypeCache is guarded by a sync.Once);
// this delegating cache is installed once and its inner cache exchanged per space.
type swapCache struct{ inner valid.CacheEr }

func (s *swapCache) Load(k interface{}) (interface{}, bool) { return s.inner.Load(k) }
func (s *swapCache) Store(k, v interface{})                 { s.inner.Store(k, v) }

var swap = &swapCache{inner: valid.NewLRU()}

func run(c *runner.Ctx) {
	valid.SetStructTypeCache(swap)
	vals := values()
	type rform struct{ rules, form string }
	var forms []rform
	forms = append(forms, rform{"required", "required"}, rform{"required|必填", "required"}, rform{"required|need it", "required"})
	// rule texts that mention the word "required" somewhere else than as the rule name
	forms = append(forms, rform{"to=2~10|value is required to be short,required", "required-last"}, rform{"in=(required/optional),required", "required-last"},
		rform{"required|need it,eq=2|not required at all", "required-first"})
	for _, r := range otherRules {
		forms = append(forms, rform{r, "other"}, rform{"required," + r, "required-first"}, rform{r + ",required", "required-last"})
	}
	// the whole space once on the default cache, then the struct carriers again on struct-type caches that do not keep
	// what they are given (capacity 0, capacity 1, a caller-supplied cache that drops every entry): legitimate CacheEr
	// behaviour - an entry may be evicted between a Store and the next Load - under which the verdicts are the same
	type cacheCfg struct {
		name string
		mk   func() valid.CacheEr
	}
	for _, cc := range []cacheCfg{{"", nil}, {"LRU(0)", func() valid.CacheEr { return valid.NewLRU(0) }}, {"LRU(1)", func() valid.CacheEr { return valid.NewLRU(1) }}, {"cache-that-drops-everything", func() valid.CacheEr { return dropCache{} }}} {
		if cc.mk == nil {
			c.Space("struct+var+map")
		} else {
			c.Space("struct-carriers/struct-type-cache=" + cc.name)
			swap.inner = cc.mk()
		}
		for _, tv := range vals {
			for _, rf := range forms {
				if !c.Take() {
					continue
				}
				cars := []string{"struct-rm", "struct-tagged+rm", "struct-rm-set-per-rule", "struct-rm-after-plain-call", string(carrier.StructRMEdited)}
				switch tv.v.Kind() { // Map documents scalar values only (int, float, bool, string)
				case reflect.Slice, reflect.Array, reflect.Map, reflect.Struct, reflect.Ptr:
				default:
					cars = append(cars, "map", "map-iface", "map-25-entries", string(carrier.MapWrappers), string(carrier.MapRMEdited), string(carrier.MapLocalFn))
				}
				if carrier.TagOK(rf.rules) {
					cars = append(cars, "struct-tag", "struct-tag-after-override", "struct-tag-after-rejected-call", "struct-tag-after-other-tag", "struct-tag-after-call-local-functions", "struct-tag-field-70", string(carrier.StructWrappers),
						string(carrier.StructFirstLocalFn), string(carrier.StructFirstOverride), string(carrier.StructFirstOtherTag), string(carrier.StructFirstNested), string(carrier.StructAfterAbandoned))
				}
				if tv.varOK {
					cars = append(cars, "var", string(carrier.VarWrappers), string(carrier.VarLocalFn), string(carrier.VarAfterRefused))
				}
				if tv.v.Kind() == reflect.String && tv.v.Type() == reflect.TypeOf("") {
					cars = append(cars, "url-parameter-151-of-200", string(carrier.UrlWrappers), string(carrier.UrlRMEdited), string(carrier.UrlLocalFn))
				}
				for _, car := range cars {
					if strings.Contains(rf.rules, "exist") && !strings.HasPrefix(car, "struct-") {
						continue // exist is documented for structs only
					}
					if cc.mk != nil && !strings.HasPrefix(car, "struct") {
						continue
					}
					if car == "map-iface" && tv.v.Kind() == reflect.Ptr && tv.v.IsNil() {
						continue // a typed nil inside interface{}: not a value shape of this property
					}
					check(c, car, tv.name, rf.rules, rf.form, tv.v, tv.empty, tv.trueZero, call(car, tv.v, rf.rules))
				}
				c.Sample(func() interface{} { return map[string]interface{}{"value": tv.name, "rules": rf.rules} })
			}
		}
	}
	swap.inner = valid.NewLRU()
	longCollections(c)
	zeroElements(c)
	// Var on maps (round 12). Var documents scalars and slices; a map handed to it is either refused as a whole (what the
	// unchanged library does) or, if it is accepted, judged like any other collection: an empty map under required never
	// passes silently, and a non-empty one is never reported as missing. Both readings are accepted, nothing else.
	c.Space("var-on-maps")
	{
		type NamedMap map[string]int
		emptied := map[string]int{"a": 1}
		delete(emptied, "a")
		em := map[string]int{}
		type mv struct {
			name  string
			v     interface{}
			empty bool
		}
		maps := []mv{
			{"map[string]int(nil)", map[string]int(nil), true}, {"map[string]int{}", map[string]int{}, true}, {"make(map[string]string, 8)", make(map[string]string, 8), true},
			{"map emptied by delete", emptied, true}, {"NamedMap{}", NamedMap{}, true}, {"&map[string]int{}", &em, true}, {"map[int]bool{}", map[int]bool{}, true},
			{"map[string]interface{}{}", map[string]interface{}{}, true}, {"map[string][]int{}", map[string][]int{}, true},
			{"map[string]int{a:1}", map[string]int{"a": 1}, false}, {"NamedMap{a:0}", NamedMap{"a": 0}, false}, {"map[string]string{\"\":\"\"}", map[string]string{"": ""}, false},
		}
		for _, m := range maps {
			for _, rf := range forms {
				if rf.form == "other" || strings.Contains(rf.rules, "exist") {
					continue
				}
				if !c.Take() {
					continue
				}
				for _, spelling := range []string{"Var", "NewVVar+SetValidFn", "NewVVar"} {
					x, rules := m.v, rf.rules
					var f func() error
					switch spelling {
					case "Var":
						f = func() error { return valid.Var(x, rules) }
					case "NewVVar+SetValidFn":
						f = func() error {
							return valid.NewVVar().SetValidFn("unused", func(*strings.Builder, string, string, string, reflect.Value) {}).SetRules(rules).Valid(x)
						}
					default:
						f = func() error { return valid.NewVVar().SetRules(rules).Valid(x) }
					}
					o := observe(f)
					c.Done(m.empty, 1)
					det := map[string]interface{}{"carrier": spelling, "value": m.name, "rules": rules, "error": o.err, "nil": o.nilRes, "panic": o.msg}
					switch {
					case o.pan:
						c.Violation(fmt.Sprintf("panic@%s/var-on-map", o.site), det)
					case m.empty && o.nilRes:
						c.Outcome("empty-map-passes-required")
						c.Violation("var/map/"+rf.form+"/empty-map-under-required-returns-nil", det)
					case !m.empty && countReq(o) != 0:
						c.Outcome("spurious-required")
						c.Violation("var/map/"+rf.form+"/non-empty-value-reported-as-required", det)
					default:
						c.Outcome("map-refused-or-judged")
					}
				}
			}
		}
	}
	// missing entries: map without the key, URL without the parameter
	c.Space("missing-and-url")
	for _, rf := range forms {
		if strings.Contains(rf.rules, "exist") {
			continue
		}
		if !c.Take() {
			continue
		}
		rm := valid.RM{"k": rf.rules}
		type mc struct {
			name  string
			f     func() error
			empty bool
			n     int // number of required clauses expected (0 = 1): one per map of a slice that lacks / empties the key
		}
		cases := []mc{
			{"map-missing-key", func() error { return valid.Map(map[string]string{"other": "x"}, rm) }, true, 0},
			{"map-missing-key-int", func() error { return valid.Map(map[string]int{"other": 1}, rm) }, true, 0},
			{"slicemap-missing-key", func() error { return valid.Map([]map[string]string{{"other": "x"}}, rm) }, true, 0},
			{"slicemap-empty-then-missing-key", func() error { return valid.Map([]map[string]string{{"k": ""}, {"other": "x"}}, rm) }, true, 2},
			{"slicemap-missing-then-empty-key", func() error { return valid.Map([]map[string]string{{"other": "x"}, {"k": ""}}, rm) }, true, 2},
			{"slicemap-empty-missing-missing", func() error { return valid.Map([]map[string]int{{"k": 0}, {}, {"z": 1}}, rm) }, true, 3},
			{"map-nil-interface-value", func() error { return valid.Map(map[string]interface{}{"k": nil, "other": 1}, rm) }, true, 0},
			{"map-nil-pointer-value", func() error { var p *int; return valid.Map(map[string]*int{"k": p}, rm) }, true, 0},
			{"map-nil-pointer-to-string-value", func() error { return valid.Map(map[string]*string{"k": nil, "z": nil}, rm) }, true, 0},
			{"slicemap-nil-interface-value", func() error { return valid.Map([]map[string]interface{}{{"k": nil}}, rm) }, true, 0},
			{"url-missing-param", func() error { return valid.Url("http://h/p?other=x", rm) }, true, 0},
			{"url-missing-param-first", func() error { return valid.Url("http://h/p?other=x&z=1", rm) }, true, 0},
			{"url-no-query", func() error { return valid.Url("http://h/p", rm) }, true, 0},
			{"url-empty-query", func() error { return valid.Url("http://h/p?", rm) }, true, 0},
			{"url-present-empty", func() error { return valid.Url("http://h/p?k=", rm) }, true, 0},
			{"url-present-empty-mid", func() error { return valid.Url("http://h/p?a=1&k=&b=2", rm) }, true, 0},
			{"url-bare-key", func() error { return valid.Url("http://h/p?k", rm) }, true, 0},
			{"url-bare-key-after-value", func() error { return valid.Url("http://h/p?other=tom&k", rm) }, true, 0},
			{"url-bare-key-before-value", func() error { return valid.Url("http://h/p?k&other=tom", rm) }, true, 0},
			{"url-present", func() error { return valid.Url("http://h/p?k=x", rm) }, false, 0},
			{"url-present-last", func() error { return valid.Url("http://h/p?other=&k=x", rm) }, false, 0},
			{"url-present-percent", func() error { return valid.Url("http://h/p?k=100%25&z=1", rm) }, false, 0},
			{"url-present-percent-escaped-whole", func() error { return valid.Url("http%3A%2F%2Fh%2Fp%3Fk%3D100%2525", rm) }, false, 0},
			{"url-present-semicolon", func() error { return valid.Url("http://h/p?a=1&k=a;b", rm) }, false, 0},
			{"url-present-semicolon-escaped", func() error { return valid.Url("http://h/p?k=a%3Bb", rm) }, false, 0},
			{"url-present-plus", func() error { return valid.Url("http://h/p?k=a+b", rm) }, false, 0},
			{"url-present-slash-colon", func() error { return valid.Url("http://h/p?k=http://x/y:z", rm) }, false, 0},
			{"url-present-after-bare", func() error { return valid.Url("http://h/p?other&k=x", rm) }, false, 0},
		}
		for _, m := range cases {
			n := m.n
			if n == 0 {
				n = 1
			}
			check(c, strings.SplitN(m.name, "-", 2)[0]+"-entry", m.name, rf.rules, rf.form, reflect.Value{}, m.empty, true, m.f, n)
		}
	}
}

func main() {
	runner.Main(runner.Config{
		Property:  "C03",
		Technique: "complete product of supported field types x emptiness x rule forms x entry points on the real code vs emptiness model",
		Rule: "(round 12: the struct carriers again on struct-type caches that keep nothing - LRU(0), LRU(1), a caller-supplied cache that drops every entry; Var / NewVVar on 12 maps - nil, empty, emptied, named, pointer, non-empty - under every rule list with required: refused as a whole or judged as a collection, never passed silently) every value of a 58-entry catalogue (strings, bool, all numeric kinds, slices nil/empty/non-empty, arrays, maps, structs, pointers to structs and scalars, multi-level pointers) x " +
			"{required alone (3 message forms), each of 31 other rules alone, required before it, required after it} x carriers {struct tag, struct per-call rule on an untagged field, per-call rule replacing optional tag rules, the tagged type right after a call that overrode its rules / right after rejected calls that carried rules, rules accumulated with one RM.Set call per rule, Var, map[string]T, map[string]interface{}} " +
			"plus map/URL inputs with missing, bare and empty entries (incl. slices of maps whose elements lack / empty the key in every order); evaluation = one call; non-trivial = calls on an empty value",
		Assumptions: []string{"empty-but-non-nil slices/maps are checked for required only (DESIGN §7)", "non-nil pointers to zero scalars are non-empty (the pointer is supplied)"},
		Run:         run,
	})
}
