// C16 — programmatic rules and functions override declared ones, with documented scope.
// E-enum over configurations: 9 (Outer, Inner) type pairs sharing the field name `Name` x tag rules x per-type and
// unscoped rule sets (absent / empty / partially overlapping, registered in every order) x values x entry points x
// per-call / global / built-in function definitions (one worker set per global registration set).
package main

import (
	"fmt"
	"os"
	"reflect"
	"sort"
	"strings"

	"gitee.com/xuesongtao/protoc-go-valid/valid"
	"verif/internal/errparse"
	"verif/internal/runner"
	"verif/internal/walk"
)

func mkFn(text string) valid.CommonValidFn {
	return func(errBuf *strings.Builder, validName, objName, fieldName string, tv reflect.Value) {
		errBuf.WriteString(valid.GetJoinValidErrStr(objName, fieldName, tv.String(), valid.ExplainEn, text))
	}
}

func mkModelFn(text string) walk.Fn {
	return func(rule, obj, field string, v reflect.Value) string {
		return walk.ValueClause(obj, field, v.String(), text)
	}
}

type rset struct {
	name string
	rm   map[string]string // nil = absent
}

var outerSets = []rset{{"absent", nil}, {"empty", map[string]string{}}, {"{Name}", map[string]string{"Name": "eq=4|o-name"}}, {"{Name,In}", map[string]string{"Name": "eq=4|外层名", "In": "required|o-in"}}}
var innerSets = []rset{{"absent", nil}, {"empty", map[string]string{}}, {"{Name}", map[string]string{"Name": "eq=4|i-name"}}, {"{Code}", map[string]string{"Code": "required|i-code"}}}
var unscopedSets = []rset{{"absent", nil}, {"empty", map[string]string{}}, {"{Name}", map[string]string{"Name": "eq=5|u-name"}}, {"{Name,L}", map[string]string{"Name": "eq=5|u-name", "L": "exist"}}}

func toRM(m map[string]string) valid.RM {
	if m == nil {
		return nil
	}
	r := valid.RM{}
	for k, v := range m {
		r[k] = v
	}
	return r
}

type valSpec struct {
	desc string
	set  func(outer reflect.Value, innerT reflect.Type)
}

func innerVal(t reflect.Type, name, code, tel string) reflect.Value {
	v := reflect.New(t).Elem()
	v.FieldByName("Name").SetString(name)
	v.FieldByName("Code").SetString(code)
	v.FieldByName("Tel").SetString(tel)
	return v
}

func valueMenu() []valSpec {
	var out []valSpec
	names := []string{"", "abc", "a", "abcd"}
	for _, on := range names {
		for _, in := range names[:3] {
			for li := 0; li < 3; li++ {
				for pi := 0; pi < 2; pi++ {
					on, in, li, pi := on, in, li, pi
					out = append(out, valSpec{
						desc: fmt.Sprintf("Outer.Name=%q In.Name=%q len(L)=%d P=%v", on, in, li, pi == 1),
						set: func(o reflect.Value, it reflect.Type) {
							o.FieldByName("Name").SetString(on)
							code := ""
							if li == 2 {
								code = "toolong"
							}
							o.FieldByName("In").Set(innerVal(it, in, code, ""))
							l := reflect.MakeSlice(reflect.SliceOf(it), li, li)
							for i := 0; i < li; i++ {
								l.Index(i).Set(innerVal(it, names[(i+1)%3], "", "1"))
							}
							o.FieldByName("L").Set(l)
							if pi == 1 {
								p := reflect.New(it)
								p.Elem().Set(innerVal(it, in, "c", "13800138000"))
								o.FieldByName("P").Set(p)
							}
							o.FieldByName("Tel").SetString([]string{"", "12", "13800138000"}[(li+pi)%3])
							o.FieldByName("X").SetString([]string{"", "x", "xyz"}[(li+len(on))%3])
						},
					})
				}
			}
		}
	}
	return out
}

func run(c *runner.Ctx) {
	// global registration set of this worker process (there is no unregister)
	globalModel := map[string]walk.Fn{}
	if strings.Contains(c.Mode, "L") {
		// late registration: every type of this harness is validated once (so whatever the library keeps per type exists)
		// before the global functions are registered; resolution must still follow the table as it is at call time
		for _, tp := range typePairs {
			o := reflect.New(tp.outer)
			valueMenu()[len(valueMenu())-1].set(o.Elem(), tp.inner)
			_ = valid.Struct(o.Interface())
			_ = valid.ValidateStruct(reflect.New(tp.inner).Interface(), "valid")
		}
		_ = valid.Struct(&Node{Name: "abcdefghijklm", Next: &Node{}})
	}
	if strings.Contains(c.Mode, "p") {
		valid.SetCustomerValidFn("phone", mkFn("global-phone"))
		globalModel["phone"] = mkModelFn("global-phone")
	}
	if strings.Contains(c.Mode, "z") {
		valid.SetCustomerValidFn("zz", mkFn("global-zz"))
		globalModel["zz"] = mkModelFn("global-zz")
	}
	recursiveSpace(c, globalModel)
	wideStructs(c)
	repeatedSetRule(c)
	untaggedNested(c)
	nestedRuleReplaced(c)
	embeddedAndUnknown(c)
	lateNames(c)
	unscopedOverCollections(c)
	samePrintingTypes(c)
	vals := valueMenu()
	// (a function given for the call under the name of a structural rule - required, exist - is resolved like any other)
	callSubsets := [][]string{{}, {"phone"}, {"zz"}, {"phone", "zz"}, {"required"}, {"exist", "zz"}}
	for _, tp := range typePairs {
		c.Space(c.Mode + ":" + tp.name)
		for _, os := range outerSets {
			for _, is := range innerSets {
				for _, us := range unscopedSets {
					if len(os.rm) > 0 && len(us.rm) > 0 {
						continue // precedence between a typed set for the outermost type and an unscoped set is not specified
					}
					for vi, vs := range vals {
						if !c.Take() {
							continue
						}
						o := reflect.New(tp.outer)
						vs.set(o.Elem(), tp.inner)
						for ci, cs := range callSubsets {
							if vi+ci < 0 {
								continue
							}
							callFns := valid.Name2FnMap{}
							callModel := map[string]walk.Fn{}
							for _, n := range cs {
								callFns[n] = mkFn("call-" + n)
								callModel[n] = mkModelFn("call-" + n)
							}
							opts := walk.Opts{Typed: map[reflect.Type]map[string]string{}, CallFns: callModel, GlobalFns: globalModel}
							if os.rm != nil {
								opts.Typed[tp.outer] = os.rm
							}
							if is.rm != nil {
								opts.Typed[tp.inner] = is.rm
							}
							if us.rm != nil {
								opts.Unscoped = us.rm
							}
							exp := walk.Struct(o.Interface(), opts)
							// entry points / registration orders
							type ep struct {
								name string
								f    func() error
							}
							var eps []ep
							mkVS := func(order int) *valid.VStruct {
								vsx := valid.NewVStruct()
								regs := []func(){
									func() {
										if os.rm != nil {
											if order == 1 {
												// the type named by a typed nil pointer
												vsx.SetRule(toRM(os.rm), reflect.Zero(reflect.PtrTo(tp.outer)).Interface())
											} else {
												vsx.SetRule(toRM(os.rm), reflect.New(tp.outer).Interface())
											}
										}
									},
									func() {
										if is.rm != nil {
											switch order {
											case 1:
												vsx.SetRule(toRM(is.rm), reflect.Zero(reflect.PtrTo(tp.inner)).Interface())
											case 2:
												// a pointer to a nil pointer
												vsx.SetRule(toRM(is.rm), reflect.New(reflect.PtrTo(tp.inner)).Interface())
											default:
												vsx.SetRule(toRM(is.rm), reflect.New(tp.inner).Elem().Interface())
											}
										}
									},
									func() {
										if us.rm != nil {
											vsx.SetRule(toRM(us.rm))
										}
									},
								}
								perm := [][]int{{0, 1, 2}, {2, 1, 0}, {1, 2, 0}}[order]
								for _, i := range perm {
									regs[i]()
								}
								for n, f := range callFns {
									vsx.SetValidFn(n, f)
								}
								return vsx
							}
							for ord := 0; ord < 3; ord++ {
								ord := ord
								eps = append(eps, ep{fmt.Sprintf("VStruct.SetRule(order %d)", ord), func() error { return mkVS(ord).Valid(o.Interface()) }})
							}
							if os.rm == nil && is.rm == nil && us.rm != nil {
								if len(cs) == 0 {
									eps = append(eps, ep{"Struct(v,rm)", func() error { return valid.Struct(o.Interface(), toRM(us.rm)) }})
									eps = append(eps, ep{"StructForFn", func() error { return valid.StructForFn(o.Elem().Interface(), toRM(us.rm)) }})
								}
								eps = append(eps, ep{"StructForFns", func() error { return valid.StructForFns(o.Interface(), toRM(us.rm), callFns) }})
							}
							if us.rm == nil && len(cs) == 0 {
								eps = append(eps, ep{"NestedStructForRule", func() error {
									m := map[interface{}]valid.RM{}
									if os.rm != nil {
										m[reflect.New(tp.outer).Interface()] = toRM(os.rm)
									}
									if is.rm != nil {
										m[reflect.New(tp.inner).Interface()] = toRM(is.rm)
									}
									return valid.NestedStructForRule(o.Interface(), m)
								}})
							}
							for _, e := range eps {
								var err error
								pan, msg, site := runner.Guard(func() {
									// two refused calls first, each carrying rule sets - unscoped, for the outer and for the inner type -
									// that no value satisfies (round 13): a refused call leaves nothing for the call that follows
									refusedRM := valid.RM{"Name": "required|left by a refused call,le=-5|left by a refused call", "Code": "eq=-3|left by a refused call", "Tel": "eq=-3|left by a refused call", "In": "le=-5|left by a refused call"}
									_ = valid.NewVStruct().SetRule(refusedRM).SetRule(refusedRM, reflect.New(tp.outer).Interface()).SetRule(refusedRM, reflect.New(tp.inner).Interface()).Valid(nil)
									_ = valid.NewVStruct().SetRule(refusedRM, reflect.New(tp.inner).Interface()).SetRule(refusedRM).Valid(reflect.Zero(reflect.PtrTo(tp.outer)).Interface())
									err = e.f()
								})
								differ := len(os.rm) > 0 && len(is.rm) > 0
								c.Done(differ, 1)
								actual := ""
								if err != nil {
									actual = err.Error()
								}
								det := func() map[string]interface{} {
									return map[string]interface{}{"types": tp.name, "outer_set": os.name, "inner_set": is.name, "unscoped_set": us.name, "values": vs.desc,
										"call_fns": cs, "global_fns": c.Mode, "entry": e.name, "expected": exp.Error(), "actual": actual}
								}
								if pan {
									d := det()
									d["panic"] = msg
									c.Violation("panic@"+site, d)
									continue
								}
								if actual == exp.Error() {
									c.Outcome(fmt.Sprintf("clauses=%d", len(exp.Fields)))
									continue
								}
								// classify: which scope is wrong
								kind := classify(exp.Fields, errparse.Split(actual))
								c.Outcome("mismatch")
								c.Violation(kind, det())
							}
						}
						c.Sample(func() interface{} {
							return map[string]string{"types": tp.name, "outer_set": os.name, "inner_set": is.name, "unscoped_set": us.name, "values": vs.desc}
						})
					}
				}
			}
		}
	}
	plausibleNames(c)
}

// NS: one string field without tag rules; its rule comes with the call.
type NS struct {
	V string
}

// plausibleNames: functions supplied for the call, then registered globally, under names a user coming from another
// validation library would pick. Such a name is a name like any other: without a function it is unknown, with a
// call-supplied function that function runs, with a global one the global one runs unless the call brings its own.
// Runs last in the process: the global registrations stay.
func plausibleNames(c *runner.Ctx) {
	names := []string{"min", "max", "len", "ne", "oneof", "contains", "mobile", "regexp", "startswith", "endswith", "gte", "lte",
		"length", "size", "between", "notnull", "nonzero", "notempty", "alpha", "alnum", "numeric", "number", "uuid", "url", "uri", "ipaddr",
		"jsonstr", "ascii", "lower", "upper", "enum", "pattern", "range", "eqfield", "default", "omitempty", "dive", "optional", "str", "string", "bool",
		"Required", "PHONE", "In", "to_", "_to", "eq2", "re2", "either2", "botheq_",
		"required_with", "required_if", "requiredx", "exists", "exist_in", "existing", "exist2", "eitherx", "botheqs"}
	type ep struct {
		name string
		run  func(rule, fnName string, fn valid.CommonValidFn) error
	}
	eps := []ep{
		{"StructForFns", func(rule, fnName string, fn valid.CommonValidFn) error {
			m := valid.Name2FnMap{}
			if fn != nil {
				m[fnName] = fn
			}
			return valid.StructForFns(&NS{V: "abc"}, valid.RM{"V": rule}, m)
		}},
		{"ValidStructForMyValidFn/NewVStruct.SetValidFn", func(rule, fnName string, fn valid.CommonValidFn) error {
			v := valid.NewVStruct().SetRule(valid.RM{"V": rule})
			if fn != nil {
				v.SetValidFn(fnName, fn)
			}
			return v.Valid(&NS{V: "abc"})
		}},
		{"MapFn", func(rule, fnName string, fn valid.CommonValidFn) error {
			m := valid.Name2FnMap{}
			if fn != nil {
				m[fnName] = fn
			}
			return valid.MapFn(map[string]string{"V": "abc"}, valid.RM{"V": rule}, m)
		}},
		{"NewVUrl.SetValidFn", func(rule, fnName string, fn valid.CommonValidFn) error {
			v := valid.NewVUrl().SetRule(valid.RM{"V": rule})
			if fn != nil {
				v.SetValidFn(fnName, fn)
			}
			return v.Valid("http://h/p?V=abc")
		}},
		{"NewVVar.SetValidFn", func(rule, fnName string, fn valid.CommonValidFn) error {
			v := valid.NewVVar().SetRules(rule)
			if fn != nil {
				v.SetValidFn(fnName, fn)
			}
			return v.Valid("abc")
		}},
	}
	for phase := 0; phase < 2; phase++ {
		if phase == 1 {
			for _, n := range names {
				valid.SetCustomerValidFn(n, mkFn("global-"+n))
			}
		}
		c.Space([]string{"functions-under-plausible-names/none-registered-globally", "functions-under-plausible-names/registered-globally"}[phase])
		for _, n := range names {
			for _, e := range eps {
				for _, form := range []string{"%s", "%s=3", "%s|own-message"} {
					for _, withCall := range []bool{false, true} {
						if !c.Take() {
							continue
						}
						rule := fmt.Sprintf(form, n)
						var fn valid.CommonValidFn
						want := ""
						switch {
						case withCall:
							fn = mkFn("call-" + n)
							want = "call-" + n
						case phase == 1:
							want = "global-" + n
						}
						var err error
						pan, msg, site := runner.Guard(func() { err = e.run(rule, n, fn) })
						c.Done(true, 1)
						got := ""
						if err != nil {
							got = err.Error()
						}
						det := map[string]interface{}{"entry_point": e.name, "rule": rule, "function_given_for_the_call": withCall, "registered_globally": phase == 1, "actual": got}
						if pan {
							det["panic"] = msg
							c.Violation("panic@"+site, det)
							continue
						}
						if want == "" {
							// no definition anywhere: the name is reported as unknown
							if !strings.Contains(got, "valid \""+n+"\" is not exist") {
								c.Violation("plausible-name/unknown-name-not-reported", det)
								continue
							}
						} else if explainParts(got) != want {
							det["expected_explanation"] = want
							c.Violation("plausible-name/wrong-function-ran", det)
							continue
						}
						c.Outcome("ok")
					}
				}
			}
		}
	}
}

// Node is self-referential: nested values have the outermost type, where only a typed set (not the unscoped one) applies.
type Node struct {
	Name     string  `valid:"to=1~10"`
	Next     *Node   `valid:"exist"`
	Children []*Node `valid:"exist"`
}

// twoItemTypes returns two distinct struct types that print alike ("main.Item"): a rule set belongs to a type, not to
// the type's printed name.
func twoItemTypes() (reflect.Type, reflect.Type) {
	type Item struct {
		Name string `valid:"to=1~3|a-name"`
		Code string `valid:"required|a-code"`
	}
	a := reflect.TypeOf(Item{})
	var b reflect.Type
	{
		type Item struct {
			Name string `valid:"to=1~5|b-name"`
			Qty  int    `valid:"ge=1|b-qty"`
		}
		b = reflect.TypeOf(Item{})
	}
	return a, b
}

func samePrintingTypes(c *runner.Ctx) {
	c.Space(c.Mode + ":same-printing-types")
	a, b := twoItemTypes()
	if a == b || a.String() != b.String() {
		fmt.Fprintln(os.Stderr, "HARNESS-ERROR: the two Item types must be distinct and print alike")
		os.Exit(3)
	}
	outer := reflect.StructOf([]reflect.StructField{
		{Name: "A", Type: a, Tag: `valid:"exist"`}, {Name: "B", Type: reflect.PtrTo(b), Tag: `valid:"exist"`},
		{Name: "LA", Type: reflect.SliceOf(a), Tag: `valid:"exist"`}, {Name: "MB", Type: reflect.MapOf(reflect.TypeOf(""), b), Tag: `valid:"exist"`},
	})
	names := []string{"x", "abcd", "abcdefg", "abcdefghi"}
	sets := []struct {
		name   string
		ra, rb map[string]string
	}{{"none", nil, nil}, {"a{Name}", map[string]string{"Name": "eq=9|ta-name"}, nil}, {"b{Name}", nil, map[string]string{"Name": "eq=7|tb-name"}},
		{"a{Name},b{Name}", map[string]string{"Name": "eq=9|ta-name"}, map[string]string{"Name": "eq=7|tb-name"}}, {"a{Code}", map[string]string{"Code": "eq=2|ta-code"}, nil}}
	for _, st := range sets {
		for _, na := range names {
			for _, nb := range names {
				for _, order := range []bool{false, true} {
					if !c.Take() {
						continue
					}
					o := reflect.New(outer).Elem()
					av := reflect.New(a).Elem()
					av.Field(0).SetString(na)
					av.Field(1).SetString("c")
					bv := reflect.New(b)
					bv.Elem().Field(0).SetString(nb)
					bv.Elem().Field(1).SetInt(1)
					o.Field(0).Set(av)
					o.Field(1).Set(bv)
					o.Field(2).Set(reflect.Append(reflect.MakeSlice(reflect.SliceOf(a), 0, 1), av))
					mb := reflect.MakeMap(outer.Field(3).Type)
					mb.SetMapIndex(reflect.ValueOf("k"), bv.Elem())
					o.Field(3).Set(mb)
					opts := walk.Opts{Typed: map[reflect.Type]map[string]string{}}
					vs := valid.NewVStruct()
					reg := func(first bool) {
						if first && st.ra != nil {
							opts.Typed[a] = st.ra
							vs.SetRule(toRM(st.ra), reflect.New(a).Interface())
						}
						if !first && st.rb != nil {
							opts.Typed[b] = st.rb
							vs.SetRule(toRM(st.rb), reflect.New(b).Elem().Interface())
						}
					}
					reg(!order)
					reg(order)
					exp := walk.Struct(o.Addr().Interface(), opts)
					var err error
					pan, msg, site := runner.Guard(func() { err = vs.Valid(o.Addr().Interface()) })
					c.Done(st.ra != nil || st.rb != nil, 1)
					actual := ""
					if err != nil {
						actual = err.Error()
					}
					det := map[string]interface{}{"rule_sets": st.name, "a.Name": na, "b.Name": nb, "b_registered_first": order, "expected": exp.Error(), "actual": actual}
					if pan {
						det["panic"] = msg
						c.Violation("panic@"+site, det)
						continue
					}
					if actual != exp.Error() {
						c.Violation("same-printing-types/rule-set-applied-by-name", det)
					}
				}
			}
		}
	}
}

var lateSeq int

// lateNames: a rule name unknown at the first validation of a type is registered globally afterwards; the next
// validation of the same type resolves it (per-call definitions still win), through tags and through per-call rules.
func lateNames(c *runner.Ctx) {
	c.Space(c.Mode + ":late-registration")
	for _, viaTag := range []bool{true, false} {
		for _, nested := range []bool{false, true} {
			for _, perCallToo := range []bool{false, true} {
				// sharedFns: every call that brings no function for the name hands over the *same* function-table object, which
				// holds one function under an unrelated name (an application-wide table of its own validators): the table is the
				// caller's, and the name is looked up afresh - per call, then globally - on every call (round 12)
				for _, sharedFns := range []bool{false, true} {
					if !c.Take() {
						continue
					}
					shared := valid.Name2FnMap{"unrelated_fn": mkFn("unrelated")}
					lateSeq++
					name := fmt.Sprintf("late%s%d", strings.ToLower(c.Mode), lateSeq*64+c.Worker)
					tag := reflect.StructTag("")
					rm := valid.RM{"F": name + ",le=3"}
					if viaTag {
						tag = reflect.StructTag(`valid:"` + name + `,le=3"`)
						rm = nil
					}
					inner := reflect.StructOf([]reflect.StructField{{Name: "F", Type: reflect.TypeOf(""), Tag: tag}})
					src := reflect.New(inner)
					src.Elem().Field(0).SetString("toolong")
					top := src.Interface()
					path := "F"
					if nested {
						outer := reflect.StructOf([]reflect.StructField{{Name: "In", Type: reflect.PtrTo(inner), Tag: `valid:"exist"`}})
						o := reflect.New(outer)
						o.Elem().Field(0).Set(src)
						top = o.Interface()
						path = ".In.F"
						if !viaTag {
							continue // a per-call rule set addresses the outermost struct only
						}
					}
					call := func(fns valid.Name2FnMap) string {
						var err error
						if fns == nil && sharedFns {
							fns = shared
						}
						if rm != nil {
							err = valid.StructForFns(top, rm, fns)
						} else {
							err = valid.StructForFns(top, nil, fns)
						}
						if err == nil {
							return ""
						}
						return err.Error()
					}
					size := `"` + path + `" input "toolong", explain: it is more than 3 str-length`
					unknown := `"` + path + `" valid "` + name + `" is not exist, You can call SetValidFn`
					if !strings.Contains(path, ".") {
						unknown = `valid "` + name + `" is not exist, You can call SetValidFn`
					}
					steps := []struct{ what, got, want string }{}
					steps = append(steps, struct{ what, got, want string }{"before registration", call(nil), unknown + "; " + size})
					valid.SetCustomerValidFn(name, mkFn("global-"+name))
					steps = append(steps, struct{ what, got, want string }{"after registration", call(nil), `"` + path + `" input "toolong", explain: global-` + name + "; " + size})
					if perCallToo {
						steps = append(steps, struct{ what, got, want string }{"per-call definition wins", call(valid.Name2FnMap{name: mkFn("call-" + name)}), `"` + path + `" input "toolong", explain: call-` + name + "; " + size})
					}
					// the name is registered again with another function: the table as it is at call time decides
					valid.SetCustomerValidFn(name, mkFn("global2-"+name))
					steps = append(steps, struct{ what, got, want string }{"after re-registration", call(nil), `"` + path + `" input "toolong", explain: global2-` + name + "; " + size})
					c.Done(true, len(steps))
					for _, st := range steps {
						if st.got != st.want {
							c.Violation("late-registration/"+strings.ReplaceAll(st.what, " ", "-"), map[string]interface{}{"rule_name": name, "via_tag": viaTag, "nested": nested, "one_function_table_object_for_all_calls": sharedFns, "step": st.what, "expected": st.want, "actual": st.got})
							break
						}
					}
					if len(shared) != 1 || shared["unrelated_fn"] == nil {
						c.Violation("late-registration/callers-function-table-modified", map[string]interface{}{"rule_name": name, "keys_now": len(shared)})
					}
				}
			}
		}
	}
}

func recursiveSpace(c *runner.Ctx, globalModel map[string]walk.Fn) {
	c.Space(c.Mode + ":recursive")
	names := []string{"", "a", "abcdefghijklm", "abcd", "abcde"}
	sets := []struct {
		name            string
		typed, unscoped map[string]string
	}{{"none", nil, nil}, {"unscoped{Name}", nil, map[string]string{"Name": "eq=5|u-name"}}, {"typed{Name}", map[string]string{"Name": "eq=4|t-name"}, nil},
		{"typed-empty+unscoped", map[string]string{}, map[string]string{"Name": "eq=5|u-name"}}, {"unscoped{Next}", nil, map[string]string{"Next": "required|u-next"}}}
	for _, st := range sets {
		for a := range names {
			for b := -1; b < len(names); b++ {
				for d := -1; d < len(names); d++ {
					for k := -1; k < 3; k++ {
						if !c.Take() {
							continue
						}
						root := &Node{Name: names[a]}
						if b >= 0 {
							root.Next = &Node{Name: names[b]}
							if d >= 0 {
								root.Next.Next = &Node{Name: names[d]}
							}
						}
						if k >= 0 {
							root.Children = []*Node{{Name: names[k]}, nil, {Name: names[(k+2)%len(names)], Next: &Node{Name: names[k]}}}
						}
						opts := walk.Opts{Typed: map[reflect.Type]map[string]string{}, GlobalFns: globalModel}
						vs := valid.NewVStruct()
						if st.typed != nil {
							opts.Typed[reflect.TypeOf(Node{})] = st.typed
							vs.SetRule(toRM(st.typed), &Node{})
						}
						if st.unscoped != nil {
							opts.Unscoped = st.unscoped
							vs.SetRule(toRM(st.unscoped))
						}
						exp := walk.Struct(root, opts)
						var err error
						pan, msg, site := runner.Guard(func() { err = vs.Valid(root) })
						c.Done(b >= 0 || k >= 0, 1)
						actual := ""
						if err != nil {
							actual = err.Error()
						}
						det := map[string]interface{}{"sets": st.name, "root": fmt.Sprintf("%q->%d->%d children:%d", names[a], b, d, k), "expected": exp.Error(), "actual": actual}
						if pan {
							det["panic"] = msg
							c.Violation("panic@"+site, det)
							continue
						}
						if actual != exp.Error() {
							c.Violation("recursive/"+classify(exp.Fields, errparse.Split(actual)), det)
						} else {
							c.Outcome(fmt.Sprintf("clauses=%d", len(exp.Fields)))
						}
					}
				}
			}
		}
	}
}

// NT carries no tag rules at all: its rules come from a rule set registered for the type, and apply wherever a value
// of the type occurs - by value, behind pointers, in slices, arrays and maps of pointers.
type NT struct {
	Code string
	Tel  string
}

type NTHolder struct {
	Name string         `valid:"required|need-name"`
	V    NT             `valid:"exist"`
	P    *NT            `valid:"exist"`
	PP   **NT           `valid:"exist"`
	L    []*NT          `valid:"exist"`
	LV   []NT           `valid:"required"`
	A    [2]*NT         `valid:"exist"`
	M    map[string]*NT `valid:"exist"`
	U    *NT            // unmarked: never reached
}

func untaggedNested(c *runner.Ctx) {
	c.Space(c.Mode + ":untagged-nested-type-with-typed-rules")
	rules := []map[string]string{{"Code": "required|t-code", "Tel": "to=2~3|t-tel"}, {"Tel": "required|t-tel2"}, {}}
	nts := []NT{{}, {Code: "c", Tel: "toolong"}, {Code: "", Tel: "ok"}}
	for ri, rm := range rules {
		for a := range nts {
			for b := range nts {
				for how := 0; how < 3; how++ {
					if !c.Take() {
						continue
					}
					x, y := nts[a], nts[b]
					px := &x
					h := &NTHolder{Name: "n", V: x, P: &y, PP: &px, L: []*NT{&x, nil, &y}, LV: []NT{y, x}, A: [2]*NT{nil, &y}, M: map[string]*NT{"k": &x}, U: &NT{}}
					opts := walk.Opts{Typed: map[reflect.Type]map[string]string{reflect.TypeOf(NT{}): rm}}
					var err error
					pan, msg, site := runner.Guard(func() {
						switch how {
						case 0:
							err = valid.NewVStruct().SetRule(toRM(rm), &NT{}).Valid(h)
						case 1:
							err = valid.NewVStruct().SetRule(toRM(rm), NT{}).Valid(h)
						default:
							err = valid.NestedStructForRule(h, map[interface{}]valid.RM{&NT{}: toRM(rm)})
						}
					})
					exp := walk.Struct(h, opts)
					c.Done(true, 1)
					actual := ""
					if err != nil {
						actual = err.Error()
					}
					det := map[string]interface{}{"typed_rules": rm, "rules_index": ri, "values": fmt.Sprintf("%+v / %+v", x, y), "registered_by": []string{"SetRule(rm, &NT{})", "SetRule(rm, NT{})", "NestedStructForRule"}[how], "expected": exp.Error(), "actual": actual}
					if pan {
						det["panic"] = msg
						c.Violation("panic@"+site, det)
						continue
					}
					if actual != exp.Error() {
						c.Violation("untagged-nested/"+classify(exp.Fields, errparse.Split(actual)), det)
					} else {
						c.Outcome(fmt.Sprintf("clauses=%d", len(exp.Fields)))
					}
				}
			}
		}
	}
}

// Embedded structs are objects of their own: a rule set given for the enclosing struct (targeted or not) does not
// reach the embedded one, even where field names coincide; and an unknown rule name is reported for every field that
// carries it, however often its type occurs in the graph.
type EBase struct {
	ID   string `valid:"required|b-id"`
	Memo string `valid:"zz9,le=3|b-memo"`
}

type EOuter struct {
	ID    string `valid:"to=1~3|o-id"`
	EBase `valid:"exist"`
	P     *EBase  `valid:"exist"`
	L     []EBase `valid:"exist"`
}

func embeddedAndUnknown(c *runner.Ctx) {
	c.Space(c.Mode + ":embedded-struct-and-unknown-names")
	sets := []struct {
		name            string
		typed, unscoped map[string]string
	}{{"none", nil, nil}, {"unscoped{ID}", nil, map[string]string{"ID": "eq=5|u-id"}}, {"typed-outer{ID}", map[string]string{"ID": "eq=4|t-id"}, nil},
		{"unscoped{ID,Memo}", nil, map[string]string{"ID": "required|u-id2", "Memo": "eq=2|u-memo"}}}
	ids := []string{"", "abcd", "abcde", "ab"}
	for _, st := range sets {
		for a := range ids {
			for b := range ids {
				for how := 0; how < 2; how++ {
					if !c.Take() {
						continue
					}
					o := &EOuter{ID: ids[a], EBase: EBase{ID: ids[b], Memo: "toolong"}, P: &EBase{ID: ids[(a+b)%4], Memo: "m"}, L: []EBase{{ID: "x", Memo: "toolong"}, {ID: "", Memo: "ok"}}}
					opts := walk.Opts{Typed: map[reflect.Type]map[string]string{}}
					vs := valid.NewVStruct()
					if st.typed != nil {
						opts.Typed[reflect.TypeOf(EOuter{})] = st.typed
						vs.SetRule(toRM(st.typed), &EOuter{})
					}
					if st.unscoped != nil {
						opts.Unscoped = st.unscoped
						vs.SetRule(toRM(st.unscoped))
					}
					var src interface{} = o
					if how == 1 {
						if st.unscoped != nil {
							continue
						}
						src = []*EOuter{o, o}
					}
					exp := walk.Struct(src, opts)
					var err error
					pan, msg, site := runner.Guard(func() { err = vs.Valid(src) })
					c.Done(true, 1)
					actual := ""
					if err != nil {
						actual = err.Error()
					}
					det := map[string]interface{}{"sets": st.name, "outer_id": ids[a], "embedded_id": ids[b], "top": []string{"*EOuter", "[]*EOuter"}[how], "expected": exp.Error(), "actual": actual}
					if pan {
						det["panic"] = msg
						c.Violation("panic@"+site, det)
						continue
					}
					if actual != exp.Error() {
						c.Violation("embedded/"+classify(exp.Fields, errparse.Split(actual)), det)
					} else {
						c.Outcome(fmt.Sprintf("clauses=%d", len(exp.Fields)))
					}
				}
			}
		}
	}
}

// wideStructs: a call-supplied rule wins over the tag rule of the field it names, whatever the field's index.
func wideStructs(c *runner.Ctx) {
	c.Space(c.Mode + ":wide-structs")
	for _, n := range []int{3, 63, 64, 65, 70, 130} {
		var sf []reflect.StructField
		for i := 0; i < n; i++ {
			sf = append(sf, reflect.StructField{Name: fmt.Sprintf("F%03d", i), Type: reflect.TypeOf(""), Tag: reflect.StructTag(fmt.Sprintf(`valid:"to=1~3|tag-%d" wide:"%d"`, i, n))})
		}
		wt := reflect.StructOf(sf)
		outer := reflect.StructOf([]reflect.StructField{{Name: "Head", Type: reflect.TypeOf(""), Tag: `valid:"required|need-head"`}, {Name: "W", Type: reflect.PtrTo(wt), Tag: `valid:"exist"`}})
		for i := 0; i < n; i++ {
			for mode := 0; mode < 3; mode++ {
				if !c.Take() {
					continue
				}
				w := reflect.New(wt)
				for j := 0; j < n; j++ {
					if j%7 == i%7 {
						w.Elem().Field(j).SetString("abcdefg")
					} else if j%2 == 0 {
						w.Elem().Field(j).SetString("ab")
					}
				}
				rule := map[string]string{fmt.Sprintf("F%03d", i): fmt.Sprintf("eq=5|call-%d", i)}
				var src interface{} = w.Interface()
				opts := walk.Opts{}
				vs := valid.NewVStruct()
				switch mode {
				case 0: // untargeted rule set, the wide struct is the outermost object
					opts.Unscoped = rule
					vs.SetRule(toRM(rule))
				case 1: // rule set targeted at the wide type, reached as a nested object
					o := reflect.New(outer)
					o.Elem().Field(1).Set(w)
					src = o.Interface()
					opts.Typed = map[reflect.Type]map[string]string{wt: rule}
					vs.SetRule(toRM(rule), w.Interface())
				case 2: // targeted, outermost
					opts.Typed = map[reflect.Type]map[string]string{wt: rule}
					vs.SetRule(toRM(rule), reflect.New(wt).Elem().Interface())
				}
				exp := walk.Struct(src, opts)
				var err error
				pan, msg, site := runner.Guard(func() { err = vs.Valid(src) })
				c.Done(i >= 2, 1)
				actual := ""
				if err != nil {
					actual = err.Error()
				}
				det := map[string]interface{}{"fields": n, "rule_for_field": i, "mode": []string{"untargeted", "targeted-nested", "targeted-outermost"}[mode], "expected": exp.Error(), "actual": actual}
				if pan {
					det["panic"] = msg
					c.Violation("panic@"+site, det)
					continue
				}
				// the type name of an unnamed struct holds "; ": compare clause multisets on the explanation part
				if got, want := explainParts(actual), explainParts(exp.Error()); got != want {
					det["got_explanations"], det["want_explanations"] = got, want
					c.Violation("wide-struct/call-rule-not-applied-or-misapplied", det)
				} else {
					c.Outcome("wide-ok")
				}
			}
		}
	}
}

func explainParts(e string) string {
	var out []string
	for _, p := range strings.Split(e, "explain: ")[1:] {
		if k := strings.Index(p, ";"); k >= 0 {
			p = p[:k]
		}
		out = append(out, p)
	}
	return strings.Join(out, "|")
}

// repeatedSetRule: two rule sets registered for the same target in one call (the later one is the one in force), then
// a later call that passes the first set alone: it is judged by exactly what that set holds, and the caller's maps are
// the caller's.
func repeatedSetRule(c *runner.Ctx) {
	c.Space(c.Mode + "(round 12: late registration also with one function-table object - holding an unrelated name - handed to every call; an unscoped rule set over a collection of equal structs, first call or right after a call refused before any walk: equal elements are judged alike) :rule-set-reused-after-a-call-with-two-sets")
	bases := []map[string]string{{"Name": "eq=4|base-name"}, {"Next": "required|base-next"}, {}}
	extras := []map[string]string{{"Name": "eq=5|extra-name"}, {"Children": "required|extra-children", "Name": "to=1~2|extra-name2"}, {"Next": "required|extra-next"}}
	names := []string{"", "abcd", "abcde", "abcdefghijklm"}
	for bi, base := range bases {
		for ei, extra := range extras {
			for _, typed := range []bool{false, true} {
				for _, nm := range names {
					if !c.Take() {
						continue
					}
					mk := func() *Node { return &Node{Name: nm, Next: &Node{Name: nm}} }
					b, e := toRM(base), toRM(extra)
					vs := valid.NewVStruct()
					o1, o2 := walk.Opts{}, walk.Opts{}
					if typed {
						vs.SetRule(b, &Node{}).SetRule(e, Node{})
						o1.Typed = map[reflect.Type]map[string]string{reflect.TypeOf(Node{}): extra}
						o2.Typed = map[reflect.Type]map[string]string{reflect.TypeOf(Node{}): base}
					} else {
						vs.SetRule(b).SetRule(e)
						o1.Unscoped, o2.Unscoped = extra, base
					}
					var err1, err2 error
					pan, msg, site := runner.Guard(func() {
						err1 = vs.Valid(mk())
						v2 := valid.NewVStruct()
						if typed {
							v2.SetRule(b, &Node{})
						} else {
							v2.SetRule(b)
						}
						err2 = v2.Valid(mk())
					})
					c.Done(true, 2)
					txt := func(e error) string {
						if e == nil {
							return ""
						}
						return e.Error()
					}
					det := map[string]interface{}{"base": base, "extra": extra, "typed": typed, "name": nm, "first_call": txt(err1), "second_call": txt(err2),
						"first_expected": walk.Struct(mk(), o1).Error(), "second_expected": walk.Struct(mk(), o2).Error(), "base_after": map[string]string(b), "bi": bi, "ei": ei}
					if pan {
						det["panic"] = msg
						c.Violation("panic@"+site, det)
						continue
					}
					switch {
					case !reflect.DeepEqual(map[string]string(b), base) || !reflect.DeepEqual(map[string]string(e), extra):
						c.Violation("two-sets/callers-rule-set-modified", det)
					case txt(err2) != walk.Struct(mk(), o2).Error():
						c.Violation("two-sets/later-call-with-first-set-judged-differently", det)
					case txt(err1) != walk.Struct(mk(), o1).Error():
						c.Violation("two-sets/call-with-two-sets", det)
					default:
						c.Outcome("two-sets-ok")
					}
				}
			}
		}
	}
}

func classify(want, got []string) string {
	ws, gs := map[string]bool{}, map[string]bool{}
	for _, w := range want {
		ws[w] = true
	}
	for _, g := range got {
		gs[g] = true
	}
	var diff []string
	for w := range ws {
		if !gs[w] {
			diff = append(diff, "missing:"+clauseClass(w))
		}
	}
	for g := range gs {
		if !ws[g] {
			diff = append(diff, "unexpected:"+clauseClass(g))
		}
	}
	sort.Strings(diff)
	if len(diff) == 0 {
		return "order"
	}
	if len(diff) > 2 {
		diff = diff[:2]
	}
	return strings.Join(diff, "+")
}

func clauseClass(cl string) string {
	c := errparse.ParseClause(cl)
	depth := "outer"
	if strings.Count(c.Path, ".") >= 2 {
		depth = "nested"
	}
	t := c.Text
	for _, k := range []string{"u-next", "t-name", "o-name", "外层名", "o-in", "i-name", "i-code", "u-name", "call-phone", "call-zz", "global-phone", "global-zz", "is not exist", "it is not phone", "it is required"} {
		if strings.Contains(t, k) {
			return depth + "/" + k
		}
	}
	return depth + "/tag-rule"
}

func main() {
	runner.Main(runner.Config{
		Property:  "C16",
		Technique: "complete product of tag rules x typed/unscoped rule sets x function definitions (per-call/global/built-in) x values x entry points vs selection model",
		Rule: "9 named (Outer,Inner) type pairs sharing the field name Name with tag rule in {none, required, to=2~3}; rule set for Outer in {absent, empty, {Name}, {Name,In}}, for Inner in {absent, empty, {Name}, {Code}}, " +
			"unscoped in {absent, empty, {Name}, {Name,L}}, registered in three orders; 72 value assignments; entry points VStruct.SetRule, Struct(v,rm), StructForFn(s), NestedStructForRule; function names phone (built-in) and zz (unknown) " +
			"defined at every subset of {per call, global} (one worker set per global registration set, plus one in which every type has been validated before the global functions are registered, a space of names registered between two validations of one type, and two distinct struct types that print alike with a rule set for one of them); 62 names a user of another validation library would pick (min, max, len, mobile, regexp, ...) x 5 entry points x 3 rule forms x {no function, call-supplied} x {not registered, registered globally}; expected clause string from the walk model; non-trivial = Outer and Inner both carry a non-empty rule set for the shared field name",
		Assumptions: []string{"a non-empty typed set for the outermost type combined with a non-empty unscoped set is not specified and not enumerated", "unscoped sets are exercised with single-struct inputs"},
		Run:         run,
		Modes:       []runner.Mode{{Name: "g"}, {Name: "gp"}, {Name: "gz"}, {Name: "gpz"}, {Name: "gpzL", Workers: 8}},
	})
}

// unscopedOverCollections (round 12): an unscoped rule set handed over with a *collection* of structs as the top-level
// value. Whether the elements count as "the outermost struct" is not specified (DESIGN §7) - but whatever the answer is,
// it is the same for every element: equal elements at different positions are judged alike, whether the call is the
// first one of the process or follows a call that was refused before any walk (no struct / nil / typed nil).
func unscopedOverCollections(c *runner.Ctx) {
	c.Space(c.Mode + ":unscoped-rule-set-over-a-collection-of-equal-structs")
	rms := []map[string]string{{"Name": "eq=4|unscoped-name"}, {"Name": "required|unscoped-name", "Next": "required|unscoped-next"}, {"Children": "required|unscoped-children"}, {}}
	names := []string{"", "abcd", "abcdefghijklm"}
	histories := []string{"none", "Struct(&int)", "Struct(string, rm)", "Struct(nil)", "Struct((*Node)(nil), rm)", "NewVStruct().SetRule(rm).Valid(5)"}
	shapes := []string{"[]*Node x2", "[]*Node x3", "[2]Node", "[]Node x2", "*[]*Node x2", "map[string]*Node x2"}
	for _, rmSrc := range rms {
		for _, nm := range names {
			for _, h := range histories {
				for _, sh := range shapes {
					if !c.Take() {
						continue
					}
					mk := func() *Node { return &Node{Name: nm, Next: &Node{Name: nm}} }
					var top interface{}
					n := 2
					switch sh {
					case "[]*Node x2":
						top = []*Node{mk(), mk()}
					case "[]*Node x3":
						top, n = []*Node{mk(), mk(), mk()}, 3
					case "[2]Node":
						top = [2]Node{*mk(), *mk()}
					case "[]Node x2":
						top = []Node{*mk(), *mk()}
					case "*[]*Node x2":
						s := []*Node{mk(), mk()}
						top = &s
					default:
						top = map[string]*Node{"0": mk(), "1": mk()}
					}
					var err error
					pan, msg, site := runner.Guard(func() {
						switch h {
						case "Struct(&int)":
							k := 5
							_ = valid.Struct(&k)
						case "Struct(string, rm)":
							_ = valid.Struct("abc", toRM(rmSrc))
						case "Struct(nil)":
							_ = valid.Struct(nil)
						case "Struct((*Node)(nil), rm)":
							_ = valid.Struct((*Node)(nil), toRM(rmSrc))
						case "NewVStruct().SetRule(rm).Valid(5)":
							_ = valid.NewVStruct().SetRule(toRM(rmSrc)).Valid(5)
						}
						err = valid.Struct(top, toRM(rmSrc))
					})
					c.Done(h != "none", 2)
					got := ""
					if err != nil {
						got = err.Error()
					}
					det := map[string]interface{}{"rules": rmSrc, "name": nm, "call_before": h, "value": sh, "error": got}
					if pan {
						det["panic"] = msg
						c.Violation("panic@"+site, det)
						continue
					}
					// clauses per element, positions made anonymous
					per := make([][]string, n)
					for _, cl := range strings.Split(got, "; ") {
						for i := 0; i < n; i++ {
							idx := fmt.Sprintf("[%d]", i)
							if k := strings.Index(cl, idx); k >= 0 && k < strings.Index(cl+" input", " input") {
								per[i] = append(per[i], strings.Replace(cl, idx, "[i]", 1))
								break
							}
						}
					}
					for i := 1; i < n; i++ {
						a, b := append([]string{}, per[0]...), append([]string{}, per[i]...)
						sort.Strings(a)
						sort.Strings(b)
						if strings.Join(a, "; ") != strings.Join(b, "; ") {
							det["element_0"], det[fmt.Sprintf("element_%d", i)] = a, b
							c.Violation("unscoped-over-collection/equal-elements-judged-differently", det)
							break
						}
					}
				}
			}
		}
	}
}
