package main

import (
	"fmt"
	"reflect"
	"strings"

	"gitee.com/xuesongtao/protoc-go-valid/valid"
	"verif/internal/errparse"
	"verif/internal/runner"
	"verif/internal/walk"
)

// OHolder's fields hold sub-objects and carry a marker in their tag. A rule set that names such a field replaces the
// tag rule entirely: if the replacement holds no marker, the sub-objects are not visited (and nothing inside them is
// reported); if it holds one, they are.
type OItem struct {
	Name string `valid:"required|i-name"`
	Qty  int    `valid:"to=1~3|i-qty"`
}

type OHolder struct {
	One  OItem            `valid:"required"`
	Ptr  *OItem           `valid:"exist"`
	List []OItem          `valid:"required,le=3|h-list"`
	Dict map[string]OItem `valid:"exist"`
	Arr  [2]*OItem        `valid:"required"`
	Tail string           `valid:"required|h-tail"`
}

func nestedRuleReplaced(c *runner.Ctx) {
	c.Space(c.Mode + ":nested-field-rule-replaced-by-a-rule-without-marker")
	silent := func(errBuf *strings.Builder, validName, objName, fieldName string, tv reflect.Value) {}
	callFns := valid.Name2FnMap{"okfn": silent, "logfn": mkFn("call-logfn")}
	callModel := map[string]walk.Fn{"okfn": func(rule, obj, field string, v reflect.Value) string { return "" }, "logfn": mkModelFn("call-logfn")}
	fields := []string{"One", "Ptr", "List", "Dict", "Arr"}
	repl := []string{"okfn", "logfn", "okfn,logfn", "required|o-req", "exist", "okfn,exist", "logfn,required|o-req2"}
	listOnly := []string{"le=1|o-le", "ge=1|o-ge", "le=1|o-le,okfn"}
	bad, good := OItem{Name: "", Qty: 9}, OItem{Name: "n", Qty: 2}
	mk := func(it OItem) *OHolder {
		a, b := it, it
		return &OHolder{One: it, Ptr: &a, List: []OItem{it, it}, Dict: map[string]OItem{"k": it}, Arr: [2]*OItem{nil, &b}, Tail: ""}
	}
	var sets []map[string]string
	for _, f := range fields {
		rs := append([]string{}, repl...)
		if f == "List" {
			rs = append(rs, listOnly...)
		}
		for _, r := range rs {
			sets = append(sets, map[string]string{f: r})
		}
	}
	// several nested fields replaced at once, with and without a marker left somewhere
	sets = append(sets,
		map[string]string{"One": "okfn", "Ptr": "okfn", "List": "le=1|o-le", "Dict": "okfn", "Arr": "logfn"},
		map[string]string{"One": "okfn", "Ptr": "exist", "List": "okfn", "Dict": "required|o-req", "Arr": "okfn"},
		map[string]string{"One": "logfn", "Tail": "okfn"},
		map[string]string{"Tail": "to=1~3|o-tail"})
	for _, rm := range sets {
		for _, it := range []OItem{bad, good} {
			for how := 0; how < 3; how++ {
				if !c.Take() {
					continue
				}
				h := mk(it)
				opts := walk.Opts{CallFns: callModel}
				var err error
				pan, msg, site := runner.Guard(func() {
					switch how {
					case 0: // unscoped rule set
						opts.Unscoped = rm
						err = valid.StructForFns(h, toRM(rm), callFns)
					case 1: // rule set registered for the type
						opts.Typed = map[reflect.Type]map[string]string{reflect.TypeOf(OHolder{}): rm}
						vs := valid.NewVStruct().SetRule(toRM(rm), &OHolder{})
						for n, f := range callFns {
							vs.SetValidFn(n, f)
						}
						err = vs.Valid(h)
					default: // the holder as an element of a slice, rule set registered for the type
						opts.Typed = map[reflect.Type]map[string]string{reflect.TypeOf(OHolder{}): rm}
						vs := valid.NewVStruct().SetRule(toRM(rm), OHolder{})
						for n, f := range callFns {
							vs.SetValidFn(n, f)
						}
						err = vs.Valid([]*OHolder{h})
					}
				})
				var exp walk.Result
				if how == 2 {
					exp = walk.Struct([]*OHolder{h}, opts)
				} else {
					exp = walk.Struct(h, opts)
				}
				c.Done(true, 1)
				actual := ""
				if err != nil {
					actual = err.Error()
				}
				det := map[string]interface{}{"rule_set": rm, "given": []string{"unscoped (StructForFns)", "SetRule(rm, &OHolder{})", "SetRule(rm, OHolder{}) on []*OHolder"}[how], "sub_objects": fmt.Sprintf("%+v", it), "expected": exp.Error(), "actual": actual}
				if pan {
					det["panic"] = msg
					c.Violation("panic@"+site, det)
					continue
				}
				if actual != exp.Error() {
					c.Violation("nested-rule-replaced/"+classify(exp.Fields, errparse.Split(actual)), det)
				} else {
					c.Outcome(fmt.Sprintf("clauses=%d", len(exp.Fields)))
				}
			}
		}
	}
}
