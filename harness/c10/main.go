// C10 — the LRU cache is safe and linearizable under concurrent use.
// E-sched: every interleaving (unbounded, or up to a preemption bound) of 2-3 thread harnesses on one
// real LRUCache under the controlled scheduler; per execution: no panic/deadlock, the call/return history is
// linearizable w.r.t. the sequential LRU model (brute force, cross-checked with porcupine), quiescent state
// consistent; in the -race build the Go race detector checks every explored schedule.
package main

import (
	"fmt"
	"os"
	"sort"
	"strings"
	"time"

	"gitee.com/xuesongtao/protoc-go-valid/valid"
	"gitee.com/xuesongtao/protoc-go-valid/verifshim/vsched"
	"gitee.com/xuesongtao/protoc-go-valid/verifshim/vsync"
	"github.com/anishathalye/porcupine"
	"verif/internal/lrumodel"
	"verif/internal/runner"
)

type opk struct {
	kind byte // S L D N P(dump)
	key  string
}

func (o opk) String() string {
	switch o.kind {
	case 'N':
		return "Len"
	case 'P':
		return "Dump"
	}
	if o.kind == 'U' {
		return map[string]string{"L": "Load", "S": "Store", "D": "Delete"}[o.key] + "(unhashable key)"
	}
	return map[byte]string{'S': "Store", 'L': "Load", 'D': "Delete"}[o.kind] + "(" + o.key + ")"
}

var fullAlpha = []opk{{'S', "a"}, {'S', "b"}, {'S', "c"}, {'L', "a"}, {'L', "b"}, {'L', "c"}, {'D', "a"}, {'D', "b"}, {'N', ""}, {'P', ""}}
var redAlpha = []opk{{'S', "a"}, {'S', "b"}, {'L', "a"}, {'D', "a"}, {'N', ""}, {'P', ""}}

// event is one completed operation of the history.
type event struct {
	tid, seq  int
	op        opk
	val       int // stored value (Store)
	call, ret int64
	outV      interface{}
	outOK     bool
	outN      int
	outS      string
}

type harness struct {
	cap     int
	prefill []string
	progs   [][]opk
	warm    int
	// faults: the removal callback panics for key "b" and 'U' operations pass a key that cannot be hashed; the calling
	// thread recovers. A caller's fault stays with that caller: the other threads' operations still complete.
	faults bool
	// cbYield: a removal callback is registered that gives up the processor (a user callback may do anything): whatever
	// the cache does around the callback is then interleaved with the other threads
	cbYield bool
}

func (h harness) String() string {
	var p []string
	for _, pr := range h.progs {
		var q []string
		for _, o := range pr {
			q = append(q, o.String())
		}
		p = append(p, "["+strings.Join(q, " ")+"]")
	}
	if h.cbYield {
		return fmt.Sprintf("callback-yields cap=%d prefill=%v %s", h.cap, h.prefill, strings.Join(p, " || "))
	}
	if h.faults {
		return fmt.Sprintf("faults(callback panics for b; unhashable keys) cap=%d prefill=%v %s", h.cap, h.prefill, strings.Join(p, " || "))
	}
	if h.warm > 0 {
		return fmt.Sprintf("cap=%d warm=%d prefill=%v %s", h.cap, h.warm, h.prefill, strings.Join(p, " || "))
	}
	return fmt.Sprintf("cap=%d prefill=%v %s", h.cap, h.prefill, strings.Join(p, " || "))
}

type execState struct {
	lru    *valid.LRUCache
	events []*event // per thread appended by the threads (one runs at a time)
	evTh   [][]*event
}

// Values stored under key "c" are slices (not comparable with ==): a cache holds values of any type. The history and
// the model keep the plain number; wrap / unwrap / plainDump translate at the boundary.
func wrap(key string, v int) interface{} {
	if key == "c" {
		return []int{v}
	}
	return v
}

func unwrap(v interface{}) interface{} {
	if s, ok := v.([]int); ok && len(s) == 1 {
		return s[0]
	}
	return v
}

var plainDump = strings.NewReplacer("[", "", "]", "")

func (h harness) setup(st *execState) []func() {
	st.lru = valid.NewLRU(h.cap)
	if h.cbYield {
		st.lru.SetDelCallBackFn(func(k, v interface{}) { vsched.Yield() })
	}
	if h.faults {
		st.lru.SetDelCallBackFn(func(k, v interface{}) {
			if k == "b" {
				panic("removal callback refuses b")
			}
		})
	}
	for i := 0; i < h.warm; i++ { // leaves the cache empty; only the hidden counter moves
		st.lru.Store(fmt.Sprintf("w%d", i), 0)
		st.lru.Delete(fmt.Sprintf("w%d", i))
	}
	for i, k := range h.prefill {
		st.lru.Store(k, wrap(k, -(i+1)))
	}
	st.evTh = make([][]*event, len(h.progs))
	bodies := make([]func(), len(h.progs))
	for ti := range h.progs {
		ti := ti
		prog := h.progs[ti]
		evs := make([]*event, len(prog))
		for i := range evs {
			evs[i] = &event{tid: ti, seq: i, op: prog[i], val: (ti+1)*10 + i}
		}
		st.evTh[ti] = evs
		bodies[ti] = func() {
			for i, o := range prog {
				vsched.Yield()
				e := evs[i]
				e.call = vsched.Tick()
				if h.faults {
					func() {
						defer func() { recover() }()
						switch o.kind {
						case 'S':
							st.lru.Store(o.key, wrap(o.key, e.val))
						case 'L':
							st.lru.Load(o.key)
						case 'D':
							st.lru.Delete(o.key)
						case 'N':
							st.lru.Len()
						case 'P':
							st.lru.Dump()
						case 'U':
							switch o.key {
							case "L":
								st.lru.Load([]int{1})
							case "S":
								st.lru.Store([]int{1}, 1)
							default:
								st.lru.Delete(map[string]int{})
							}
						}
					}()
					e.ret = vsched.Tick()
					if i == len(prog)-1 {
						st.lru.Len() // a lock left held by a failed operation blocks this call: reported as a deadlock
					}
					continue
				}
				switch o.kind {
				case 'S':
					st.lru.Store(o.key, wrap(o.key, e.val))
				case 'L':
					e.outV, e.outOK = st.lru.Load(o.key)
					e.outV = unwrap(e.outV)
				case 'D':
					st.lru.Delete(o.key)
				case 'N':
					e.outN = st.lru.Len()
				case 'P':
					e.outS = plainDump.Replace(st.lru.Dump())
				}
				e.ret = vsched.Tick()
			}
		}
	}
	return bodies
}

// final observations at quiescence
type final struct {
	n     int
	dump  string
	loads map[string]string
}

func (st *execState) quiesce() final {
	f := final{loads: map[string]string{}}
	f.n = st.lru.Len()
	f.dump = plainDump.Replace(st.lru.Dump())
	for _, k := range []string{"a", "b", "c"} {
		v, ok := st.lru.Load(k)
		f.loads[k] = fmt.Sprint(unwrap(v), ok)
	}
	return f
}

func applyModel(m *lrumodel.LRU, e *event) bool {
	switch e.op.kind {
	case 'S':
		m.Store(e.op.key, e.val)
	case 'L':
		v, ok := m.Load(e.op.key)
		if ok != e.outOK || (ok && v != e.outV) {
			return false
		}
	case 'D':
		m.Delete(e.op.key)
	case 'N':
		if m.Len() != e.outN {
			return false
		}
	case 'P':
		if m.Dump() != e.outS {
			return false
		}
	}
	return true
}

func finalMatches(m *lrumodel.LRU, f final, cap int) bool {
	if f.n != m.Len() || f.n > cap || f.dump != m.Dump() {
		return false
	}
	mm := m.Clone()
	for _, k := range []string{"a", "b", "c"} {
		v, ok := mm.Load(k)
		if fmt.Sprint(v, ok) != f.loads[k] {
			return false
		}
	}
	return true
}

// linearizable: brute force over all orders respecting real time (ret < call) and program order.
func linearizable(h harness, evs []*event, f *final) bool {
	n := len(evs)
	used := make([]bool, n)
	m0 := lrumodel.New(h.cap)
	for i, k := range h.prefill {
		m0.Store(k, -(i + 1))
	}
	var rec func(m *lrumodel.LRU, done int) bool
	rec = func(m *lrumodel.LRU, done int) bool {
		if done == n {
			return f == nil || finalMatches(m, *f, h.cap)
		}
		for i := 0; i < n; i++ {
			if used[i] {
				continue
			}
			// minimal: no unused j with ret < call(i)
			ok := true
			for j := 0; j < n; j++ {
				if j != i && !used[j] && evs[j].ret < evs[i].call {
					ok = false
					break
				}
			}
			if !ok {
				continue
			}
			mc := m.Clone()
			if !applyModel(mc, evs[i]) {
				continue
			}
			used[i] = true
			if rec(mc, done+1) {
				used[i] = false
				return true
			}
			used[i] = false
		}
		return false
	}
	return rec(m0, 0)
}

// porcupine model (cross-check, without the final-state obligation)
type pin struct {
	e *event
}

func porcupineCheck(h harness, evs []*event) bool {
	model := porcupine.Model{
		Init: func() interface{} {
			m := lrumodel.New(h.cap)
			for i, k := range h.prefill {
				m.Store(k, -(i + 1))
			}
			return m
		},
		Step: func(state, input, output interface{}) (bool, interface{}) {
			m := state.(*lrumodel.LRU).Clone()
			ok := applyModel(m, input.(pin).e)
			return ok, m
		},
		Equal: func(a, b interface{}) bool {
			x, y := a.(*lrumodel.LRU), b.(*lrumodel.LRU)
			if len(x.E) != len(y.E) {
				return false
			}
			for i := range x.E {
				if x.E[i] != y.E[i] {
					return false
				}
			}
			return true
		},
	}
	var ops []porcupine.Operation
	for _, e := range evs {
		ops = append(ops, porcupine.Operation{ClientId: e.tid, Input: pin{e}, Call: e.call, Output: nil, Return: e.ret})
	}
	return porcupine.CheckOperations(model, ops)
}

func historyKey(evs []*event, f *final) string {
	var b strings.Builder
	for _, e := range evs {
		fmt.Fprintf(&b, "%d.%d[%d,%d]%v,%v,%d,%q;", e.tid, e.seq, e.call, e.ret, e.outV, e.outOK, e.outN, e.outS)
	}
	if f != nil {
		fmt.Fprintf(&b, "F%d,%q,%v", f.n, f.dump, f.loads)
	}
	return b.String()
}

func historyString(evs []*event) string {
	s := append([]*event(nil), evs...)
	sort.Slice(s, func(i, j int) bool { return s[i].call < s[j].call })
	var p []string
	for _, e := range s {
		out := ""
		switch e.op.kind {
		case 'S':
			out = fmt.Sprintf("<-%d", e.val)
		case 'L':
			out = fmt.Sprintf("=%v,%v", e.outV, e.outOK)
		case 'N':
			out = fmt.Sprintf("=%d", e.outN)
		case 'P':
			out = fmt.Sprintf("=%q", e.outS)
		}
		p = append(p, fmt.Sprintf("T%d:%s%s@[%d,%d]", e.tid, e.op, out, e.call, e.ret))
	}
	return strings.Join(p, " ")
}

// ---------------------------------------------------------------------------------------------

var raceLog string

// zombies: a deadlocked or hung execution leaves its threads parked for ever; the race detector then sees the next
// executions' set-up writes as unordered with those threads' earlier accesses. Race reports after such an execution
// are artefacts of the abandonment (the deadlock itself is reported) and are not attributed to the code under test.
var zombies bool

// isolatedBudget: child executions this worker may still spend on the one-process-per-execution fallback.
var isolatedBudget = 3000

func raceLogSize() int64 {
	if raceLog == "" {
		return 0
	}
	var total int64
	matches, _ := globRace()
	for _, m := range matches {
		if fi, err := os.Stat(m); err == nil {
			total += fi.Size()
		}
	}
	return total
}

func globRace() ([]string, error) {
	return []string{fmt.Sprintf("%s.%d", raceLog, os.Getpid())}, nil
}

func raceReportFrom(off int64) string {
	ms, _ := globRace()
	for _, m := range ms {
		b, err := os.ReadFile(m)
		if err == nil && int64(len(b)) > off {
			s := string(b[off:])
			if k := strings.Index(s[1:], "=================="); k > 0 && k+20 < len(s) {
				// keep the first complete report
				if e := strings.Index(s[k+20:], "=================="); e > 0 {
					s = s[:k+20+e+18]
				}
			}
			if len(s) > 5000 {
				s = s[:5000]
			}
			return s
		}
	}
	return ""
}

// raceSig extracts "fnA vs fnB" from a race report.
func raceSig(rep string) string {
	var fns []string
	lines := strings.Split(rep, "\n")
	for i, l := range lines {
		t := strings.TrimSpace(l)
		if (strings.HasPrefix(t, "Write at ") || strings.HasPrefix(t, "Read at ") || strings.HasPrefix(t, "Previous write at ") || strings.HasPrefix(t, "Previous read at ")) && i+1 < len(lines) {
			// first repository frame below
			for j := i + 1; j < len(lines) && strings.TrimSpace(lines[j]) != ""; j++ {
				fr := strings.TrimSpace(lines[j])
				if strings.HasPrefix(fr, "gitee.com/xuesongtao/protoc-go-valid/") && !strings.Contains(fr, "verifshim") {
					fr = strings.TrimPrefix(fr, "gitee.com/xuesongtao/protoc-go-valid/")
					if k := strings.LastIndex(fr, "("); k > 0 {
						fr = fr[:k]
					}
					fns = append(fns, fr)
					break
				}
			}
		}
		if len(fns) == 2 {
			break
		}
	}
	sort.Strings(fns)
	if len(fns) == 0 {
		return "unattributed"
	}
	return strings.Join(fns, "~")
}

type exploreStats struct {
	execs, steps int64
	capped       bool
}

// exploreHarness explores one harness; reports violations through c.
func exploreHarness(c *runner.Ctx, h harness, bound int, race bool, linCache map[string]bool, deadline time.Time) exploreStats {
	st := &execState{}
	histories := map[string]struct{}{}
	nonTrivial := false
	reported := map[string]bool{}
	report := func(sig string, x *vsched.Exec, extra string) {
		if reported[sig] {
			return
		}
		reported[sig] = true
		c.Violation(sig, map[string]interface{}{"harness": h.String(), "bound": bound, "schedule": x.Choices, "trace": x.TraceString(), "what": extra})
	}
	ex := &vsched.Explorer{
		Opt:   vsched.Options{Bound: bound, Deadline: deadline},
		Setup: func() []func() { return h.setup(st) },
	}
	ex.Check = func(x *vsched.Exec) bool {
		ok := true
		if x.Hang {
			zombies = true
			report("hang", x, "a thread did not reach its next scheduling point within the watchdog")
			return false
		}
		if x.Deadlock {
			zombies = true
			report("deadlock", x, strings.Join(x.Blocked, "; "))
			return false
		}
		if x.Misuse != "" {
			report("lock-misuse", x, x.Misuse)
			ok = false
		}
		for i, p := range x.Panics {
			if p != "" {
				report("panic@"+x.Sites[i], x, fmt.Sprintf("T%d panicked: %s", i, p))
				return false
			}
		}
		if h.faults {
			// the oracle here is only: no thread is left waiting, and the cache still answers afterwards
			// (no removal here: a removal may start a goroutine of the code under test outside the scheduler, which
			// would still be running when the next execution starts)
			pan, msg, site := runner.Guard(func() { st.lru.Len(); st.lru.Load("a"); st.lru.Dump() })
			if pan && !strings.Contains(msg, "refuses b") {
				report("panic-after-faults@"+site, x, msg)
				return false
			}
			return ok
		}
		var evs []*event
		for _, t := range st.evTh {
			evs = append(evs, t...)
		}
		var f final
		pan, msg, site := runner.Guard(func() { f = st.quiesce() })
		if pan {
			report("panic-at-quiescence@"+site, x, msg)
			return false
		}
		if f.n == -1 {
			report("quiescent-len-sentinel", x, "Len()==-1 at quiescence: "+historyString(evs))
			ok = false
		} else if f.n > h.cap {
			report("quiescent-over-capacity", x, fmt.Sprintf("Len()=%d > cap at quiescence: %s", f.n, historyString(evs)))
			ok = false
		}
		key := historyKey(evs, &f)
		if _, seen := histories[key]; !seen {
			histories[key] = struct{}{}
		}
		lin, cached := linCache[key]
		if !cached {
			lin = linearizable(h, evs, &f)
			linOps := linearizable(h, evs, nil)
			pc := porcupineCheck(h, evs)
			if pc != linOps {
				fmt.Fprintf(os.Stderr, "HARNESS-ERROR: porcupine (%v) and brute force (%v) disagree on %s\n", pc, linOps, historyString(evs))
				os.Exit(3)
			}
			if !linOps {
				lin = false
			}
			if len(linCache) < 200000 {
				linCache[key] = lin
			}
			if !lin {
				kind := "not-linearizable"
				if linOps {
					kind = "quiescent-state-inconsistent"
				}
				report(kind, x, fmt.Sprintf("history %s ; final Len=%d Dump=%q loads=%v", historyString(evs), f.n, f.dump, f.loads))
			}
		}
		if !lin {
			ok = false
		}
		// non-trivial: two operations on the same key overlap in time
		if !nonTrivial {
			for i := 0; i < len(evs) && !nonTrivial; i++ {
				for j := i + 1; j < len(evs); j++ {
					a, b := evs[i], evs[j]
					if a.tid != b.tid && a.op.key != "" && a.op.key == b.op.key && a.call < b.ret && b.call < a.ret {
						nonTrivial = true
						break
					}
				}
			}
		}
		return ok
	}
	var before int64
	if race {
		before = raceLogSize()
	}
	noBudget := 0
	bud := &isolatedBudget
	if race {
		bud = &noBudget // race reports of child processes are not collected: the plain workers explore the same harness
	}
	res, isolated := ex.ExploreIsolating(c.RunCaseInChild, os.Getenv("VERIF_SCRATCH"), bud, func(prefix []int, stderr string, err error) {
		if strings.Contains(stderr, "HARNESS-ERROR") {
			fmt.Fprintln(os.Stderr, stderr)
			os.Exit(3)
		}
		c.Violation("isolated-execution-crashed", map[string]interface{}{"harness": h.String(), "schedule": prefix, "error": err.Error(), "stderr": stderr})
	})
	if isolated {
		c.Count("harnesses_explored_with_one_process_per_execution", 1)
	}
	if res.Diverged != "" {
		// process-global state of the code under test survives between executions and no isolated-process budget is left
		c.MarkIncomplete()
		c.Note("replay divergence (process-global state survives between executions): harness not explored in this mode: " + res.Diverged)
		c.Done(false, 0)
		return exploreStats{}
	}
	if race {
		if after := raceLogSize(); after > before && !zombies {
			rep := raceReportFrom(before)
			c.Violation("data-race:"+raceSig(rep), map[string]interface{}{"harness": h.String(), "bound": bound, "report": rep})
		} else if after > before {
			c.Note("race reports after a deadlocked/hung execution in the same worker were not attributed (abandoned threads)")
		}
	}
	if res.Capped {
		c.MarkIncomplete()
	}
	c.Count("schedules", res.Execs)
	c.Count("distinct_histories", int64(len(histories)))
	c.StateN(int64(len(histories)))
	c.Done(nonTrivial, int(res.Steps))
	if len(reported) == 0 {
		c.Outcome("ok")
	}
	for s := range reported {
		c.Outcome("violation:" + s)
	}
	return exploreStats{res.Execs, res.Steps, res.Capped}
}

func allProgs(alpha []opk, n int) [][]opk {
	if n == 0 {
		return [][]opk{{}}
	}
	var out [][]opk
	for _, p := range allProgs(alpha, n-1) {
		for _, o := range alpha {
			out = append(out, append(append([]opk{}, p...), o))
		}
	}
	return out
}

type cfgT struct {
	cap     int
	prefill []string
	warm    int // store/delete pairs on private keys before anything else: positions the cache's internal removal counter
}

func selftest(c *runner.Ctx, race bool) {
	// 1. lost update + 2. clean + 3. deadlock + (race build) 4. race
	var mu vsync.Mutex
	var ctr int
	finals := map[int]int{}
	ex := &vsched.Explorer{Opt: vsched.Options{Bound: -1},
		Setup: func() []func() {
			ctr = 0
			body := func() {
				mu.Lock()
				t := ctr
				mu.Unlock()
				mu.Lock()
				ctr = t + 1
				mu.Unlock()
			}
			return []func(){body, body}
		},
		Check: func(x *vsched.Exec) bool { finals[ctr]++; return true }}
	before := raceLogSize()
	r := ex.Explore()
	if finals[1] == 0 || finals[2] == 0 || r.Diverged != "" || raceLogSize() != before {
		fmt.Fprintf(os.Stderr, "HARNESS-ERROR: engine self-test (lost update) failed: finals=%v execs=%d race-growth=%d\n", finals, r.Execs, raceLogSize()-before)
		os.Exit(3)
	}
	var a, b vsync.Mutex
	dl := 0
	ex = &vsched.Explorer{Opt: vsched.Options{Bound: -1},
		Setup: func() []func() {
			return []func(){func() { a.Lock(); b.Lock(); b.Unlock(); a.Unlock() }, func() { b.Lock(); a.Lock(); a.Unlock(); b.Unlock() }}
		},
		Check: func(x *vsched.Exec) bool {
			if x.Deadlock {
				dl++
			}
			return true
		}}
	r = ex.Explore()
	if dl == 0 || dl == int(r.Execs) {
		fmt.Fprintf(os.Stderr, "HARNESS-ERROR: engine self-test (deadlock) failed: %d/%d\n", dl, r.Execs)
		os.Exit(3)
	}
	// determinism: same schedule twice -> same trace
	x1 := ex.Replay([]int{1})
	x2 := ex.Replay([]int{1})
	if x1.TraceString() != x2.TraceString() {
		fmt.Fprintf(os.Stderr, "HARNESS-ERROR: replay not deterministic: %s vs %s\n", x1.TraceString(), x2.TraceString())
		os.Exit(3)
	}
	if race {
		shared := 0
		ex = &vsched.Explorer{Opt: vsched.Options{Bound: 1},
			Setup: func() []func() {
				return []func(){func() { vsched.Yield(); shared++ }, func() { vsched.Yield(); shared++ }}
			},
			Check: func(x *vsched.Exec) bool { return true }}
		before := raceLogSize()
		ex.Explore()
		if raceLogSize() <= before {
			fmt.Fprintf(os.Stderr, "HARNESS-ERROR: engine self-test: the race detector did not report a known unsynchronised access under the scheduler\n")
			os.Exit(3)
		}
		_ = shared
	}
	c.Note("engine self-test passed (lost update found, deadlock found, replay deterministic" + map[bool]string{true: ", known race reported, locked program silent", false: ""}[race] + ")")
}

func run(c *runner.Ctx) {
	race := c.Mode == "race"
	if race {
		// GORACE log_path=<prefix> is set by the runner
		for _, kv := range strings.Fields(os.Getenv("GORACE")) {
			if strings.HasPrefix(kv, "log_path=") {
				raceLog = strings.TrimPrefix(kv, "log_path=")
			}
		}
		if !vsched.RaceEnabled || raceLog == "" {
			fmt.Fprintln(os.Stderr, "HARNESS-ERROR: race mode without race build / log_path")
			os.Exit(3)
		}
	}
	if c.Worker == 0 && c.ReplayIdx < 0 {
		selftest(c, race)
	}
	linCache := map[string]bool{}
	pfx := c.Mode + ":"
	deadline := c.Deadline()

	// warm = 2*cap or 2*cap+1: the next one or two removals cross the cache's map-rebuild threshold inside the harness
	cfgs := []cfgT{{1, nil, 0}, {2, []string{"a"}, 0}, {2, []string{"a", "b"}, 0}, {0, nil, 0}, {1, []string{"a"}, 2}, {1, []string{"a"}, 3}}
	if c.Thorough() {
		cfgs = []cfgT{{0, nil, 0}, {1, nil, 0}, {1, []string{"a"}, 0}, {2, nil, 0}, {2, []string{"a"}, 0}, {2, []string{"a", "b"}, 0}, {2, []string{"b", "a"}, 0}, {3, []string{"a", "b"}, 0}, {3, []string{"a", "b", "c"}, 0},
			{1, []string{"a"}, 2}, {1, []string{"a"}, 3}, {2, []string{"a", "b"}, 4}, {2, []string{"a", "b"}, 5}, {0, nil, 1}}
	}
	p1 := allProgs(fullAlpha, 1)
	p2 := allProgs(fullAlpha, 2)
	r2 := allProgs(redAlpha, 2)

	type plan struct {
		name  string
		bound int
		gen   func(emit func(progs [][]opk))
		cfgs  []cfgT
		cb    bool
	}
	pairs := func(ps [][]opk) func(emit func([][]opk)) {
		return func(emit func([][]opk)) {
			for i := range ps {
				for j := i; j < len(ps); j++ {
					emit([][]opk{ps[i], ps[j]})
				}
			}
		}
	}
	triples := func(ps [][]opk) func(emit func([][]opk)) {
		return func(emit func([][]opk)) {
			for i := range ps {
				for j := i; j < len(ps); j++ {
					for k := j; k < len(ps); k++ {
						emit([][]opk{ps[i], ps[j], ps[k]})
					}
				}
			}
		}
	}
	quads := func(ps [][]opk) func(emit func([][]opk)) {
		return func(emit func([][]opk)) {
			for i := range ps {
				for j := i; j < len(ps); j++ {
					for k := j; k < len(ps); k++ {
						for l := k; l < len(ps); l++ {
							emit([][]opk{ps[i], ps[j], ps[k], ps[l]})
						}
					}
				}
			}
		}
	}
	r1 := allProgs(redAlpha, 1)
	// H2x3: one thread stores three times (continuous eviction), the other runs every 3-op program over {Load,Len,Dump,Delete}
	h2x3 := func(emit func([][]opk)) {
		writers := [][]opk{{{'S', "a"}, {'S', "b"}, {'S', "c"}}, {{'S', "c"}, {'S', "a"}, {'S', "c"}}}
		obs := allProgs([]opk{{'L', "a"}, {'L', "c"}, {'N', ""}, {'P', ""}, {'D', "a"}}, 3)
		for _, w := range writers {
			for _, o := range obs {
				emit([][]opk{w, o})
			}
		}
	}
	// dumps after a Dump of the empty cache: whatever a Dump that had nothing to print did with its scratch buffer, the
	// Dumps that follow - one of them overlapping another thread's - print their own state each
	dumpAfterEmptyDump := func(emit func([][]opk)) {
		t1s := [][]opk{{{'P', ""}, {'S', "a"}, {'P', ""}}, {{'P', ""}, {'S', "a"}, {'S', "b"}, {'P', ""}}, {{'P', ""}, {'P', ""}, {'S', "a"}, {'P', ""}}}
		t2s := append(allProgs([]opk{{'P', ""}, {'S', "b"}, {'L', "a"}, {'N', ""}, {'D', "a"}}, 1), allProgs([]opk{{'P', ""}, {'S', "b"}, {'L', "a"}}, 2)...)
		for _, a := range t1s {
			for _, b := range t2s {
				emit([][]opk{a, b})
			}
		}
	}
	emptyCfgs := []cfgT{{1, nil, 0}, {2, nil, 0}}
	var plans []plan
	if !race {
		if c.Thorough() {
			plans = []plan{
				{"H2x2-unbounded", -1, pairs(p2), cfgs, false},
				{"H3x1-unbounded", -1, triples(p1), cfgs, false},
				{"H2x3-bound3", 3, h2x3, cfgs[1:7], false},
				{"H3x2-bound2", 2, triples(r2), []cfgT{{1, nil, 0}, {2, []string{"a"}, 0}, {2, []string{"a", "b"}, 0}}, false},
				{"H4x1-bound3", 3, quads(p1), cfgs[:9], false},
			}
		} else {
			plans = []plan{
				{"H2x2-bound2", 2, pairs(p2), cfgs, false},
				{"H3x1-bound3", 3, triples(p1), cfgs, false},
				{"H2x3-bound2", 2, h2x3, cfgs[1:2], false},
				{"H4x1-bound1", 1, quads(r1), cfgs[:3], false},
			}
		}
	} else {
		if c.Thorough() {
			plans = []plan{
				{"H2x2-bound2", 2, pairs(p2), cfgs[:6], false},
				{"H3x1-bound2", 2, triples(p1), cfgs[:6], false},
			}
		} else {
			plans = []plan{
				{"H2x1-unbounded", -1, pairs(p1), cfgs, false},
				{"H2x2-bound1", 1, pairs(p2), cfgs[1:2], false},
			}
		}
	}
	if c.Thorough() {
		plans = append(plans, plan{"H2-dumps-after-a-dump-of-the-empty-cache-bound3", 3, dumpAfterEmptyDump, emptyCfgs, false})
	} else {
		plans = append(plans, plan{"H2-dumps-after-a-dump-of-the-empty-cache-bound2", 2, dumpAfterEmptyDump, emptyCfgs, false})
	}
	// faults: every pair of 2-operation programs over an alphabet in which operations fail inside the cache's critical
	// section (the user's removal callback panics; a key cannot be hashed) and the caller recovers
	if !race {
		faultAlpha := []opk{{'S', "a"}, {'S', "b"}, {'S', "c"}, {'D', "b"}, {'L', "b"}, {'U', "L"}, {'U', "S"}, {'U', "D"}, {'N', ""}}
		fp := allProgs(faultAlpha, 2)
		for _, cf := range []cfgT{{1, []string{"b"}, 0}, {2, []string{"b", "a"}, 0}} {
			c.Space(fmt.Sprintf("%sfaults-H2x2-bound1 cap=%d prefill=%v", pfx, cf.cap, cf.prefill))
			pairs(fp)(func(progs [][]opk) {
				if !c.Take() {
					return
				}
				h := harness{cap: cf.cap, prefill: cf.prefill, progs: progs, faults: true}
				exploreHarness(c, h, 1, race, linCache, deadline)
			})
		}
	}
	// with a removal callback that yields (both modes)
	cbCfgs := []cfgT{{1, []string{"a"}, 0}, {2, []string{"a", "b"}, 0}}
	if race {
		plans = append(plans, plan{"H2x2-bound1-callback-yields", 1, pairs(r2), cbCfgs[:1], true})
	} else if c.Thorough() {
		plans = append(plans, plan{"H2x2-bound3-callback-yields", 3, pairs(p2), cbCfgs, true}, plan{"H3x1-bound3-callback-yields", 3, triples(p1), cbCfgs, true})
	} else {
		plans = append(plans, plan{"H2x2-bound2-callback-yields", 2, pairs(r2), cbCfgs, true})
	}
	for _, pl := range plans {
		for _, cf := range pl.cfgs {
			c.Space(fmt.Sprintf("%s%s cap=%d prefill=%v warm=%d", pfx, pl.name, cf.cap, cf.prefill, cf.warm))
			pl.gen(func(progs [][]opk) {
				if !c.Take() {
					return
				}
				h := harness{cap: cf.cap, prefill: cf.prefill, progs: progs, warm: cf.warm, cbYield: pl.cb}
				st := exploreHarness(c, h, pl.bound, race, linCache, deadline)
				_ = st
				c.Sample(func() interface{} {
					return map[string]interface{}{"harness": h.String(), "bound": pl.bound, "schedules": st.execs, "mode": c.Mode}
				})
			})
			if c.Expired() {
				return
			}
		}
	}
}

func main() {
	runner.Main(runner.Config{
		Property:  "C10",
		Technique: "stateless model checking of the real LRUCache under a controlled scheduler (all interleavings / preemption-bounded), linearizability vs sequential model, race detector on every schedule",
		Rule: "case = one harness (capacity, pre-fill, 2-4 thread programs over Store/Load/Delete(a|b|c)/Len/Dump); for each, every schedule within the bound is executed on the real code; " +
			"transitions = scheduling steps; states = distinct call/return histories; non-trivial = harnesses in which two operations on the same key overlapped in some schedule",
		Assumptions: []string{"sequential consistency for race-free executions (race freedom itself is checked by the Go race detector on every explored schedule in the race build)",
			"RWMutex writer preference is not modelled (removes schedules, no reachable outcome)", "2-4 threads, <=3 operations per thread"},
		Run: run,
		Modes: []runner.Mode{
			{Name: "plain"},
			{Name: "race", BinarySuffix: ".race", Env: []string{"GORACE=log_path={W}.race halt_on_error=0 exitcode=0 atexit_sleep_ms=0 history_size=2"}},
		},
		QuickBudget:    5 * time.Minute,
		ThoroughBudget: 60 * time.Minute,
	})
}
