package main

import (
	"fmt"

	"gitee.com/xuesongtao/protoc-go-valid/valid"
	"verif/internal/runner"
	"verif/internal/walk"
)

// K1: tag names that are the tail / the head of a neighbouring key, and a tag value that mentions another key.
type K1 struct {
	A string `xa:"to=9~9|xa-A" a:"to=1~2|a-A" ab:"to=8~8|ab-A" b:"to=3~4|b-A"`
	B string `doc:"see a:\"to=7~7\" and b:\"eq=7\"" b:"required|b-B" a:"required|a-B"`
	C string `json:"c,omitempty" grpc_a:"eq=7|grpc-C" a_b:"eq=6|a_b-C" a:"eq=2|a-C"`
}

// K3 is reached from K2, whose rule lists hold empty entries (a trailing / leading / doubled separator); K3's own fields
// hold, among others, exactly the rules that stand next to K2's empty entries.
type K3 struct {
	W string `a:"required,to=1~2" b:"exist,required"`
	V string `a:"required|a-V,to=1~3|a-V2" b:"to=1~3|b-V,required|b-V2"`
	X []int  `a:"le=1|a-X,required" b:"required,le=1"`
}

type K2 struct {
	In K3   `a:"required," b:"exist,,"`
	P  *K3  `a:",exist" b:"required,"`
	L  []K3 `a:"required,,le=1|a-L" b:",exist,le=1,"`
}

// tagShapes: every 3-call history over {K1, K2, K3} x {tag a, tag b} (the first call again at the end) on every cache
// configuration; each call is judged by the walk model on the requested tag's rule text alone.
func tagShapes(c *runner.Ctx, d *deleg) {
	c.Space(c.Mode + ":tag-keys-that-contain-one-another-and-rule-lists-with-empty-entries")
	type tc struct {
		ty  string
		tag string
	}
	var all []tc
	for _, ty := range []string{"K1", "K2", "K3"} {
		for _, tag := range []string{"a", "b"} {
			all = append(all, tc{ty, tag})
		}
	}
	mk := func(ty string) interface{} {
		switch ty {
		case "K1":
			return &K1{A: "abcdef", B: "", C: "abc"}
		case "K2":
			return &K2{In: K3{V: "", W: "", X: []int{1, 2}}, P: &K3{V: "abcd", W: "abc", X: nil}, L: []K3{{V: "a", W: "", X: []int{1}}, {}}}
		}
		return &K3{V: "", W: "abc", X: []int{1, 2, 3}}
	}
	runOne := func(b tc) (string, string) {
		v := mk(b.ty)
		err := valid.ValidateStruct(v, b.tag)
		got := ""
		if err != nil {
			got = err.Error()
		}
		return got, walk.Struct(v, walk.Opts{Tag: b.tag}).Error()
	}
	for _, cf := range cfgs {
		for i := range all {
			for j := range all {
				for k := range all {
					if !c.Take() {
						continue
					}
					d.inner = cf.mk()
					seq := []tc{all[i], all[j], all[k], all[i]}
					for step, b := range seq {
						var got, want string
						pan, msg, site := runner.Guard(func() { got, want = runOne(b) })
						det := map[string]interface{}{"config": cf.name, "history (type, tag)": fmt.Sprint(seq[:step+1]), "expected": want, "actual": got}
						if pan {
							det["panic"] = msg
							c.Violation("panic@"+site, det)
							break
						}
						if got != want {
							c.Violation("tag-shapes/judged-by-other-rule-text", det)
							break
						}
					}
					c.Done(true, 4)
					c.Outcome("ok")
				}
			}
		}
	}
}
