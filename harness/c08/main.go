// C08 — the struct-type cache is transparent.
// E-seq over call histories x cache configurations x start states: every sequence of validation calls (type x tag
// name x per-call override) up to a depth, on LRU(0,1,2,3,8,512), sync.Map, an always-miss cache (switched in-process
// through a delegating CacheEr) and on the untouched package default; each result must equal the pure-function model
// of that call and be identical across configurations.
package main

import (
	"fmt"
	"reflect"
	"strings"
	"sync"
	"time"

	"gitee.com/xuesongtao/protoc-go-valid/valid"
	"verif/internal/enum"
	"verif/internal/runner"
	"verif/internal/walk"
)

type T1 struct {
	F string `a:"to=1~2|a-F" b:"to=1~5|b-F"`
	G int    `a:"le=9|a-G" b:"to=1~2|b-G"`
	// unexported fields carrying rule tags are never validated - whether the type is analysed now or served from the cache
	hidden string `a:"required|a-hidden" b:"required|b-hidden" valid:"required"`
	skip   *T1    `a:"required" b:"exist"`
}

type T2 struct {
	F    string    `a:"required|a-F" b:"eq=3|b-F"`
	When time.Time `a:"required" b:"required"`
	G    int       `a:"to=1~2|a-G" b:"ge=1|b-G"`
	N    *T1       `a:"exist" b:"required|b-N"`
}

type T3 struct {
	Stamp time.Time `a:"required" b:"required"`
	F     string    `a:"eq=3|a-F" b:"required|b-F"`
	L     []T1      `a:"required|a-L" b:"exist"`
	G     int       `a:"ge=7|a-G"`
}

// RA and RB refer to each other: analysing one type must not depend on the cache retaining the other.
type RA struct {
	F string `a:"to=1~2|a-RAF" b:"to=1~5|b-RAF"`
	B *RB    `a:"exist" b:"required|b-RAB"`
}

type RB struct {
	G int   `a:"le=3|a-RBG" b:"ge=9|b-RBG"`
	A *RA   `a:"exist" b:"exist"`
	L []*RA `a:"exist" b:"exist"`
}

// T4 holds two sub-objects of different types in front of fields with rules of their own: on a small cache its entry
// is evicted (and another type analysed) while its own field loop is still running.
type T4 struct {
	P    *T1    `a:"exist" b:"exist"`
	Q    *T5    `a:"exist" b:"required|b-Q"`
	F    string `a:"required|a-F4" b:"to=1~3|b-F4"`
	Mail string `a:"phone|a-Mail" b:"to=3~9|b-Mail"`
}

type T5 struct {
	K string `a:"required|a-K" b:"to=1~2|b-K"`
	N int    `a:"ge=1" b:"le=5|b-N"`
}

// T6 carries rules under the default tag name on every field but under tag a only on some: analysing it for one tag
// name must not borrow from what is cached for the other.
type T6 struct {
	A string `valid:"required|v-A"`
	B string `a:"required|a-B" valid:"to=1~2|v-B"`
	F string `a:"to=1~2|a-F6"`
}

var values = []interface{}{
	&T1{F: "abc", G: 5},
	&T2{F: "", G: 5, N: &T1{F: "abc", G: 5}},
	&T3{F: "", L: []T1{{F: "abcdef", G: 12}}, G: 5},
	&RA{F: "abc", B: &RB{G: 5, A: &RA{F: "abcdefg"}, L: []*RA{nil, {F: "x", B: &RB{G: 5}}}}},
	&T4{P: &T1{F: "abc", G: 5}, Q: &T5{K: "", N: 7}, F: "", Mail: "x"},
	&T6{A: "", B: "", F: "abc"},
}

type call struct {
	ty       int
	tag      string
	override bool
	// form: 0 = the tag name as it is; 1 = the empty tag name (no field carries rules under it); 2 = a second tag name
	// ("valid") passed after the first (the first one is the tag name of the call)
	form int
}

func (cl call) String() string {
	o := ""
	if cl.override {
		o = "+override(F)"
	}
	switch cl.form {
	case 1:
		return fmt.Sprintf("T%d/(empty tag name)%s", cl.ty+1, o)
	case 2:
		return fmt.Sprintf("T%d/%s,then valid%s", cl.ty+1, cl.tag, o)
	}
	return fmt.Sprintf("T%d/%s%s", cl.ty+1, cl.tag, o)
}

var overrideRM = map[string]string{"F": "eq=9|ovr-F"}

func calls() []call {
	var out []call
	for ty := 0; ty < len(values); ty++ {
		tags := []string{"a", "b"}
		if _, ok := values[ty].(*T6); ok {
			tags = []string{"valid", "a"}
		}
		for _, tag := range tags {
			for _, ov := range []bool{false, true} {
				out = append(out, call{ty: ty, tag: tag, override: ov})
			}
		}
		if _, ok := values[ty].(*T6); ok {
			for _, ov := range []bool{false, true} {
				out = append(out, call{ty: ty, tag: "", override: ov, form: 1}, call{ty: ty, tag: "a", override: ov, form: 2})
			}
		}
	}
	return out
}

func (cl call) run() error {
	if cl.override {
		rm := valid.RM{}
		for k, v := range overrideRM {
			rm[k] = v
		}
		if cl.form == 2 {
			return valid.StructForFn(values[cl.ty], rm, cl.tag, "valid")
		}
		return valid.StructForFn(values[cl.ty], rm, cl.tag)
	}
	if cl.form == 2 {
		return valid.ValidateStruct(values[cl.ty], cl.tag, "valid")
	}
	return valid.ValidateStruct(values[cl.ty], cl.tag)
}

func (cl call) model() string {
	o := walk.Opts{Tag: cl.tag}
	if cl.form == 1 {
		o.Tag = "no-field-has-this-tag" // the empty tag name selects no rules
	}
	if cl.override {
		o.Unscoped = overrideRM
	}
	return walk.Struct(values[cl.ty], o).Error()
}

// delegating cache: installed once, inner replaced per sequence.
type deleg struct {
	inner  valid.CacheEr
	loads  int          // Load calls since the last reset
	missAt map[int]bool // Load calls (by index) answered with a miss although the entry may be present
	// re-entry: the Store call (by index) after which reenter runs
	stores    int
	reenterAt int
	reenter   func()
	inside    bool
}

// A Load may legitimately miss an entry that was stored before (another goroutine evicted it, or has not stored it
// yet): the environment answer "miss at the i-th Load" is enumerated as a deviation.
func (d *deleg) Load(k interface{}) (interface{}, bool) {
	i := d.loads
	d.loads++
	if d.missAt[i] {
		return nil, false
	}
	return d.inner.Load(k)
}

// A Store makes the entry visible to every other user of the cache at once: the environment event "another caller
// validates right after the i-th Store became visible, before the storing call goes on" is enumerated as a deviation
// too (round 12) - sequentially, by making that call from inside Store after the inner cache has the entry.
func (d *deleg) Store(k, v interface{}) {
	d.inner.Store(k, v)
	i := d.stores
	d.stores++
	if i == d.reenterAt && d.reenter != nil && !d.inside {
		d.inside = true
		d.reenter()
		d.inside = false
	}
}

type missCache struct{}

func (missCache) Load(interface{}) (interface{}, bool) { return nil, false }
func (missCache) Store(k, v interface{})               {}

type cfg struct {
	name string
	mk   func() valid.CacheEr
	cap  int
}

var cfgs = []cfg{
	{"LRU(0)", func() valid.CacheEr { return valid.NewLRU(0) }, 0},
	{"LRU(1)", func() valid.CacheEr { return valid.NewLRU(1) }, 1},
	{"LRU(2)", func() valid.CacheEr { return valid.NewLRU(2) }, 2},
	{"LRU(3)", func() valid.CacheEr { return valid.NewLRU(3) }, 3},
	{"LRU(8)", func() valid.CacheEr { return valid.NewLRU(8) }, 8},
	{"LRU(512)", func() valid.CacheEr { return valid.NewLRU() }, 512},
	{"sync.Map", func() valid.CacheEr { return new(sync.Map) }, 1 << 30},
	{"always-miss", func() valid.CacheEr { return missCache{} }, 0},
}

var fillerSalt int

var fillerPool []reflect.Type // reused across sequences when the cache is fresh per sequence

func fillerType() reflect.Type {
	fillerSalt++
	return reflect.StructOf([]reflect.StructField{
		{Name: "A", Type: reflect.TypeOf(""), Tag: reflect.StructTag(fmt.Sprintf(`a:"required" b:"required" valid:"required" salt:"%d"`, fillerSalt))},
		{Name: "B", Type: reflect.TypeOf(""), Tag: `a:"required" b:"required" valid:"required"`},
		{Name: "C", Type: reflect.TypeOf(0), Tag: `a:"required" b:"required" valid:"required"`},
		{Name: "D", Type: reflect.TypeOf(""), Tag: `a:"required" b:"required" valid:"required"`},
	})
}

// fillers validates n distinct filler types (rules at every field index) to flush / populate the cache; every one
// that does not fit evicts an entry, so n - capacity evictions advance the LRU's hidden removal counter.
// fresh=false reuses a per-process pool of types (valid only when the cache instance is fresh per sequence).
func fillers(n int, fresh bool) {
	for i := 0; i < n; i++ {
		var st reflect.Type
		if fresh {
			st = fillerType()
		} else {
			for len(fillerPool) <= i {
				fillerPool = append(fillerPool, fillerType())
			}
			st = fillerPool[i]
		}
		p := reflect.New(st)
		_ = valid.ValidateStruct(p.Interface(), []string{"a", "b", "valid"}[i%3])
	}
}

func run(c *runner.Ctx) {
	all := calls()
	expect := make([]string, len(all))
	for i, cl := range all {
		expect[i] = cl.model()
	}
	depth := 3
	if c.Thorough() {
		depth = 4
	}
	defaultMode := c.Mode == "default"
	// direct<k>: the library's own LRU(k) handed to SetStructTypeCache as it is (no wrapper in between), so whatever
	// the library attaches to a cache of its own type is in play; set once per process, never replaced
	directCap := 0
	direct := strings.HasPrefix(c.Mode, "direct")
	fmt.Sscanf(c.Mode, "direct%d", &directCap)
	persistent := defaultMode || direct // one cache instance for the whole process: sequences chain
	var d *deleg
	if c.Mode == "directmap" {
		// the README's alternative cache, handed over as it is
		directCap = 1 << 30
		valid.SetStructTypeCache(new(sync.Map))
	} else if direct {
		valid.SetStructTypeCache(valid.NewLRU(directCap))
	} else if !defaultMode {
		d = &deleg{inner: missCache{}, reenterAt: -1}
		valid.SetStructTypeCache(d)
	}
	type start struct {
		name string
		prep func(cf cfg)
	}
	starts := []start{
		{"cold", func(cfg) {}},
		{"warm-other-tag", func(cfg) {
			for _, cl := range all {
				if cl.tag == "b" && !cl.override {
					_ = cl.run()
				}
			}
			for _, cl := range all {
				if cl.tag == "a" && cl.override {
					_ = cl.run()
				}
			}
		}},
		{"warm-then-flush", func(cf cfg) {
			for _, cl := range all {
				_ = cl.run()
			}
			n := cf.cap + 1
			if n > 600 {
				n = 600
			}
			fillers(n, persistent)
		}},
	}
	// churn-r: r evictions before the sequence starts, for every residue of the LRU's removal counter relative to its
	// map-rebuild threshold (2*capacity+2) - so the rebuild falls on every position of the next d calls
	churn := func(r int) start {
		return start{fmt.Sprintf("churn-%d", r), func(cf cfg) { fillers(cf.cap+r, persistent) }}
	}
	runCfgs := cfgs
	if defaultMode {
		runCfgs = []cfg{{"package-default", nil, 512}}
		depth = 3
	} else if direct {
		runCfgs = []cfg{{fmt.Sprintf("own-LRU(%d)-passed-directly", directCap), nil, directCap}}
		if c.Mode == "directmap" {
			runCfgs = []cfg{{"sync.Map-passed-directly", nil, directCap}}
			starts = starts[:2] // nothing is ever flushed from a sync.Map
		}
		depth = 3
	}
	for _, cf := range runCfgs {
		sts := starts
		if !defaultMode && (strings.HasPrefix(cf.name, "LRU(") || direct) && cf.cap >= 1 && cf.cap <= 8 {
			for r := 1; r <= 2*cf.cap+3; r++ {
				sts = append(sts, churn(r))
			}
		}
		if !defaultMode && cf.name == "LRU(512)" {
			// the package default size: 1024..1027 evictions before the sequence (its rebuild period is 2*512+2)
			for r := 1024; r <= 1027; r++ {
				sts = append(sts, churn(r))
			}
		}
		for _, st := range sts {
			c.Space(fmt.Sprintf("%s:%s/%s", c.Mode, cf.name, st.name))
			d2 := depth
			if defaultMode && st.name == "warm-then-flush" {
				d2 = 2 // every sequence re-flushes 513 types
			}
			if strings.HasPrefix(st.name, "churn-") && cf.cap == 8 {
				d2 = depth - 1
			}
			if strings.HasPrefix(st.name, "churn-") && cf.cap == 512 {
				d2 = depth - 2 // every sequence re-validates ~1540 filler types first
			}
			enum.Seqs(len(all), d2, func(seq []int) {
				if !c.Take() {
					return
				}
				if !persistent {
					d.inner = cf.mk()
				}
				var pan bool
				var msg, site string
				pan, msg, site = runner.Guard(func() { st.prep(cf) })
				if pan {
					c.Violation("panic-in-warmup@"+site, map[string]interface{}{"config": cf.name, "start": st.name, "panic": msg})
					return
				}
				var trace []string
				seenTag := map[int]string{}
				nt := false
				for pos, ci := range seq {
					cl := all[ci]
					var err error
					pan, msg, site = runner.Guard(func() { err = cl.run() })
					got := ""
					if err != nil {
						got = err.Error()
					}
					trace = append(trace, cl.String())
					if prev, ok := seenTag[cl.ty]; ok && prev != cl.tag {
						nt = true
					}
					seenTag[cl.ty] = cl.tag
					c.State(fmt.Sprintf("%s|%v", cf.name, seenTag))
					det := func() map[string]interface{} {
						return map[string]interface{}{"config": cf.name, "start": st.name, "sequence": strings.Join(trace, " ; "), "position": pos, "expected": expect[ci], "actual": got}
					}
					if pan {
						dd := det()
						dd["panic"] = msg
						c.Violation("panic@"+site, dd)
						break
					}
					if got != expect[ci] {
						kind := "result-depends-on-history"
						other := ""
						for j, o := range all {
							if o.ty == cl.ty && o.tag != cl.tag && o.override == cl.override {
								other = expect[j]
							}
						}
						if got == other {
							kind = "judged-by-other-tag"
						}
						for j, o := range all {
							if o.ty == cl.ty && o.tag == cl.tag && o.override != cl.override && got == expect[j] {
								kind = "stale-override"
							}
						}
						c.Outcome(kind)
						c.Violation(kind, det())
						break
					}
				}
				c.Done(nt, len(seq))
				c.Outcome("ok")
				c.Sample(func() interface{} {
					return map[string]interface{}{"config": cf.name, "start": st.name, "sequence": strings.Join(trace, " ; ")}
				})
			})
		}
	}
	if !persistent {
		manyTagNames(c, d)
		samePrintingTypes(c, d)
		twinTypes(c, d)
		spuriousMisses(c, d, all, expect, 3)
		lateRegistration(c, d)
		sharedRuleMap(c, d)
		blanksInTags(c, d)
		rulelessNested(c, d)
		tagShapes(c, d)
	}
}

// Two different types whose printed name is the same (types declared inside two functions): a cache entry belongs
// to a type, not to what the type prints as.
func localA() interface{} {
	type Order struct {
		Num  int    `a:"to=1~10|A-num" b:"required|A-b"`
		Note string `a:"required|A-note"`
	}
	return &Order{Num: 100, Note: ""}
}

func localB() interface{} {
	type Order struct {
		Note string `a:"to=1~2|B-note" b:"required|B-b"`
		Num  int    `a:"ge=500|B-num"`
		Qty  int    `a:"required|B-qty"`
	}
	return &Order{Num: 100, Note: "toolong"}
}

func samePrintingTypes(c *runner.Ctx, d *deleg) {
	c.Space(c.Mode + ":types-that-print-the-same")
	mk := []func() interface{}{localA, localB}
	for _, cf := range cfgs {
		for order := 0; order < 2; order++ {
			for _, tag := range []string{"a", "b"} {
				if !c.Take() {
					continue
				}
				d.inner = cf.mk()
				for step := 0; step < 4; step++ {
					v := mk[(order+step)%2]()
					want := walk.Struct(v, walk.Opts{Tag: tag}).Error()
					var err error
					pan, msg, site := runner.Guard(func() { err = valid.ValidateStruct(v, tag) })
					got := ""
					if err != nil {
						got = err.Error()
					}
					det := map[string]interface{}{"config": cf.name, "type": fmt.Sprintf("%T declared in function %d", v, (order+step)%2), "tag": tag, "step": step, "expected": want, "actual": got}
					if pan {
						det["panic"] = msg
						c.Violation("panic@"+site, det)
						break
					}
					if got != want {
						c.Violation("same-printing-types/judged-as-the-other-type", det)
						break
					}
				}
				c.Done(true, 4)
				c.Outcome("ok")
			}
		}
	}
}

// manyTagNames: one type validated under 300 distinct tag names (forwards, then backwards): each call is judged by the
// tag name it asked for, however many names the process has seen.
func manyTagNames(c *runner.Ctx, d *deleg) {
	c.Space(c.Mode + ":many-tag-names")
	const n = 300
	var tag strings.Builder
	for i := 0; i < n; i++ {
		if i%7 == 0 {
			fmt.Fprintf(&tag, `p%03d:"required|m%d" `, i, i)
		} else if i%7 == 3 {
			fmt.Fprintf(&tag, `p%03d:"to=1~2|m%d" `, i, i)
		}
	}
	st := reflect.StructOf([]reflect.StructField{{Name: "A", Type: reflect.TypeOf(""), Tag: reflect.StructTag(tag.String())}, {Name: "B", Type: reflect.TypeOf(0), Tag: `p000:"ge=5|b0" p256:"le=1|b256" p299:"required|b299"`}})
	for _, cf := range cfgs {
		if !c.Take() {
			continue
		}
		d.inner = cf.mk()
		order := make([]int, 0, 2*n)
		for i := 0; i < n; i++ {
			order = append(order, i)
		}
		for i := n - 1; i >= 0; i-- {
			order = append(order, i)
		}
		for pos, i := range order {
			name := fmt.Sprintf("p%03d", i)
			p := reflect.New(st)
			p.Elem().Field(1).SetInt(3)
			want := walk.Struct(p.Interface(), walk.Opts{Tag: name}).Error()
			var err error
			pan, msg, site := runner.Guard(func() { err = valid.ValidateStruct(p.Interface(), name) })
			got := ""
			if err != nil {
				got = err.Error()
			}
			if pan {
				c.Violation("panic@"+site, map[string]interface{}{"config": cf.name, "tag_name": name, "panic": msg})
				break
			}
			if explainOnly(got) != explainOnly(want) {
				c.Violation("many-tag-names/judged-by-another-tag-name", map[string]interface{}{"config": cf.name, "tag_name": name, "call_number": pos, "expected": want, "actual": got})
				break
			}
		}
		c.Done(true, 2*n)
		c.Outcome("ok")
	}
}

// Tags written with blanks around the rule separator (and at the ends). Whatever the library makes of such a tag, it
// makes the same of it on every call: the reference for each call is its result on the always-miss configuration as
// the first call of a process-fresh type, and every 3-call history on every configuration must reproduce it.
type B1 struct {
	F string `a:"required|a-B1F , to=1~2|a-B1F2" b:" to=1~5|b-B1F ,required|b-B1Fr "`
	G int    `a:"le=9|a-B1G, ge=7|a-B1G2" b:"to=1~2|b-B1G"`
}

type B2 struct {
	K string `a:" required|a-B2K ,to=3~4|a-B2K2 " b:"to=1~2|b-B2K , required|b-B2Kr"`
	N int    `a:"ge=100|a-B2N ,\tle=3|a-B2N2" b:"required|b-B2N , ge=50|b-B2N2"`
	M string `a:"to=7~9|a-B2M , required" b:" to=7~9|b-B2M"`
}

type B3 struct {
	Z string `a:"eq=3|a-B3Z, in=(x/y)|a-B3Z2 " b:"required|b-B3Z,  to=1~1|b-B3Z2"`
	B *B1    `a:"exist , required|a-B3B" b:" exist"`
}

func blanksInTags(c *runner.Ctx, d *deleg) {
	c.Space(c.Mode + ":blanks-around-the-rule-separator")
	vals := []func() interface{}{
		func() interface{} { return &B1{F: "abc", G: 12} },
		func() interface{} { return &B2{K: "", N: 5, M: "abc"} },
		func() interface{} { return &B3{Z: "ab", B: &B1{F: "", G: 8}} },
	}
	type bc struct {
		ty  int
		tag string
	}
	var all []bc
	for ty := range vals {
		for _, tag := range []string{"a", "b"} {
			all = append(all, bc{ty, tag})
		}
	}
	runOne := func(b bc) (string, bool, string, string) {
		var err error
		pan, msg, site := runner.Guard(func() { err = valid.ValidateStruct(vals[b.ty](), b.tag) })
		if err != nil {
			return err.Error(), pan, msg, site
		}
		return "", pan, msg, site
	}
	d.inner = missCache{}
	ref := map[bc]string{}
	for _, b := range all {
		r, pan, msg, site := runOne(b)
		if pan {
			c.Violation("panic@"+site, map[string]interface{}{"call": fmt.Sprintf("B%d/%s", b.ty+1, b.tag), "panic": msg})
			return
		}
		ref[b] = r
	}
	for _, cf := range cfgs {
		for i := range all {
			for j := range all {
				for k := range all {
					if !c.Take() {
						continue
					}
					d.inner = cf.mk()
					seq := []bc{all[i], all[j], all[k], all[i]}
					for step, b := range seq {
						got, pan, msg, site := runOne(b)
						det := map[string]interface{}{"config": cf.name, "history": fmt.Sprint(seq[:step+1]), "call": fmt.Sprintf("B%d/%s", b.ty+1, b.tag), "result_on_a_cache_that_never_holds_anything": ref[b], "actual": got}
						if pan {
							det["panic"] = msg
							c.Violation("panic@"+site, det)
							break
						}
						if got != ref[b] {
							c.Violation("blanks-in-tags/result-depends-on-cache-history", det)
							break
						}
					}
					c.Done(true, 4)
					c.Outcome("ok")
				}
			}
		}
	}
}

// N7 has rules under tag a only; N8 reaches it as a nested object under both tags. What the cache keeps about N7 for
// tag b (a type without any rule there) must not stand in the way of a later call that brings rules for it.
type N7 struct {
	F string `a:"to=1~2|a-F7"`
	G int
}

type N8 struct {
	N *N7    `a:"exist" b:"exist"`
	L []N7   `a:"exist" b:"exist"`
	F string `a:"required|a-F8" b:"required|b-F8"`
}

func rulelessNested(c *runner.Ctx, d *deleg) {
	c.Space(c.Mode + ":type-without-rules-under-one-tag-met-nested-first")
	type nc struct {
		outer    bool // N8 (true) or N7 alone
		tag      string
		override int // 0 none, 1 Struct-style untargeted rule set, 2 rule set targeted at N7
	}
	var all []nc
	for _, outer := range []bool{true, false} {
		for _, tag := range []string{"a", "b"} {
			for ov := 0; ov < 3; ov++ {
				all = append(all, nc{outer, tag, ov})
			}
		}
	}
	rm := map[string]string{"F": "eq=9|ovr-F", "G": "ge=5|ovr-G"}
	mkVal := func(b nc) interface{} {
		if b.outer {
			return &N8{N: &N7{F: "abc", G: 1}, L: []N7{{F: "abcd", G: 2}}, F: ""}
		}
		return &N7{F: "abc", G: 1}
	}
	runOne := func(b nc) (string, string) {
		v := mkVal(b)
		o := walk.Opts{Tag: b.tag}
		var err error
		switch b.override {
		case 0:
			err = valid.ValidateStruct(v, b.tag)
		case 1:
			o.Unscoped = rm
			err = valid.StructForFn(v, toRM(rm), b.tag)
		case 2:
			o.Typed = map[reflect.Type]map[string]string{reflect.TypeOf(N7{}): rm}
			err = valid.NewVStruct(b.tag).SetRule(toRM(rm), &N7{}).Valid(v)
		}
		got := ""
		if err != nil {
			got = err.Error()
		}
		return got, walk.Struct(v, o).Error()
	}
	for _, cf := range cfgs {
		for i := range all {
			for j := range all {
				for k := range all {
					if !c.Take() {
						continue
					}
					d.inner = cf.mk()
					seq := []nc{all[i], all[j], all[k]}
					for step, b := range seq {
						var got, want string
						pan, msg, site := runner.Guard(func() { got, want = runOne(b) })
						det := map[string]interface{}{"config": cf.name, "history (outermost is N8, tag, override kind)": fmt.Sprint(seq[:step+1]), "expected": want, "actual": got}
						if pan {
							det["panic"] = msg
							c.Violation("panic@"+site, det)
							break
						}
						if got != want {
							c.Violation("ruleless-nested-type/call-rules-ignored-or-misapplied", det)
							break
						}
					}
					c.Done(true, 3)
					c.Outcome("ok")
				}
			}
		}
	}
}

func toRM(m map[string]string) valid.RM {
	r := valid.RM{}
	for k, v := range m {
		r[k] = v
	}
	return r
}

// explainOnly keeps the explanation parts (the type name of an unnamed struct is long and holds separators).
func explainOnly(e string) string {
	var out []string
	for _, p := range strings.Split(e, "explain: ")[1:] {
		if k := strings.Index(p, ";"); k >= 0 {
			p = p[:k]
		}
		out = append(out, p)
	}
	return strings.Join(out, "|")
}

// sharedRuleMap: one rule-map object is passed to successive calls and edited in place between them (same address,
// same number of keys): each call is judged by what the map holds at the time of the call.
func sharedRuleMap(c *runner.Ctx, d *deleg) {
	c.Space(c.Mode + ":rule-map-edited-in-place")
	texts := []map[string]string{{"F": "eq=9|ovr-F"}, {"F": "eq=3|ovr2-F"}, {"G": "eq=1|ovr-G"}, {"F": "to=1~2|ovr3-F"}, {"F": "eq=9|ovr-F"}}
	for _, cf := range cfgs {
		for ty := range values {
			for _, tag := range []string{"a", "b"} {
				for start := 0; start < len(texts); start++ {
					if !c.Take() {
						continue
					}
					d.inner, d.loads, d.missAt = cf.mk(), 0, nil
					rm := valid.RM{}
					var trace []string
					for k := 0; k < len(texts); k++ {
						cur := texts[(start+k)%len(texts)]
						for key := range rm {
							delete(rm, key)
						}
						for key, v := range cur {
							rm[key] = v
						}
						want := walk.Struct(values[ty], walk.Opts{Tag: tag, Unscoped: cur}).Error()
						got := ""
						if err := valid.StructForFn(values[ty], rm, tag); err != nil {
							got = err.Error()
						}
						trace = append(trace, fmt.Sprint(cur))
						if got != want {
							c.Violation("stale-rule-map-content", map[string]interface{}{"config": cf.name, "type": fmt.Sprintf("T%d/%s", ty+1, tag), "rule_map_history": trace, "expected": want, "actual": got})
							break
						}
					}
					c.Done(true, len(texts))
				}
			}
		}
	}
}

var lateSeq int

// lateRegistration: the global function table changes between two validations of one type (a name that was unknown is
// registered). What a call resolves is the table at call time, whatever the cache kept about the type: the history
// "validate, register, validate" gives the same results on every cache configuration (always-miss included).
func lateRegistration(c *runner.Ctx, d *deleg) {
	c.Space(c.Mode + ":late-registration")
	for _, cf := range cfgs {
		for _, warmTag := range []bool{false, true} {
			if !c.Take() {
				continue
			}
			lateSeq++
			name := fmt.Sprintf("late%d", lateSeq*64+c.Worker)
			st := reflect.StructOf([]reflect.StructField{
				{Name: "F", Type: reflect.TypeOf(""), Tag: reflect.StructTag(`a:"` + name + `,le=3|a-F" b:"le=2|b-F,` + name + `"`)},
				{Name: "N", Type: reflect.TypeOf(0), Tag: `a:"ge=7|a-N" b:"ge=9|b-N"`},
			})
			p := reflect.New(st)
			p.Elem().Field(0).SetString("toolong")
			p.Elem().Field(1).SetInt(8)
			d.inner, d.loads, d.missAt = cf.mk(), 0, nil
			call := func(tag string) string {
				err := valid.ValidateStruct(p.Interface(), tag)
				if err == nil {
					return ""
				}
				return err.Error()
			}
			if warmTag {
				_ = call("b")
			}
			unknown := `valid "` + name + `" is not exist, You can call SetValidFn`
			type step struct{ what, got, want string }
			steps := []step{{"a before registration", call("a"), unknown + `; "F" input "toolong", explain: a-F`}}
			valid.SetCustomerValidFn(name, func(errBuf *strings.Builder, validName, objName, fieldName string, tv reflect.Value) {
				errBuf.WriteString(valid.GetJoinValidErrStr(objName, fieldName, tv.String(), valid.ExplainEn, "global-"+name))
			})
			steps = append(steps, step{"a after registration", call("a"), `"F" input "toolong", explain: global-` + name + `; "F" input "toolong", explain: a-F`},
				step{"b after registration", call("b"), `"F" input "toolong", explain: b-F; "F" input "toolong", explain: global-` + name + `; "N" input "8", explain: b-N`},
				step{"a again", call("a"), `"F" input "toolong", explain: global-` + name + `; "F" input "toolong", explain: a-F`})
			c.Done(true, len(steps))
			for _, s := range steps {
				if s.got != s.want {
					c.Violation("result-depends-on-when-the-type-was-first-seen", map[string]interface{}{"config": cf.name, "warmed_under_other_tag": warmTag, "step": s.what, "expected": s.want, "actual": s.got})
					break
				}
			}
		}
	}
}

// spuriousMisses: every sequence again with one (thorough: also two) of its cache loads answered with a miss.
func spuriousMisses(c *runner.Ctx, d *deleg, all []call, expect []string, depth int) {
	for _, cf := range cfgs {
		if cf.name != "LRU(1)" && cf.name != "LRU(2)" && cf.name != "LRU(512)" && cf.name != "sync.Map" {
			continue
		}
		c.Space(fmt.Sprintf("%s:%s/spurious-load-miss", c.Mode, cf.name))
		enum.Seqs(len(all), depth, func(seq []int) {
			if !c.Take() {
				return
			}
			runOnce := func(miss map[int]bool) (int, bool) {
				d.inner, d.loads, d.missAt, d.stores = cf.mk(), 0, miss, 0
				defer func() { d.missAt = nil }()
				var trace []string
				for pos, ci := range seq {
					cl := all[ci]
					var err error
					pan, msg, site := runner.Guard(func() { err = cl.run() })
					got := ""
					if err != nil {
						got = err.Error()
					}
					trace = append(trace, cl.String())
					if pan || got != expect[ci] {
						var ms []int
						for k := range miss {
							ms = append(ms, k)
						}
						det := map[string]interface{}{"config": cf.name, "sequence": strings.Join(trace, " ; "), "position": pos, "loads_answered_with_miss": ms, "expected": expect[ci], "actual": got}
						if pan {
							det["panic"] = msg
							c.Violation("panic@"+site+"/after-spurious-miss", det)
						} else {
							c.Violation("result-depends-on-cache-answer", det)
						}
						return d.loads, false
					}
				}
				return d.loads, true
			}
			n, ok := runOnce(nil)
			runs := 1
			// a second caller right after each Store: the call in progress is made again (same type, same tag), and the
			// other calls of the menu on the same type; both it and the interrupted call give their fresh-state result
			nStores := d.stores
			for sp := 0; ok && sp < nStores; sp++ {
				for _, ri := range seq {
					rc := all[ri]
					bad := ""
					d.reenterAt = sp
					d.reenter = func() {
						var err error
						pan, msg, _ := runner.Guard(func() { err = rc.run() })
						got := ""
						if err != nil {
							got = err.Error()
						}
						if pan {
							bad = "panic: " + msg
						} else if got != expect[ri] {
							bad = got
						}
					}
					_, ok2 := runOnce(nil)
					d.reenterAt, d.reenter = -1, nil
					runs++
					if bad != "" {
						var names []string
						for _, ci := range seq {
							names = append(names, all[ci].String())
						}
						c.Violation("second-caller-right-after-a-store-sees-an-unfinished-entry", map[string]interface{}{"config": cf.name, "sequence": strings.Join(names, " ; "), "store_index": sp, "second_call": rc.String(), "expected": expect[ri], "actual": bad})
						ok = false
						break
					}
					if !ok2 {
						ok = false
						break
					}
				}
			}
			for p := 0; ok && p < n; p++ {
				if _, ok2 := runOnce(map[int]bool{p: true}); !ok2 {
					break
				}
				runs++
				if c.Thorough() {
					for q := p + 1; q < n+1; q++ {
						if _, ok3 := runOnce(map[int]bool{p: true, q: true}); !ok3 {
							break
						}
						runs++
					}
				}
			}
			c.Done(true, runs*len(seq))
			c.Outcome("ok")
		})
	}
}

func main() {
	runner.Main(runner.Config{
		Property:  "C08",
		Technique: "explicit enumeration of all call histories up to a depth x cache configurations x start states on the real code vs pure-function model (cross-configuration differential)",
		Rule: "(round 12: on LRU(1), LRU(2), LRU(512) and sync.Map, every depth-3 sequence also with a second caller - each call of the sequence in turn - made from inside each Store right after the inner cache holds the entry: what a goroutine sees that finds the entry the moment it is published) calls = 6 types (one with rules under the default tag name on every field but under tag a only on some; nested, time.Time fields, a pair of mutually recursive types, two sub-objects of different types in front of ruled fields) x tag names {a,b} (different rules per tag on the same fields; the value violates the a-rules on one field and the b-rules on another) x {tag rules, per-call override of the shared field}; " +
			"all sequences of length d (3 quick, 4 thorough) from 3 start states (cold, warmed under the other tag / with overrides, warmed then flushed by capacity+1 filler types) on 8 cache configurations switched in-process, plus, for the bounded LRUs of capacity 1,2,3,8, the start states churn-r (r = 1..2*capacity+3 evictions before the sequence, and 1024..1027 for the default-size LRU(512): every position of the LRU's internal map rebuild relative to the next d calls) " +
			"and on the untouched package default and on the library's own LRU(0) / LRU(1) / LRU(2) handed to SetStructTypeCache directly (separate worker sets, one cache instance per process so sequences chain); and every depth-3 sequence on LRU(1), LRU(2), LRU(512), sync.Map with one (thorough: one or two) of its cache loads answered with a miss although the entry is present (the answer a concurrent eviction produces); three types whose tags hold blanks around the rule separator (every 3-call history plus the first call again on every configuration, reference = the always-miss configuration); one rule-map object edited in place between successive calls, and the history (validate, register a global function for a name the type uses, validate) on every configuration; every call compared with walk(type, tag, override, value); states = (configuration, per-type last tag) ; non-trivial = a type re-validated under the other tag",
		Assumptions: []string{"walk model internal/walk", "the global cache is replaced through the public SetStructTypeCache only"},
		Run:         run,
		Modes:       []runner.Mode{{Name: "inproc"}, {Name: "default", Workers: 8}, {Name: "direct0", Workers: 2}, {Name: "directmap", Workers: 2}, {Name: "direct1", Workers: 3}, {Name: "direct2", Workers: 3}},
	})
}

// twinTypes (round 13): struct types that agree in every field name and every rule text and differ only in the Go type
// of one field (string / int / time.Time / *time.Time / []string / a struct): a cached description belongs to the type
// it was made for. Every ordered pair is validated first-then-second on every configuration; each call is judged by the
// walk model of its own type.
func twinTypes(c *runner.Ctx, d *deleg) {
	c.Space(c.Mode + ":types-that-differ-only-in-a-field-type")
	type inner struct {
		V string `valid:"required|in-v" a:"required|in-v"`
	}
	kinds := []struct {
		name string
		t    reflect.Type
		set  func(v reflect.Value, bad bool)
	}{
		{"string", reflect.TypeOf(""), func(v reflect.Value, bad bool) {
			if !bad {
				v.SetString("ab")
			}
		}},
		{"int", reflect.TypeOf(0), func(v reflect.Value, bad bool) {
			if !bad {
				v.SetInt(2)
			}
		}},
		{"time.Time", reflect.TypeOf(time.Time{}), func(v reflect.Value, bad bool) {
			if !bad {
				v.Set(reflect.ValueOf(time.Unix(1, 0)))
			}
		}},
		{"*time.Time", reflect.TypeOf(&time.Time{}), func(v reflect.Value, bad bool) {
			if !bad {
				t := time.Unix(1, 0)
				v.Set(reflect.ValueOf(&t))
			}
		}},
		{"[]string", reflect.TypeOf([]string{}), func(v reflect.Value, bad bool) {
			if !bad {
				v.Set(reflect.ValueOf([]string{"a", "b"}))
			}
		}},
		{"struct", reflect.TypeOf(inner{}), func(v reflect.Value, bad bool) {
			if !bad {
				v.Set(reflect.ValueOf(inner{V: "x"}))
			}
		}},
	}
	mk := func(k int) reflect.Type {
		return reflect.StructOf([]reflect.StructField{
			{Name: "Name", Type: reflect.TypeOf(""), Tag: `valid:"required|n" a:"to=1~3|n-a"`},
			{Name: "At", Type: kinds[k].t, Tag: `valid:"required|at" a:"required|at-a,ge=2|at-ge"`},
			{Name: "Tail", Type: reflect.TypeOf(0), Tag: `valid:"ge=5|tail" a:"required|tail-a"`},
		})
	}
	for _, cf := range cfgs {
		for i := range kinds {
			for j := range kinds {
				if i == j || !c.Take() {
					continue
				}
				d.inner = cf.mk()
				for _, tag := range []string{"valid", "a"} {
					for step, k := range []int{i, j, i, j} {
						for _, bad := range []bool{true, false} {
							p := reflect.New(mk(k))
							p.Elem().Field(0).SetString("abcd")
							kinds[k].set(p.Elem().Field(1), bad)
							p.Elem().Field(2).SetInt(1)
							var err error
							pan, msg, site := runner.Guard(func() { err = valid.ValidateStruct(p.Interface(), tag) })
							got := ""
							if err != nil {
								got = err.Error()
							}
							want := walk.Struct(p.Interface(), walk.Opts{Tag: tag}).Error()
							det := map[string]interface{}{"config": cf.name, "field_type": kinds[k].name, "other_type_of_the_pair": kinds[[]int{j, i, j, i}[step]].name, "tag": tag, "step": step, "field_left_empty": bad, "expected": want, "actual": got}
							if pan {
								det["panic"] = msg
								c.Violation("panic@"+site, det)
							} else if got != want {
								c.Violation("twin-types/judged-by-the-description-of-the-other-type", det)
							}
						}
					}
				}
				c.Done(true, 16)
				c.Outcome("ok")
			}
		}
	}
}
