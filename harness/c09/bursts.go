package main

import (
	"fmt"
	"math"

	"gitee.com/xuesongtao/protoc-go-valid/valid"
	"verif/internal/lrumodel"
	"verif/internal/runner"
)

// bursts: a full cache, then n operations of one kind with no insertion or removal among them (hits that alternate
// between two keys, hits that cycle through all keys, hits of one key, misses, Len, re-stores of equal values), then one
// decisive Load, then a Store that overflows: the victim is the entry least recently stored or loaded, whatever
// happened - or was put off - during the burst. Every step is compared with the model.
func bursts(c *runner.Ctx) {
	c.Space("bursts-between-writes")
	ns := []int{1, 2, 3, 5, 8, 16, 31, 32, 33, 63, 64, 65, 66, 100, 127, 128, 129, 130, 255, 256, 257, 300, 511, 512, 513, 1000, 1025, 2049}
	kinds := []string{"hits-alternating-2", "hits-cycling-all", "hits-one-key", "misses", "len", "store-same-alternating-2", "hits-and-misses"}
	for _, capacity := range []int{1, 2, 3, 4, 16} {
		for _, kind := range kinds {
			for _, n := range ns {
				for decisive := 0; decisive < capacity && decisive < 4; decisive++ {
					if !c.Take() {
						continue
					}
					burstOne(c, capacity, kind, n, decisive)
					c.Sample(func() interface{} {
						return map[string]interface{}{"capacity": capacity, "burst": kind, "length": n, "decisive_load": decisive}
					})
				}
			}
		}
	}
}

func burstOne(c *runner.Ctx, capacity int, kind string, n, decisive int) {
	lru := valid.NewLRU(capacity)
	var log []cbrec
	lru.SetDelCallBackFn(func(k, v interface{}) { log = append(log, cbrec{fmt.Sprint(k), v}) })
	m := lrumodel.New(capacity)
	calls := 0
	key := func(i int) string { return fmt.Sprintf("k%d", i) }
	bad := false
	fail := func(step, what string) {
		if !bad {
			c.Violation("burst/"+what, map[string]interface{}{"capacity": capacity, "burst": kind, "length": n, "decisive_load": key(decisive), "step": step})
		}
		bad = true
	}
	load := func(step, k string) {
		v, ok := lru.Load(k)
		mv, mok := m.Load(k)
		calls++
		if ok != mok || (ok && !eqv(v, mv)) {
			fail(step, "load-mismatch")
		}
	}
	store := func(k string, v interface{}) {
		lru.Store(k, v)
		m.Store(k, v)
		calls++
	}
	audit := func(step string) {
		if got := lru.Len(); got != m.Len() {
			what := "len-mismatch"
			if got == -1 {
				what = "len-sentinel"
			} else if got > capacity {
				what = "len-over-capacity"
			}
			fail(step, what)
		}
		calls++
		if len(log) != len(m.Log) {
			fail(step, "callback-count")
			return
		}
		for i := range log {
			if log[i].k != m.Log[i].K || log[i].v != m.Log[i].V {
				fail(step, "callback-key-or-value")
				return
			}
		}
	}
	for i := 0; i < capacity; i++ {
		store(key(i), "v"+key(i))
	}
	for i := 0; i < n && !bad; i++ {
		step := fmt.Sprintf("burst[%d]", i)
		switch kind {
		case "hits-alternating-2":
			load(step, key(i%2%capacity))
		case "hits-cycling-all":
			load(step, key(i%capacity))
		case "hits-one-key":
			load(step, key(capacity-1))
		case "misses":
			load(step, fmt.Sprintf("absent%d", i%3))
		case "len":
			audit(step)
		case "store-same-alternating-2":
			k := key(i % 2 % capacity)
			store(k, "v"+k)
		case "hits-and-misses":
			if i%2 == 0 {
				load(step, key((i/2)%capacity))
			} else {
				load(step, "absent")
			}
		}
	}
	load("decisive-load", key(decisive))
	store("new1", 1)
	audit("after-overflowing-store")
	store("new2", 2)
	audit("after-second-overflowing-store")
	for i := 0; i < capacity; i++ {
		load("audit-load", key(i))
	}
	load("audit-load", "new1")
	load("audit-load", "new2")
	audit("end")
	c.Done(true, calls)
	if !bad {
		c.Outcome("ok")
	}
}

// ifaceKey: a comparable key type whose hashability depends on the value held in its interface-typed part.
type ifaceKey struct {
	N   int
	Arg interface{}
}

// valueDependentKeys: an operation with a key whose dynamic content cannot be hashed is Go's own refusal (the caller
// recovers); the comparable keys of the same type used before and after it are keys like any other.
func valueDependentKeys(c *runner.Ctx) {
	c.Space("keys-whose-hashability-depends-on-the-value")
	type kop struct {
		kind byte // S L D
		key  interface{}
		name string
	}
	bads := []kop{
		{'S', ifaceKey{1, []int{1}}, "Store(ifaceKey{1, []int{1}})"}, {'L', ifaceKey{1, map[string]int{}}, "Load(ifaceKey{1, map})"}, {'D', ifaceKey{2, func() {}}, "Delete(ifaceKey{2, func})"},
		{'S', [2]interface{}{1, []int{1}}, "Store([2]interface{}{1, []int{1}})"}, {'L', [2]interface{}{[]string{"x"}, 2}, "Load([2]interface{}{[]string, 2})"},
	}
	goodKeys := []interface{}{ifaceKey{1, 7}, ifaceKey{1, "x"}, ifaceKey{2, nil}, [2]interface{}{1, 2}, [2]interface{}{"a", nil}}
	for _, capacity := range []int{1, 2, 3} {
		for bi, b := range bads {
			for when := 0; when < 3; when++ { // the refused operation comes first / after the first good store / on another cache
				if !c.Take() {
					continue
				}
				lru := valid.NewLRU(capacity)
				var log []cbrec
				lru.SetDelCallBackFn(func(k, v interface{}) { log = append(log, cbrec{fmt.Sprint(k), v}) })
				m := lrumodel.New(capacity)
				calls := 0
				det := map[string]interface{}{"capacity": capacity, "refused_operation": b.name, "position": []string{"first", "after the first store", "on another cache, first"}[when]}
				refuse := func(target *valid.LRUCache) {
					func() {
						defer func() { recover() }()
						switch b.kind {
						case 'S':
							target.Store(b.key, "never")
						case 'L':
							target.Load(b.key)
						default:
							target.Delete(b.key)
						}
					}()
					calls++
				}
				if when == 0 {
					refuse(lru)
				}
				if when == 2 {
					refuse(valid.NewLRU(2))
				}
				ok := true
				for i, k := range goodKeys {
					label := fmt.Sprint(k)
					lru.Store(k, i)
					m.Store(label, i)
					calls++
					if when == 1 && i == 0 {
						refuse(lru)
					}
					v, hit := lru.Load(k)
					mv, mhit := m.Load(label)
					calls++
					if hit != mhit || (hit && !eqv(v, mv)) {
						c.Violation("value-dependent-keys/load-mismatch", det)
						ok = false
						break
					}
					if lru.Len() != m.Len() {
						c.Violation("value-dependent-keys/len-mismatch", det)
						ok = false
						break
					}
				}
				if ok {
					lru.Delete(goodKeys[len(goodKeys)-1])
					m.Delete(fmt.Sprint(goodKeys[len(goodKeys)-1]))
					calls++
					if lru.Len() != m.Len() || len(log) != len(m.Log) {
						c.Violation("value-dependent-keys/delete-or-callback-mismatch", det)
						ok = false
					}
				}
				_ = bi
				c.Done(true, calls)
				if ok {
					c.Outcome("ok")
				}
			}
		}
	}
}

// irreflexiveKeys: keys that are not equal to themselves (a NaN, a struct or array that holds one). Go's maps accept
// them; every Store of such a key is a new entry that no Load can find again. The cache still has to stay within its
// capacity and keep Len truthful while such entries are evicted.
func irreflexiveKeys(c *runner.Ctx) {
	c.Space("keys-not-equal-to-themselves")
	nan := math.NaN()
	keys := []struct {
		name string
		k    interface{}
	}{{"NaN", nan}, {"float32 NaN", float32(nan)}, {"struct{F float64}{NaN}", struct{ F float64 }{nan}}, {"[2]float64{1, NaN}", [2]float64{1, nan}}}
	for _, capacity := range []int{1, 2, 3} {
		for _, k := range keys {
			for pre := 0; pre <= 2; pre++ { // ordinary entries stored before
				if !c.Take() {
					continue
				}
				lru := valid.NewLRU(capacity)
				evicted := 0
				lru.SetDelCallBackFn(func(_, _ interface{}) { evicted++ })
				for i := 0; i < pre; i++ {
					lru.Store(i, i)
				}
				lru.Store(k.k, "x")
				for i := 0; i < capacity; i++ { // pushes the entry out
					lru.Store(100+i, i)
				}
				det := map[string]interface{}{"capacity": capacity, "key": k.name, "ordinary_entries_before": pre, "then": fmt.Sprintf("%d more stores, Len", capacity)}
				n := lru.Len()
				c.Done(true, pre+capacity+2)
				switch {
				case n == -1:
					c.Outcome("len-sentinel")
					c.Violation("keys-not-equal-to-themselves/len-sentinel", det)
				case n != capacity:
					c.Violation("keys-not-equal-to-themselves/len-mismatch", det)
				case evicted != pre+1:
					c.Violation("keys-not-equal-to-themselves/callback-count", det)
				default:
					c.Outcome("ok")
				}
			}
		}
	}
}
