// C09 — the LRU cache behaves as a bounded least-recently-used map.
// E-seq: every operation sequence up to a depth over a colliding/overflowing key alphabet, for
// capacities 0..4 (+8 structured), from the empty state and from non-initial states that put the hidden removal
// counter below / at / above the map-rebuild threshold, each step compared with the reference model.
package main

import (
	"fmt"
	"reflect"
	"strings"
	"time"

	"gitee.com/xuesongtao/protoc-go-valid/valid"
	"verif/internal/lrumodel"
	"verif/internal/runner"
)

type op struct {
	kind byte // S L D N, T = Store of a value that is constant per key (re-storing an equal value)
	key  string
}

func (o op) String() string {
	if o.kind == 'N' {
		return "Len"
	}
	if o.kind == 'U' || o.kind == 'X' || o.kind == 'Y' {
		return map[byte]string{'U': "Load([]int{1}) recovered", 'X': "Delete(map[string]int{}) recovered", 'Y': "Store([]string{k}) recovered"}[o.kind]
	}
	return map[byte]string{'S': "Store", 'L': "Load", 'D': "Delete", 'T': "StoreSame"}[o.kind] + "(" + o.key + ")"
}

// eqv compares stored values; values are arbitrary (slices included), so == is not available.
func eqv(a, b interface{}) bool { return reflect.DeepEqual(a, b) }

// stuckSeen: fault operations after which the cache stopped answering once in this process.
var stuckSeen = map[byte]bool{}

func alphabet(c int, same bool) []op {
	return alphabetF(c, same, false)
}

func alphabetF(c int, same, faults bool) []op {
	nk := c + 1
	if nk < 3 {
		nk = 3
	}
	keys := []string{"a", "b", "c", "d", "e", "f", "g", "h", "i", "j"}[:nk]
	var ops []op
	for _, k := range keys {
		ops = append(ops, op{'S', k})
	}
	for _, k := range keys {
		ops = append(ops, op{'L', k})
	}
	for _, k := range keys {
		ops = append(ops, op{'D', k})
	}
	ops = append(ops, op{'N', ""})
	if same {
		for _, k := range keys {
			ops = append(ops, op{'T', k})
		}
	}
	if faults {
		ops = append(ops, op{'U', ""}, op{'X', ""}, op{'Y', ""})
	}
	return ops
}

type config struct {
	cap     int
	warm    int  // number of store/delete warm-up pairs on disjoint keys (-1: none)
	prefil  int  // number of entries pre-stored (keys from the alphabet) before the sequence
	cb      bool // callback registered
	depth   int
	same    bool // alphabet additionally holds StoreSame(k): the value stored is constant per key
	slices  bool // with same: the constant value is a slice (values need not be comparable with ==)
	nils    bool // with same: the constant value is nil (a stored nil is a live entry like any other)
	cbPanic bool // the removal callback panics for key "b" (after logging); every operation is wrapped in recover
	exotic  bool // the keys are unusual but legal map keys: nil, 0, "", struct{}{}, 1.5 (any comparable value is a key)
}

// exoticKeys maps the key labels of the alphabet to unusual keys.
var exoticKeys = map[string]interface{}{"a": nil, "b": 0, "c": "", "d": struct{}{}, "e": 1.5}

func (cf config) rk(label string) interface{} {
	if cf.exotic {
		if k, ok := exoticKeys[label]; ok {
			return k
		}
	}
	return label
}

func (cf config) label(k interface{}) string {
	if cf.exotic {
		for l, x := range exoticKeys {
			if x == k {
				return l
			}
		}
	}
	return fmt.Sprint(k)
}

func (cf config) String() string {
	if cf.same {
		if cf.slices {
			return fmt.Sprintf("cap=%d warm=%d prefill=%d cb=%v depth=%d +StoreSame(slice values)", cf.cap, cf.warm, cf.prefil, cf.cb, cf.depth)
		}
		if cf.nils {
			return fmt.Sprintf("cap=%d warm=%d prefill=%d cb=%v depth=%d +StoreSame(nil values)", cf.cap, cf.warm, cf.prefil, cf.cb, cf.depth)
		}
		return fmt.Sprintf("cap=%d warm=%d prefill=%d cb=%v depth=%d +StoreSame", cf.cap, cf.warm, cf.prefil, cf.cb, cf.depth)
	}
	if cf.cbPanic {
		return fmt.Sprintf("cap=%d warm=%d prefill=%d cb=panics-for-b +operations with unhashable keys depth=%d", cf.cap, cf.warm, cf.prefil, cf.depth)
	}
	if cf.exotic {
		return fmt.Sprintf("cap=%d warm=%d prefill=%d cb=%v depth=%d keys=nil,0,\"\",struct{}{},1.5", cf.cap, cf.warm, cf.prefil, cf.cb, cf.depth)
	}
	return fmt.Sprintf("cap=%d warm=%d prefill=%d cb=%v depth=%d", cf.cap, cf.warm, cf.prefil, cf.cb, cf.depth)
}

type cbrec struct {
	k string
	v interface{}
}

// runSeq executes seq on a fresh real cache and on the model; returns a mismatch description or "".
func runSeq(cf config, ops []op, seq []int, c *runner.Ctx) (sig, detail string, calls int, nontrivial bool) {
	lru := valid.NewLRU(cf.cap)
	var log []cbrec
	if cf.cb {
		lru.SetDelCallBackFn(func(k, v interface{}) {
			log = append(log, cbrec{cf.label(k), v})
			if cf.cbPanic && cf.label(k) == "b" {
				panic("callback refuses b")
			}
		})
	}
	// a panicking callback is the caller's problem, but the cache stays a bounded LRU map: the entry is gone, the
	// callback was invoked once, later operations work
	guard := func(f func()) {
		if !cf.cbPanic {
			f()
			return
		}
		defer func() { recover() }()
		f()
	}
	m := lrumodel.New(cf.cap)
	step := 0
	for i := 0; i < cf.warm; i++ {
		k := fmt.Sprintf("w%d", i)
		step++
		lru.Store(k, -step)
		m.Store(k, -step)
		lru.Delete(k)
		m.Delete(k)
		calls += 2
	}
	for i := 0; i < cf.prefil; i++ {
		step++
		lru.Store(cf.rk(ops[i].key), -step)
		m.Store(ops[i].key, -step)
		calls++
	}
	m.EvictDiffered = false
	var trace []string
	checkLog := func(where string) (string, string) {
		if !cf.cb {
			return "", ""
		}
		if len(log) != len(m.Log) {
			return "callback-count", fmt.Sprintf("%s: callback log %v, model %v", where, log, m.Log)
		}
		for i := range log {
			if log[i].k != m.Log[i].K || !eqv(log[i].v, m.Log[i].V) {
				if log[i].k != m.Log[i].K {
					return "callback-key", fmt.Sprintf("%s: callback log %v, model %v", where, log, m.Log)
				}
				return "callback-value", fmt.Sprintf("%s: callback log %v, model %v", where, log, m.Log)
			}
		}
		return "", ""
	}
	for _, oi := range seq {
		o := ops[oi]
		step++
		calls++
		switch o.kind {
		case 'S':
			guard(func() { lru.Store(cf.rk(o.key), step) })
			m.Store(o.key, step)
			trace = append(trace, o.String())
		case 'T':
			var sv interface{} = "same-" + o.key
			if cf.slices {
				sv = []string{"same", o.key}
			}
			if cf.nils {
				sv = nil
			}
			guard(func() { lru.Store(cf.rk(o.key), sv) })
			m.Store(o.key, sv)
			trace = append(trace, o.String())
		case 'L':
			v, ok := lru.Load(cf.rk(o.key))
			mv, mok := m.Load(o.key)
			trace = append(trace, fmt.Sprintf("%s=%v,%v", o, v, ok))
			if ok != mok {
				kind := "load-hit-expected-miss"
				if mok {
					kind = "load-miss-expected-hit"
				}
				return kind, fmt.Sprintf("%v: got (%v,%v) model (%v,%v)", trace, v, ok, mv, mok), calls, false
			}
			if ok && !eqv(v, mv) {
				return "load-stale-value", fmt.Sprintf("%v: got %v model %v", trace, v, mv), calls, false
			}
		case 'D':
			guard(func() { lru.Delete(cf.rk(o.key)) })
			m.Delete(o.key)
			trace = append(trace, o.String())
		case 'U', 'X', 'Y':
			// an operation abandoned by Go's own refusal of an unhashable key (the caller recovers): it changes nothing,
			// and the cache answers afterwards
			if stuckSeen[o.kind] {
				return "cache-unusable-after-abandoned-operation", fmt.Sprintf("%v: not re-run in this process (each occurrence costs the two-minute wait)", trace), calls, false
			}
			func() {
				defer func() { recover() }()
				switch o.kind {
				case 'U':
					lru.Load([]int{1})
				case 'X':
					lru.Delete(map[string]int{})
				case 'Y':
					lru.Store([]string{"k"}, step)
				}
			}()
			trace = append(trace, o.String())
			answered := make(chan int, 1)
			go func() { answered <- lru.Len() }()
			select {
			case <-answered:
			case <-time.After(2 * time.Minute):
				stuckSeen[o.kind] = true
				return "cache-unusable-after-abandoned-operation", fmt.Sprintf("%v: Len() has not returned for two minutes", trace), calls, false
			}
		case 'N':
			n := lru.Len()
			trace = append(trace, fmt.Sprintf("Len=%d", n))
			if n != m.Len() {
				kind := "len-mismatch"
				if n == -1 {
					kind = "len-sentinel"
				} else if n > cf.cap {
					kind = "len-over-capacity"
				}
				return kind, fmt.Sprintf("%v: Len=%d model %d", trace, n, m.Len()), calls, false
			}
		}
		if s, d := checkLog(fmt.Sprint(trace)); s != "" {
			return s, d, calls, false
		}
		c.State(fmt.Sprintf("%d/%d/%s", cf.cap, cf.warm, m.Key()))
	}
	// audit: Len, then Load of every key in reverse recency order (does not disturb relative checks: we use the model in lockstep)
	n := lru.Len()
	calls++
	if n != m.Len() || n > cf.cap {
		kind := "len-mismatch"
		if n == -1 {
			kind = "len-sentinel"
		} else if n > cf.cap {
			kind = "len-over-capacity"
		}
		return kind, fmt.Sprintf("%v: final Len=%d model %d", trace, n, m.Len()), calls, false
	}
	seen := map[string]bool{}
	for _, o := range ops {
		if o.kind != 'S' || seen[o.key] {
			continue
		}
		seen[o.key] = true
		v, ok := lru.Load(cf.rk(o.key))
		mv, mok := m.Load(o.key)
		calls++
		if ok != mok || (ok && !eqv(v, mv)) {
			kind := "audit-load"
			if ok && mok {
				kind = "load-stale-value"
			} else if ok {
				kind = "load-hit-expected-miss"
			} else {
				kind = "load-miss-expected-hit"
			}
			return kind, fmt.Sprintf("%v: audit Load(%s) got (%v,%v) model (%v,%v)", trace, o.key, v, ok, mv, mok), calls, false
		}
	}
	// eviction order audit: push cap+? fresh keys and watch victims through the callback log / misses
	for i := 0; i <= cf.cap; i++ {
		k := fmt.Sprintf("z%d", i)
		step++
		guard(func() { lru.Store(k, step) })
		m.Store(k, step)
		calls++
	}
	if s, d := checkLog(fmt.Sprint(trace) + " +flush"); s != "" {
		return s + "-at-flush", d, calls, false
	}
	seen = map[string]bool{}
	for _, o := range ops {
		if o.kind != 'S' || seen[o.key] {
			continue
		}
		seen[o.key] = true
		_, ok := lru.Load(cf.rk(o.key))
		_, mok := m.Load(o.key)
		calls++
		if ok != mok {
			return "flush-survivor", fmt.Sprintf("%v: after flush Load(%s) hit=%v model %v", trace, o.key, ok, mok), calls, false
		}
	}
	if n := lru.Len(); n != m.Len() {
		return "len-mismatch", fmt.Sprintf("%v: after flush Len=%d model %d", trace, n, m.Len()), calls, false
	}
	return "", "", calls, m.EvictDiffered
}

func seqString(ops []op, seq []int) string {
	var p []string
	for _, i := range seq {
		p = append(p, ops[i].String())
	}
	return strings.Join(p, " ")
}

// longRun drives a cache of realistic size through a few thousand structured operations in lock step with the model:
// the internal thresholds (map rebuild after 2*capacity removals) are crossed several times at the sizes actually used
// (the package default is 512 entries).
func longRun(c *runner.Ctx, capacity int, useDefault bool, stride, mix int) {
	lru := valid.NewLRU(capacity)
	if useDefault {
		lru = valid.NewLRU()
		capacity = 512
	}
	var log []cbrec
	lru.SetDelCallBackFn(func(k, v interface{}) { log = append(log, cbrec{fmt.Sprint(k), v}) })
	m := lrumodel.New(capacity)
	nKeys := capacity + 1 + stride%5
	steps := 3*(2*capacity+2) + 2*capacity + 17
	calls := 0
	fail := func(step int, what string) {
		c.Violation("long-run/"+what, map[string]interface{}{"capacity": capacity, "default_constructor": useDefault, "stride": stride, "mix": mix, "step": step, "of": steps})
	}
	for i := 0; i < steps; i++ {
		k := fmt.Sprintf("k%d", (i*stride)%nKeys)
		lru.Store(k, i)
		m.Store(k, i)
		calls++
		switch mix {
		case 1: // touch the previous key
			pk := fmt.Sprintf("k%d", ((i+nKeys-1)*stride)%nKeys)
			v, ok := lru.Load(pk)
			mv, mok := m.Load(pk)
			calls++
			if ok != mok || (ok && !eqv(v, mv)) {
				fail(i, "load-mismatch")
				return
			}
		case 2: // look for a key that should be long gone / still there
			ok0 := fmt.Sprintf("k%d", (i/2)%nKeys)
			v, ok := lru.Load(ok0)
			mv, mok := m.Load(ok0)
			calls++
			if ok != mok || (ok && !eqv(v, mv)) {
				fail(i, "load-mismatch")
				return
			}
		case 3: // delete every third step
			if i%3 == 0 {
				dk := fmt.Sprintf("k%d", (i/3)%nKeys)
				lru.Delete(dk)
				m.Delete(dk)
				calls++
			}
		case 4: // re-store an equal value
			lru.Store(k, i)
			m.Store(k, i)
			calls++
		}
		if i%7 == 0 || i > steps-40 {
			if n := lru.Len(); n != m.Len() {
				what := "len-mismatch"
				if n == -1 {
					what = "len-sentinel"
				} else if n > capacity {
					what = "len-over-capacity"
				}
				fail(i, what)
				return
			}
			calls++
		}
		if len(log) != len(m.Log) {
			fail(i, "callback-count")
			return
		}
		if n := len(log); n > 0 && (log[n-1].k != m.Log[n-1].K || log[n-1].v != m.Log[n-1].V) {
			fail(i, "callback-key-or-value")
			return
		}
	}
	// audit every key
	for j := 0; j < nKeys; j++ {
		k := fmt.Sprintf("k%d", j)
		v, ok := lru.Load(k)
		mv, mok := m.Load(k)
		calls++
		if ok != mok || (ok && !eqv(v, mv)) {
			fail(steps, "audit-load")
			return
		}
	}
	c.Done(true, calls)
	c.Outcome("ok")
}

func run(c *runner.Ctx) {
	bursts(c)
	valueDependentKeys(c)
	irreflexiveKeys(c)
	c.Space("long-runs")
	for _, cp := range []int{16, 64, 512} {
		for _, stride := range []int{1, 3, 7, cp - 1, cp, cp + 1, cp + 2} {
			for mix := 0; mix < 5; mix++ {
				if !c.Take() {
					continue
				}
				longRun(c, cp, cp == 512, stride, mix)
				c.Sample(func() interface{} { return map[string]int{"capacity": cp, "stride": stride, "mix": mix} })
			}
		}
	}
	var cfgs []config
	depthFor := func(cp int) int {
		if c.Thorough() {
			switch {
			case cp <= 2:
				return 7
			default:
				return 6
			}
		}
		switch {
		case cp <= 2:
			return 6
		case cp == 3:
			return 5
		default:
			return 4
		}
	}
	for cp := 0; cp <= 4; cp++ {
		d := depthFor(cp)
		warms := []int{0}
		for r := 2*cp - 1; r <= 2*cp+3; r++ {
			if r > 0 {
				warms = append(warms, r)
			}
		}
		for _, w := range warms {
			for _, cb := range []bool{true, false} {
				dd := d
				if w != 0 && !c.Thorough() && dd > 4 {
					dd = 4
				}
				if w != 0 && c.Thorough() {
					dd = d - 1
				}
				if !cb {
					dd--
				}
				cfgs = append(cfgs, config{cap: cp, warm: w, cb: cb, depth: dd})
				// non-initial state: cache pre-filled to capacity
				if cp > 0 && w == 0 {
					cfgs = append(cfgs, config{cap: cp, warm: 0, prefil: cp, cb: cb, depth: dd - 1})
				}
			}
		}
	}
	// re-storing an equal value: alphabet + StoreSame(k), all capacities, empty and pre-filled starts
	for cp := 1; cp <= 3; cp++ {
		d := 5
		if c.Thorough() {
			d = 6
		}
		if cp == 3 {
			d--
		}
		cfgs = append(cfgs, config{cap: cp, cb: true, depth: d, same: true}, config{cap: cp, prefil: cp, cb: true, depth: d - 1, same: true})
		if cp <= 2 {
			cfgs = append(cfgs, config{cap: cp, cb: true, depth: d - 1, same: true, slices: true}, config{cap: cp, cb: true, depth: d - 1, same: true, nils: true})
		}
	}
	// a removal callback that panics for one key (operations recovered by the caller)
	for cp := 0; cp <= 2; cp++ {
		d := 5
		if c.Thorough() {
			d = 6
		}
		cfgs = append(cfgs, config{cap: cp, cb: true, depth: d, cbPanic: true}, config{cap: cp, prefil: cp, warm: 2*cp + 1, cb: true, depth: d - 1, cbPanic: true})
	}
	// unusual keys
	for cp := 1; cp <= 3; cp++ {
		d := 5
		if c.Thorough() {
			d = 6
		}
		if cp == 3 {
			d--
		}
		cfgs = append(cfgs, config{cap: cp, cb: true, depth: d, exotic: true}, config{cap: cp, warm: 2*cp + 1, cb: true, depth: d - 1, exotic: true})
	}
	// larger capacity with a longer warm-up crossing the rebuild threshold several times
	cfgs = append(cfgs, config{cap: 8, warm: 40, prefil: 8, cb: true, depth: 3})
	if c.Thorough() {
		cfgs = append(cfgs, config{cap: 8, warm: 17, prefil: 7, cb: true, depth: 4})
	}

	for _, cf := range cfgs {
		ops := alphabetF(cf.cap, cf.same, cf.cbPanic)
		c.Space(cf.String())
		n := len(ops)
		seq := make([]int, cf.depth)
		total := 1
		for i := 0; i < cf.depth; i++ {
			total *= n
		}
		for x := 0; x < total; x++ {
			if !c.Take() {
				continue
			}
			y := x
			for i := cf.depth - 1; i >= 0; i-- {
				seq[i] = y % n
				y /= n
			}
			var sig, det string
			var calls int
			var nt bool
			pan, msg, site := runner.Guard(func() { sig, det, calls, nt = runSeq(cf, ops, seq, c) })
			if pan {
				sig, det = "panic@"+site, msg+" in "+seqString(ops, seq)
			}
			c.Done(nt, calls)
			if sig != "" {
				c.Outcome("violation:" + sig)
				c.Violation(sig, map[string]interface{}{"config": cf.String(), "sequence": seqString(ops, seq), "mismatch": det})
			} else {
				c.Outcome("ok")
			}
			c.Sample(func() interface{} { return map[string]string{"config": cf.String(), "sequence": seqString(ops, seq)} })
		}
		if c.Expired() {
			break
		}
	}
}

func main() {
	runner.Main(runner.Config{
		Property:  "C09",
		Technique: "explicit-state bounded-exhaustive exploration of all operation sequences on the real LRUCache, lock-step against a reference model",
		Rule: "all sequences of length d over {Store (fresh value = step number),Load,Delete}(k in c+1 colliding keys)+Len on valid.NewLRU(c), c=0..4 (+8), and for c=1..3 additionally StoreSame(k) (a value that is constant per key, so re-storing an equal value is covered) a removal callback that panics for one key (operations recovered) together with Load / Delete / Store on unhashable keys (recovered; the cache must still answer), and a key alphabet of unusual keys (nil, 0, \"\", struct{}{}, 1.5), from empty, pre-filled and warm-up states around the map-rebuild threshold, plus 105 structured long runs (thousands of operations, capacities 16, 64 and the package default 512) crossing the rebuild threshold several times, " +
			"with and without removal callback; every step compared with a slice-based LRU model; non-trivial = sequences containing an eviction whose victim differs between LRU and FIFO order",
		Assumptions: []string{"reference model internal/lrumodel is the specification of C09", "keys are hashable strings; callbacks do not re-enter the cache"},
		Run:         run,
	})
}
