// C01 — size/comparison rules judge by the documented measure with exact boundaries.
// E-enum: rule x kind x bounds x values x carriers, complete product, against an interval model.
package main

import (
	"fmt"
	"math"
	"math/big"
	"reflect"
	"strings"

	"verif/internal/carrier"
	"verif/internal/errparse"
	"verif/internal/runner"

	"gitee.com/xuesongtao/protoc-go-valid/valid"
)

// measure of a value: exactly one of the three representations is used.
type measure struct {
	kind byte // 'i' int64, 'u' uint64, 'f' float64
	i    int64
	u    uint64
	f    float64
}

// cmp compares the measure with an integer bound: -1, 0, +1.
func (m measure) cmp(b int) int {
	switch m.kind {
	case 'i':
		switch {
		case m.i < int64(b):
			return -1
		case m.i > int64(b):
			return 1
		}
		return 0
	case 'u':
		if b < 0 {
			return 1
		}
		switch {
		case m.u < uint64(b):
			return -1
		case m.u > uint64(b):
			return 1
		}
		return 0
	}
	// exact: a 64-bit integer bound is not always a float64 (2^53+1 is not)
	return new(big.Float).SetFloat64(m.f).Cmp(new(big.Float).SetInt64(int64(b)))
}

func measureOf(v reflect.Value) measure {
	switch v.Kind() {
	case reflect.String:
		return measure{kind: 'i', i: int64(len([]rune(v.String())))}
	case reflect.Int, reflect.Int8, reflect.Int16, reflect.Int32, reflect.Int64:
		return measure{kind: 'i', i: v.Int()}
	case reflect.Uint, reflect.Uint8, reflect.Uint16, reflect.Uint32, reflect.Uint64:
		return measure{kind: 'u', u: v.Uint()}
	case reflect.Float32, reflect.Float64:
		return measure{kind: 'f', f: v.Float()}
	case reflect.Slice:
		return measure{kind: 'i', i: int64(v.Len())}
	}
	panic("no measure")
}

type rule struct {
	name string
	two  bool
}

var rules = []rule{{"to", true}, {"ge", false}, {"le", false}, {"oto", true}, {"gt", false}, {"lt", false}, {"eq", false}, {"noeq", false}}

// violated says whether the rule is violated and a relation label for the signature.
func violated(r string, m measure, lo, hi int) (bool, string) {
	rel := func(b int) string {
		switch m.cmp(b) {
		case -1:
			return "m<b"
		case 0:
			return "m==b"
		}
		return "m>b"
	}
	switch r {
	case "to":
		return m.cmp(lo) < 0 || m.cmp(hi) > 0, "lo:" + rel(lo) + ",hi:" + rel(hi)
	case "oto":
		return m.cmp(lo) <= 0 || m.cmp(hi) >= 0, "lo:" + rel(lo) + ",hi:" + rel(hi)
	case "ge":
		return m.cmp(lo) < 0, rel(lo)
	case "le":
		return m.cmp(lo) > 0, rel(lo)
	case "gt":
		return m.cmp(lo) <= 0, rel(lo)
	case "lt":
		return m.cmp(lo) >= 0, rel(lo)
	case "eq":
		return m.cmp(lo) != 0, rel(lo)
	case "noeq":
		return m.cmp(lo) == 0, rel(lo)
	}
	panic(r)
}

func kindClass(k string) string {
	switch {
	case strings.HasPrefix(k, "uint"):
		return "uint*"
	case strings.HasPrefix(k, "int"):
		return "int*"
	case strings.HasPrefix(k, "float"):
		return "float*"
	case strings.HasPrefix(k, "[]"):
		return "slice"
	}
	return k
}

func near(m measure, b int) bool {
	switch m.kind {
	case 'i':
		d := m.i - int64(b)
		return d >= -1 && d <= 1
	case 'u':
		if b < 0 {
			return false
		}
		return m.u+1 >= uint64(b) && m.u <= uint64(b)+1
	}
	return math.Abs(m.f-float64(b)) <= 1
}

type kindSpec struct {
	name   string
	values []reflect.Value
}

func rv(x interface{}) reflect.Value { return reflect.ValueOf(x) }

func kinds(thorough bool) []kindSpec {
	var ks []kindSpec
	// strings: 1..9 runes in four alphabets
	var strs []reflect.Value
	maxN := 12
	wlo, whi := int64(-12), int64(16)
	if thorough {
		maxN, wlo, whi = 24, -40, 40
	}
	for n := 1; n <= maxN; n++ {
		strs = append(strs, rv(strings.Repeat("a", n)), rv(strings.Repeat("中", n)), rv(strings.Repeat("😀", n)))
		mix := []string{"a", "中", "😀", "é"}
		s := ""
		for i := 0; i < n; i++ {
			s += mix[i%4]
		}
		strs = append(strs, rv(s))
	}
	// long strings around the sizes where byte-oriented shortcuts stop working (255/256/257 runes, 3- and 4-byte runes)
	for _, n := range []int{255, 256, 257, 1000} {
		strs = append(strs, rv(strings.Repeat("a", n)), rv(strings.Repeat("中", n)), rv(strings.Repeat("😀", n)))
	}
	// text that looks percent-encoded, or holds '+': its measure is its own rune count on every entry point
	for _, x := range []string{"%41%42%43", "50%25off", "%E4%B8%AD", "100%", "1+1", "a%2Bb", "%%%", "%4", "+", "a+b+c+d"} {
		strs = append(strs, rv(x))
	}
	// characters that message escaping rewrites (quote, backslash, NUL, LF, CR, TAB, SUB): each counts as one character
	for _, x := range []string{"it's", "a\"b", "a\\b", "\n\n", "a\tb", "\x00x", "\x1a", "\r\n", "''''", "'", "\\\\\\", "a'b\"c\\d\ne"} {
		strs = append(strs, rv(x))
	}
	ks = append(ks, kindSpec{"string", strs})
	win := func() []int64 {
		var w []int64
		for i := wlo; i <= whi; i++ {
			if i != 0 {
				w = append(w, i)
			}
		}
		return w
	}
	// signed
	{
		var v []reflect.Value
		for _, i := range win() {
			v = append(v, rv(int(i)))
		}
		for _, i := range []int{math.MaxInt64, math.MaxInt64 - 1, math.MinInt64, math.MinInt64 + 1, math.MaxInt32 + 1, math.MinInt32 - 1, 1 << 53, 1<<53 + 1} {
			v = append(v, rv(i))
		}
		ks = append(ks, kindSpec{"int", v})
	}
	{
		var v []reflect.Value
		for i := -128; i <= 127; i++ {
			if i != 0 {
				v = append(v, rv(int8(i)))
			}
		}
		ks = append(ks, kindSpec{"int8", v})
	}
	{
		var v []reflect.Value
		for _, i := range win() {
			v = append(v, rv(int16(i)))
		}
		for _, i := range []int16{math.MaxInt16, math.MaxInt16 - 1, math.MinInt16, math.MinInt16 + 1, 127, 128, 255, 256, -128, -129} {
			v = append(v, rv(i))
		}
		if thorough { // all 65535 non-zero values
			v = nil
			for i := math.MinInt16; i <= math.MaxInt16; i++ {
				if i != 0 {
					v = append(v, rv(int16(i)))
				}
			}
		}
		ks = append(ks, kindSpec{"int16", v})
	}
	{
		var v []reflect.Value
		for _, i := range win() {
			v = append(v, rv(int32(i)))
		}
		for _, i := range []int32{math.MaxInt32, math.MaxInt32 - 1, math.MinInt32, math.MinInt32 + 1, 32767, 32768, 65536, -32769} {
			v = append(v, rv(i))
		}
		ks = append(ks, kindSpec{"int32", v})
	}
	{
		var v []reflect.Value
		for _, i := range win() {
			v = append(v, rv(int64(i)))
		}
		for _, i := range []int64{math.MaxInt64, math.MaxInt64 - 1, math.MinInt64, math.MinInt64 + 1, math.MaxInt32 + 1, math.MinInt32 - 1, 1 << 53, 1<<53 + 1} {
			v = append(v, rv(i))
		}
		ks = append(ks, kindSpec{"int64", v})
	}
	// unsigned
	var uwin []uint64
	for i := uint64(1); i <= uint64(whi); i++ {
		uwin = append(uwin, i)
	}
	{
		var v []reflect.Value
		for _, i := range uwin {
			v = append(v, rv(uint(i)))
		}
		for _, i := range []uint{math.MaxUint64, math.MaxUint64 - 1, 1 << 63, 1<<63 - 1, 1<<63 + 1, math.MaxUint32 + 1, 1 << 53} {
			v = append(v, rv(i))
		}
		ks = append(ks, kindSpec{"uint", v})
	}
	{
		var v []reflect.Value
		for i := 1; i <= 255; i++ {
			v = append(v, rv(uint8(i)))
		}
		ks = append(ks, kindSpec{"uint8", v})
	}
	{
		var v []reflect.Value
		for _, i := range uwin {
			v = append(v, rv(uint16(i)))
		}
		for _, i := range []uint16{math.MaxUint16, math.MaxUint16 - 1, 127, 128, 255, 256, 32767, 32768} {
			v = append(v, rv(i))
		}
		if thorough { // all 65535 non-zero values
			v = nil
			for i := 1; i <= math.MaxUint16; i++ {
				v = append(v, rv(uint16(i)))
			}
		}
		ks = append(ks, kindSpec{"uint16", v})
	}
	{
		var v []reflect.Value
		for _, i := range uwin {
			v = append(v, rv(uint32(i)))
		}
		for _, i := range []uint32{math.MaxUint32, math.MaxUint32 - 1, 1 << 31, 1<<31 - 1, 65535, 65536} {
			v = append(v, rv(i))
		}
		ks = append(ks, kindSpec{"uint32", v})
	}
	{
		var v []reflect.Value
		for _, i := range uwin {
			v = append(v, rv(uint64(i)))
		}
		for _, i := range []uint64{math.MaxUint64, math.MaxUint64 - 1, 1 << 63, 1<<63 - 1, 1<<63 + 1, math.MaxUint32 + 1, 1 << 53} {
			v = append(v, rv(i))
		}
		ks = append(ks, kindSpec{"uint64", v})
	}
	// floats
	{
		var v32, v64 []reflect.Value
		for k := 2 * int(wlo); k <= 2*int(whi); k++ {
			if k == 0 {
				continue
			}
			v32 = append(v32, rv(float32(k)/2))
			v64 = append(v64, rv(float64(k)/2))
		}
		eps := math.Ldexp(1, -20)
		blo, bhi := -3, 6
		if thorough {
			blo, bhi = -12, 20
		}
		for b := blo; b <= bhi; b++ {
			for _, d := range []float64{-eps, eps} {
				v64 = append(v64, rv(float64(b)+d))
				v32 = append(v32, rv(float32(float64(b)+d))) // exactly representable: |b|<8 needs 3+20 bits
			}
		}
		v64 = append(v64, rv(1e15), rv(-1e15), rv(0.1), rv(math.SmallestNonzeroFloat64), rv(math.MaxFloat64))
		v32 = append(v32, rv(float32(1e15)), rv(float32(0.1)), rv(float32(math.SmallestNonzeroFloat32)), rv(float32(math.MaxFloat32)))
		// values at the edge of float32's integer precision (2^24, 2^25): the bounds next to them are integers that
		// float32 cannot hold, so a bound that is narrowed to the value's type moves onto the value
		for _, f := range []float64{16777214, 16777216, 16777218, 33554430, 33554432, 33554436, 100000000, -16777216, -16777218} {
			v32 = append(v32, rv(float32(f)))
			v64 = append(v64, rv(f), rv(f+1))
		}
		// float64 values at the edge of its integer precision (2^53): the integer bound next to them cannot be held by a
		// float64 either
		v64 = append(v64, rv(float64(1<<53)), rv(float64(1<<53+2)), rv(-float64(1<<53)))
		ks = append(ks, kindSpec{"float32", v32}, kindSpec{"float64", v64})
	}
	// slices
	{
		var vi, vs []reflect.Value
		for n := 1; n <= maxN; n++ {
			a := make([]int, n)
			b := make([]string, n)
			for i := range a {
				a[i] = i * 7 // element values must not influence the verdict (first element 0)
				b[i] = strings.Repeat("中", i)
			}
			vi = append(vi, rv(a))
			vs = append(vs, rv(b))
		}
		ks = append(ks, kindSpec{"[]int", vi}, kindSpec{"[]string", vs})
		// byte slices whose content is multi-byte UTF-8: the measure of a slice is its length, whatever it holds
		var vb []reflect.Value
		for n := 1; n <= 3; n++ {
			vb = append(vb, rv([]byte(strings.Repeat("中", n))), rv([]byte(strings.Repeat("a", n))), rv([]byte(strings.Repeat("😀", n))), rv([]byte(strings.Repeat("é", n)+"a")))
		}
		vb = append(vb, rv([]byte("中文ab")), rv([]byte{0xff}), rv([]byte{0, 0}))
		ks = append(ks, kindSpec{"[]uint8", vb})
	}
	return ks
}

func run(c *runner.Ctx) {
	ks := kinds(c.Thorough())
	var bounds1 []int
	blo, bhi := -5, 9
	if c.Thorough() {
		blo, bhi = -12, 20
	}
	for b := blo; b <= bhi; b++ {
		bounds1 = append(bounds1, b)
	}
	bounds1 = append(bounds1, 16777215, 16777216, 16777217, 16777219, 33554431, 33554433, 100000001, -16777217, 127, 128, 255, 256, -128, -129, 9, 10, 24, 25, 40, 41, 254, 257, 258, 999, 1000, 1001, 765, 768, 1020, 1024)
	// boundaries of the wider integer kinds (the bound is parsed as int: 64-bit here)
	bounds1 = append(bounds1, 32767, 32768, -32768, -32769, 65535, 65536, math.MaxInt32, math.MaxInt32+1, math.MinInt32, math.MinInt32-1, 1<<53, 1<<53+1, math.MaxInt64, math.MaxInt64-1, math.MinInt64, math.MinInt64+1)
	for _, r := range rules {
		for _, k := range ks {
			for _, car := range carrier.All {
				if !carrier.Supports(car, k.values[0]) {
					continue
				}
				c.Space(fmt.Sprintf("%s/%s/%s", r.name, k.name, car))
				var bl [][2]int
				if r.two {
					for lo := -3; lo <= 6; lo++ {
						for hi := -3; hi <= 6; hi++ {
							bl = append(bl, [2]int{lo, hi})
						}
					}
					bl = append(bl, [2]int{1, 127}, [2]int{1, 128}, [2]int{-128, 127}, [2]int{0, 255}, [2]int{1, 255}, [2]int{-129, 256},
						[2]int{-32768, 32767}, [2]int{-32769, 32768}, [2]int{0, 65535}, [2]int{1, 65536}, [2]int{math.MinInt32, math.MaxInt32}, [2]int{1 << 53, 1<<53 + 1},
						[2]int{math.MinInt64, math.MaxInt64}, [2]int{math.MinInt64 + 1, math.MaxInt64 - 1}, [2]int{8, 24}, [2]int{24, 25},
						[2]int{16777215, 16777217}, [2]int{16777217, 33554433}, [2]int{-16777217, 16777217}, [2]int{255, 256}, [2]int{256, 257}, [2]int{256, 1000}, [2]int{257, 999}, [2]int{86, 255}, [2]int{1, 1023}, [2]int{1000, 1000}, [2]int{768, 3000}, [2]int{300, 1024})
				} else {
					for _, b := range bounds1 {
						bl = append(bl, [2]int{b, b})
					}
				}
				for _, b := range bl {
					if !c.Take() {
						continue
					}
					ruleText := fmt.Sprintf("%s=%d", r.name, b[0])
					if r.two {
						ruleText = fmt.Sprintf("%s=%d~%d", r.name, b[0], b[1])
					}
					for _, v := range k.values {
						if !carrier.Supports(car, v) { // e.g. '%' and '+' cannot be carried raw in a URL
							continue
						}
						evalOne(c, r.name, k.name, car, ruleText, b[0], b[1], v)
					}
					c.Sample(func() interface{} {
						return map[string]interface{}{"rule": ruleText, "kind": k.name, "carrier": car, "values": len(k.values)}
					})
				}
			}
		}
	}
	pairs(c, ks)
	afterQuotedIn(c, ks)
	boundSpellings(c, ks)
}

// pairs: two size rules on one value, collected the way callers collect them (Var's variadic rules, RM.Set called
// once or twice, an RM literal): each rule is judged on its own, so the number of clauses is the number of violated
// rules - also when both rules have the same name.
func pairs(c *runner.Ctx, ks []kindSpec) {
	single := []string{"ge", "le", "gt", "lt", "eq", "noeq"}
	forms := []string{"Var(v, r1, r2)", "Map + NewRule().Set(k, r1).Set(k, r2)", "Struct + NewRule().Set(F, r1, r2)", "Map + RM literal"}
	for _, k := range ks {
		if k.name != "int" && k.name != "uint8" && k.name != "string" && k.name != "float64" {
			continue
		}
		vals := k.values
		if len(vals) > 60 {
			vals = vals[:60]
		}
		for _, r1 := range single {
			for _, r2 := range single {
				if r1 != r2 && !(r1 == "ge" && r2 == "le") && !(r1 == "noeq" && r2 == "eq") && !(r1 == "lt" && r2 == "gt") {
					continue
				}
				c.Space(fmt.Sprintf("pair/%s+%s/%s", r1, r2, k.name))
				for b1 := -2; b1 <= 13; b1++ {
					for b2 := -2; b2 <= 13; b2++ {
						if !c.Take() {
							continue
						}
						t1, t2 := fmt.Sprintf("%s=%d", r1, b1), fmt.Sprintf("%s=%d", r2, b2)
						for _, v := range vals {
							m := measureOf(v)
							v1, _ := violated(r1, m, b1, b1)
							v2, _ := violated(r2, m, b2, b2)
							want := 0
							if v1 {
								want++
							}
							if v2 {
								want++
							}
							for fi, form := range forms {
								var err error
								pan, msg, site := runner.Guard(func() {
									switch fi {
									case 0:
										err = valid.Var(v.Interface(), t1, t2)
									case 1, 3:
										mp := reflect.MakeMap(reflect.MapOf(reflect.TypeOf(""), v.Type()))
										mp.SetMapIndex(reflect.ValueOf("k"), v)
										rm := valid.RM{"k": t1 + "," + t2}
										if fi == 1 {
											rm = valid.NewRule().Set("k", t1).Set("k", t2)
										}
										err = valid.Map(mp.Interface(), rm)
									case 2:
										p := reflect.New(carrier.TagType(v.Type(), ""))
										p.Elem().Field(0).Set(v)
										err = valid.Struct(p.Interface(), valid.NewRule().Set("F", t1, t2))
									}
								})
								c.Done(near(m, b1) || near(m, b2), 1)
								det := map[string]interface{}{"rules": t1 + " and " + t2, "kind": k.name, "form": form, "value": fmt.Sprint(v.Interface()), "expected_clauses": want}
								if pan {
									det["panic"] = msg
									c.Violation("pair/panic@"+site, det)
									continue
								}
								got := 0
								if err != nil {
									got = len(errparse.Split(err.Error()))
									det["error"] = err.Error()
								}
								if got != want {
									c.Outcome("pair-clause-count-differs")
									c.Violation(fmt.Sprintf("pair/%s+%s/%s/%d-clauses-expected-%d", r1, r2, kindClass(k.name), got, want), det)
								} else {
									c.Outcome(fmt.Sprintf("pair-%d-clauses", want))
								}
							}
						}
					}
				}
			}
		}
	}
}

// afterQuotedIn: the size rule is the last rule of a list whose first rule is an in / include with quoted options
// (which the value satisfies): the size rule is judged as when it stands alone.
func afterQuotedIn(c *runner.Ctx, ks []kindSpec) {
	for _, k := range ks {
		if k.name != "string" {
			continue
		}
		for _, r := range rules {
			c.Space(fmt.Sprintf("after-quoted-in/%s", r.name))
			for lo := -1; lo <= 13; lo++ {
				for hi := lo; hi <= lo+3; hi++ {
					if !r.two && hi != lo {
						continue
					}
					if !c.Take() {
						continue
					}
					rt := fmt.Sprintf("%s=%d", r.name, lo)
					if r.two {
						rt = fmt.Sprintf("%s=%d~%d", r.name, lo, hi)
					}
					for _, v := range k.values {
						sv := v.String()
						if strings.ContainsAny(sv, "'/,()|\\\"`") || hasCtl(sv) || len(sv) > 60 {
							continue
						}
						m := measureOf(v)
						want, _ := violated(r.name, m, lo, hi)
						for fi, list := range []string{"in=('" + sv + "'/'zz')," + rt, "include=('" + sv + "'),in=('zz'/'" + sv + "')," + rt} {
							for _, car := range []carrier.Kind{carrier.Var, carrier.StructTag, carrier.Map} {
								var errStr string
								var isNil bool
								pan, msg, site := runner.Guard(func() { errStr, isNil = carrier.Validate(car, v, list) })
								c.Done(near(m, lo) || near(m, hi), 1)
								det := map[string]interface{}{"rules": list, "carrier": car, "value": sv, "form": fi, "expected_violated": want, "error": errStr}
								if pan {
									det["panic"] = msg
									c.Violation("after-quoted-in/panic@"+site, det)
									continue
								}
								n := 0
								if !isNil {
									n = len(errparse.Split(errStr))
								}
								if (want && n != 1) || (!want && n != 0) {
									c.Outcome("after-quoted-in-differs")
									c.Violation(fmt.Sprintf("after-quoted-in/%s/%d-clauses-expected-%v", r.name, n, want), det)
								} else {
									c.Outcome("after-quoted-in-ok")
								}
							}
						}
					}
				}
			}
		}
	}
}

// boundSpellings: bounds written with leading zeros are decimal numbers ("010" is ten, "08" is eight); and a size rule
// behind an empty entry of the rule list (",le=5", "required,,le=5" - what joining rule strings produces) is judged
// as when it stands alone.
func boundSpellings(c *runner.Ctx, ks []kindSpec) {
	for _, k := range ks {
		if k.name != "int" && k.name != "string" && k.name != "uint8" {
			continue
		}
		vals := k.values
		if len(vals) > 48 {
			vals = vals[:48]
		}
		for _, r := range rules {
			c.Space(fmt.Sprintf("bound-spellings/%s/%s", r.name, k.name))
			for b := 0; b <= 12; b++ {
				for form := 0; form < 5; form++ {
					if !c.Take() {
						continue
					}
					lo, hi := b, b+2
					var rt string
					switch form {
					case 0, 3, 4:
						rt = fmt.Sprintf("%s=%d", r.name, lo)
						if r.two {
							rt = fmt.Sprintf("%s=%d~%d", r.name, lo, hi)
						}
					case 1:
						rt = fmt.Sprintf("%s=%02d", r.name, lo)
						if r.two {
							rt = fmt.Sprintf("%s=%02d~%03d", r.name, lo, hi)
						}
					case 2:
						rt = fmt.Sprintf("%s=%03d", r.name, lo)
						if r.two {
							rt = fmt.Sprintf("%s=%d~%02d", r.name, lo, hi)
						}
					}
					list := rt
					switch form {
					case 3:
						list = "," + rt
					case 4:
						list = "phone|p,," + rt + ","
						if k.name != "string" {
							list = "noeq=-99,," + rt + ","
						}
					}
					for _, v := range vals {
						m := measureOf(v)
						want, _ := violated(r.name, m, lo, hi)
						if form == 4 && k.name == "string" {
							continue // (phone would add a clause of its own)
						}
						for _, car := range []carrier.Kind{carrier.Var, carrier.StructTag, carrier.StructRM, carrier.Map, carrier.UrlEsc} {
							if !carrier.Supports(car, v) {
								continue
							}
							var errStr string
							var isNil bool
							pan, msg, site := runner.Guard(func() { errStr, isNil = carrier.Validate(car, v, list) })
							c.Done(near(m, lo) || near(m, hi), 1)
							det := map[string]interface{}{"rules": list, "carrier": car, "kind": k.name, "value": fmt.Sprint(v.Interface()), "expected_violated": want, "error": errStr}
							if pan {
								det["panic"] = msg
								c.Violation("bound-spellings/panic@"+site, det)
								continue
							}
							n := 0
							if !isNil {
								n = len(errparse.Split(errStr))
							}
							if (want && n != 1) || (!want && n != 0) {
								what := "zero-padded-bound"
								if form >= 3 {
									what = "rule-behind-an-empty-entry"
								} else if form == 0 {
									what = "plain"
								}
								c.Outcome("bound-spellings-differs")
								c.Violation(fmt.Sprintf("bound-spellings/%s/%s/%d-clauses-expected-%v", what, r.name, n, want), det)
							} else {
								c.Outcome("bound-spellings-ok")
							}
						}
					}
				}
			}
		}
	}
}

func hasCtl(s string) bool {
	for i := 0; i < len(s); i++ {
		if s[i] < 0x20 || s[i] == 0x7f {
			return true
		}
	}
	return false
}

func evalOne(c *runner.Ctx, rname, kname string, car carrier.Kind, ruleText string, lo, hi int, v reflect.Value) {
	m := measureOf(v)
	want, rel := violated(rname, m, lo, hi)
	var errStr string
	var isNil bool
	pan, msg, site := runner.Guard(func() { errStr, isNil = carrier.Validate(car, v, ruleText) })
	nt := near(m, lo) || near(m, hi)
	c.Done(nt, 1)
	if pan {
		c.Violation("panic@"+site, map[string]interface{}{"rule": ruleText, "kind": kname, "carrier": car, "value": fmt.Sprint(v.Interface()), "panic": msg})
		return
	}
	got := !isNil
	nclauses := 0
	if got {
		nclauses = len(errparse.Split(errStr))
	}
	if got == want {
		if want {
			c.Outcome("violated")
			// side check for to/oto (default wording): the reported side must be a side that is actually violated
			if rname == "to" || rname == "oto" {
				less := strings.Contains(errStr, "it is less than")
				more := strings.Contains(errStr, "it is more than")
				wl := m.cmp(lo) < 0 || (rname == "oto" && m.cmp(lo) == 0)
				wm := m.cmp(hi) > 0 || (rname == "oto" && m.cmp(hi) == 0)
				if (less && !wl) || (more && !wm) || (!less && !more) {
					c.Violation(fmt.Sprintf("%s/%s/wrong-side(%s)", rname, kindClass(kname), rel), map[string]interface{}{"rule": ruleText, "kind": kname, "carrier": car, "value": fmt.Sprint(v.Interface()), "error": errStr})
				}
			}
		} else {
			c.Outcome("satisfied")
		}
		return
	}
	dir := "expected-violation-got-none"
	if !want {
		dir = "expected-none-got-clause"
	}
	c.Outcome(dir)
	sig := fmt.Sprintf("%s/%s/%s/%s", rname, kindClass(kname), rel, dir)
	if m.kind == 'f' && math.Abs(m.f) >= 1<<53 && (!holdsExactly(lo) || !holdsExactly(hi)) {
		// one call site: a float value of 2^53 or more against an integer bound that float64 cannot hold
		sig = "float-at-2^53-or-more/bound-that-float64-cannot-hold/" + dir
	}
	if car == carrier.MapIface && dir == "expected-violation-got-none" {
		// one call site: values carried as interface{} (map[string]interface{})
		sig = "map[string]interface{}/expected-violation-got-none"
	}
	if car == carrier.MapIface && rname == "eq" && dir == "expected-none-got-clause" && rel == "m==b" {
		sig = "map[string]interface{}/eq/m==b/expected-none-got-clause"
	}
	c.Violation(sig, map[string]interface{}{
		"rule": ruleText, "kind": kname, "carrier": car, "value": fmt.Sprint(v.Interface()), "measure_vs_bounds": rel, "expected_violated": want, "error": errStr, "clauses": nclauses})
}

// holdsExactly: the integer survives the conversion to float64 and back.
func holdsExactly(b int) bool {
	f := float64(b)
	return f < 1<<63 && f >= -(1<<63) && int(f) == b
}

func main() {
	runner.Main(runner.Config{
		Property:  "C01",
		Technique: "bounded-exhaustive enumeration (rule x kind x bounds x values x carriers) on the real entry points vs interval reference model",
		Rule: "complete product of rules {to,ge,le,oto,gt,lt,eq,noeq} x 15 kinds x bounds ([-3..6]^2 resp. [-3..6] + 8-bit edge bounds) x values (all 255 non-zero int8/uint8 values; windows + type extremes for wider kinds; " +
			"half-integers and bound±2^-20 for floats; strings of 1..9 runes in 4 alphabets; slices of length 1..9) x carriers {struct tag, struct per-call rule, Var, map[string]T, map[string]interface{}, []map, URL}; " +
			"case = (rule,kind,carrier,bounds) block, evaluation = one value; non-trivial = measure within 1 of a bound",
		Assumptions: []string{"bounds are integers (non-integer bound text is a rule-writing error, C13)", "empty non-nil slices excluded (DESIGN §7)"},
		Run:         run,
	})
}
