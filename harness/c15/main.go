// C15 — custom messages replace the default text verbatim and can be extracted alone.
// E-enum: (1) every message-capable rule x message class x violating value x carrier: clause text = label + message
// (label by CJK content), default wording without a message; (2) all clause-kind sequences of length 1..5 (thorough 1..7) realised by
// real validation calls; GetOnlyExplainErr must return exactly the explanation parts in order.
package main

import (
	"fmt"
	"os"
	"path/filepath"
	"reflect"
	"regexp"
	"strconv"
	"strings"

	"gitee.com/xuesongtao/protoc-go-valid/valid"
	"verif/internal/carrier"
	"verif/internal/errparse"
	"verif/internal/runner"
)

func rv(x interface{}) reflect.Value { return reflect.ValueOf(x) }

var zh = regexp.MustCompile("[一-龥]")

type rcase struct {
	rule    string        // rule text without message
	val     reflect.Value // violating value
	deflt   string        // default wording (text after the label)
	input   string        // echoed input ("\x00" = do not check)
	structs bool          // struct carriers only
}

func ruleCases(missing, aDir, aFile string) []rcase {
	s := func(rule string, v interface{}, d, in string) rcase { return rcase{rule, rv(v), d, in, false} }
	out := []rcase{
		s("required", "", "it is required", ""),
		s("to=2~3", "abcd", "it is more than 3 str-length", "abcd"),
		s("to=2~3", "a", "it is less than 2 str-length", "a"),
		s("to=2~3", int(5), "it is more than 3 num-size", "5"),
		s("to=2~3", []int{1}, "it is less than 2 slice-len", "1"),
		s("to=2~3", float64(0.5), "it is less than 2 num-size", "0.5"),
		s("ge=2", "a", "it is less than 2 str-length", "a"),
		s("ge=2", uint8(1), "it is less than 2 num-size", "1"),
		s("le=1", "ab", "it is more than 1 str-length", "ab"),
		s("oto=1~3", "abc", "it is more than or equal 3 str-length", "abc"),
		s("oto=1~3", "a", "it is less than or equal 1 str-length", "a"),
		s("gt=1", "a", "it is less than or equal 1 str-length", "a"),
		s("gt=1", int32(1), "it is less than or equal 1 num-size", "1"),
		s("lt=2", "ab", "it is more than or equal 2 str-length", "ab"),
		s("lt=2", []string{"a", "b"}, "it is more than or equal 2 slice-len", "2"),
		s("eq=2", "a", "it should equal 2 str-length", "a"),
		s("eq=2", int64(3), "it should equal 2 num-size", "3"),
		s("noeq=1", "a", "it is not equal 1 str-length", "a"),
		// kinds eq has no measure for (round 13): the default wording is not specified, a custom message is the message
		s("eq=1", true, "\x00oserr", "true"),
		{"eq=3", rv([2]int{1, 2}), "\x00oserr", "\x00", true},
		{"eq=1", rv(map[string]int{"a": 1, "b": 2}), "\x00oserr", "\x00", true},
		{"eq=1", rv(struct{ A, B int }{1, 2}), "\x00oserr", "\x00", true},
		s("in=(a/b)", "c", "it should in (a/b)", "c"),
		s("in=(1/2)", int(3), "it should in (1/2)", "3"),
		s("include=(a)", "b", "it should include (a)", "b"),
		s("in=(男/女)", "x", "it should in (男/女)", "x"),
		s("in=(男/女)", "中", "it should in (男/女)", "中"),
		s("include=(成都/重庆)", "北京", "it should include (成都/重庆)", "北京"),
		s("prefix=测试", "b", "prefix is not ok", "b"),
		s("suffix=有限公司", "abc", "suffix is not ok", "abc"),
		s("re='^[一-龥]+$'", "abc", "regex match is failed, pattern: ^[一-龥]+$", "abc"),
		s("eq=2", "中", "it should equal 2 str-length", "中"),
		s("ints=、", "1、x", "it is not separated by \"、\" num", "1、x"),
		s("phone", "12", "it is not phone", "12"),
		s("email", "a@", "it is not email", "a@"),
		s("idcard", "123", "it is not idcard", "123"),
		s("ip", "1.2.3", "it is not ip", "1.2.3"),
		s("ipv4", "::1", "it is not ipv4", "::1"),
		s("ipv6", "1.2.3.4", "it is not ipv6", "1.2.3.4"),
		s("year", "12", "it is not year, eg: 1996", "12"),
		s("year2month", "x", "it is not year2month, eg: 1996-09", "x"),
		s("year2month=/", "2021-09", "it is not year2month, eg: 1996/09", "2021-09"),
		s("date", "2021-02-30", "it is not date, eg: 1996-09-28", "2021-02-30"),
		s("datetime", "2021-01-01", "it is not datetime, eg: 1996-09-28 23:00:00", "2021-01-01"),
		s("int", "x", "it is not integer", "x"),
		s("ints", "1,x", `it is not separated by "," num`, "1,x"),
		s("ints", []string{"1", "x"}, "slice/array element is not all num", "[1, x]"),
		s("float", "x", "it is not float", "x"),
		s("re='^a$'", "b", "regex match is failed, pattern: ^a$", "b"),
		s("re='^(red|green)$'", "blue", "regex match is failed, pattern: ^(red|green)$", "blue"),
		s("re='a|b'", "c", "regex match is failed, pattern: a|b", "c"),
		s("unique", "a,a", "they're not unique", "a,a"),
		s("unique", []int{1, 1}, "they're not unique", "[1,1]"),
		s("json", "{", "it is not json", "{"),
		s("prefix=a", "b", "prefix is not ok", "b"),
		s("suffix=a", "b", "suffix is not ok", "b"),
		s("file", aDir, "it is not file", aDir),
		s("dir", aFile, "it is not dir", aFile),
		s("file", missing, "\x00oserr", missing),
		s("dir", missing, "\x00oserr", missing),
		// paths for which stat fails with something else than "does not exist": below a regular file, a name too long
		s("file", aFile+"/child", "\x00oserr", aFile+"/child"),
		s("dir", aFile+"/child", "\x00oserr", aFile+"/child"),
		s("file", aDir+"/"+strings.Repeat("n", 300), "\x00oserr", aDir+"/"+strings.Repeat("n", 300)),
		s("dir", aDir+"/"+strings.Repeat("n", 300), "\x00oserr", aDir+"/"+strings.Repeat("n", 300)),
	}
	out = append(out, rcase{"exist", rv("x"), "it is nonsupport exist", "x", true})
	return out
}

var messages = []string{"", "bad value", "值不对", "值 bad", "x", "字", "a=b", "'带,逗号'", "'with, comma'", "see (1~2)/x",
	// messages ending in characters of the clause separator: verbatim means nothing is trimmed from them
	"ends with;", "ends with space ", "结尾;", "too big ;", ";", " lead",
	// non-ASCII without any CJK ideograph: the English label
	"can’t be empty", "Größe ungültig", "ошибка", "かな", "€5…",
	// formatting-verb look-alikes
	"100% sure", "不能超过100%", "%d items", "%", "%s%v%[1]d", "50%!",
	// messages that mention a label word: the explanation starts after the clause's own (first) label
	"see explain: in the docs", "格式见 说明: 第三章", "请看 explain: 文档", "read the explain:", "x explain: y 说明: z",
	// full-width look-alikes of the syntax characters are ordinary text
	"姓名长度需在2～4之间", "数量需＝1", "a｜b only", "，；：",
	// the message separator inside the message
	"size must be 1|2|3", "模式只能是 r|w", "a|b", "|", "trailing|",
	// a lone double quote, backslashes
	"请输入形如 12\" 的整数", "5\" wide", "\"", "format \\d{4}", "C:\\data\\logs", "use / not \\", "\\"}

func withMsg(rule, msg string) string {
	if msg == "" {
		return rule
	}
	return rule + "|" + msg
}

func expectedExplain(cls []errparse.Clause) string {
	var parts []string
	for _, c := range cls {
		if c.Label != "" {
			parts = append(parts, c.Text)
		}
	}
	return strings.Join(parts, "; ")
}

func checkExtractor(c *runner.Ctx, errStr, expected, sig string, det map[string]interface{}) {
	var got string
	pan, msg, site := runner.Guard(func() { got = valid.GetOnlyExplainErr(errStr) })
	c.AddTransitions(1)
	if pan {
		det["panic"] = msg
		c.Violation("extractor-panic@"+site+"/"+sig, det)
		return
	}
	if got != expected {
		det["extracted"] = got
		det["expected_extract"] = expected
		c.Violation("extractor/"+sig, det)
	}
	// the returned string is the caller's: the next extractor call (on a message at least as long) leaves it alone
	if was := strings.Clone(got); got != "" {
		valid.GetOnlyExplainErr("\"o.f\" input \"\", explain: " + strings.Repeat("#", len(got)+2))
		if got != was {
			c.Violation("extractor/result-changed-by-the-next-call", map[string]interface{}{"message": errStr, "result_when_returned": was, "result_after_the_next_call": got})
			return
		}
	}
	// what the three preceding extractor calls returned still reads as it did when it was returned
	for _, k := range keptExtracts {
		if k.live != k.copy {
			c.Violation("extractor/earlier-result-changed-by-a-later-call", map[string]interface{}{"earlier_message": k.from, "earlier_result_when_returned": k.copy, "earlier_result_now": k.live, "later_message": errStr})
			keptExtracts = nil
			break
		}
	}
	keptExtracts = append(keptExtracts, keptExtract{got, strings.Clone(got), errStr})
	if len(keptExtracts) > 3 {
		keptExtracts = keptExtracts[1:]
	}
}

type keptExtract struct{ live, copy, from string }

var keptExtracts []keptExtract

func run(c *runner.Ctx) {
	base := os.Getenv("VERIF_SCRATCH")
	if base == "" {
		base = os.TempDir()
	}
	root := filepath.Join(base, fmt.Sprintf("c15-%d", os.Getpid()))
	os.MkdirAll(filepath.Join(root, "d"), 0755)
	os.WriteFile(filepath.Join(root, "f"), []byte("x"), 0644)
	cases := ruleCases(filepath.Join(root, "missing"), filepath.Join(root, "d"), filepath.Join(root, "f"))

	c.Space("plumbing")
	for _, rc := range cases {
		for _, m := range messages {
			if !c.Take() {
				continue
			}
			rules := withMsg(rc.rule, m)
			cars := []carrier.Kind{carrier.StructRM}
			if carrier.TagOK(rules) {
				// (also after a call that overrode the field's rule for that call only: the tag's message is the one reported)
				cars = append(cars, carrier.StructTag, carrier.StructTagHist, carrier.StructTagOtherTag, carrier.StructFirstOtherTag, carrier.StructTagLocalFn, carrier.StructFirstOverride, carrier.StructWrappers)
			}
			if !rc.structs {
				cars = append(cars, carrier.Var, carrier.Map, carrier.SliceMap, carrier.Url)
			}
			for _, car := range cars {
				if !carrier.Supports(car, rc.val) {
					continue
				}
				if (car == carrier.Map || car == carrier.SliceMap) && rc.val.Kind() == reflect.Slice {
					continue // Map documents scalar values
				}
				if car == carrier.Url && strings.ContainsAny(rc.val.String(), "&=?#%+") {
					continue
				}
				var errStr string
				var isNil bool
				pan, pmsg, site := runner.Guard(func() { errStr, isNil = carrier.Validate(car, rc.val, rules) })
				nt := m != ""
				c.Done(nt, 1)
				det := map[string]interface{}{"rules": rules, "value": fmt.Sprint(rc.val.Interface()), "carrier": car, "error": errStr}
				rname := rc.rule
				if k := strings.IndexAny(rname, "=|"); k > 0 {
					rname = rname[:k]
				}
				if pan {
					det["panic"] = pmsg
					c.Violation("panic@"+site, det)
					continue
				}
				cls := errparse.Parse(errStr)
				if isNil || len(cls) != 1 || !cls[0].HasInput {
					c.Violation(rname+"/expected-one-value-clause", det)
					continue
				}
				cl := cls[0]
				mclass := "ascii"
				if zh.MatchString(m) {
					mclass = "cjk"
				}
				oserr := rc.deflt == "\x00oserr"
				if m != "" {
					wantLabel := "explain:"
					if zh.MatchString(m) {
						wantLabel = "说明:"
					}
					if cl.Label != wantLabel || cl.Text != m {
						kind := "message-not-verbatim"
						if cl.Text == m {
							kind = "wrong-label"
						} else if oserr && (rname == "file" || rname == "dir") {
							kind = "message-replaced-by-os-error"
						}
						det["expected_label"], det["expected_text"] = wantLabel, m
						c.Violation(fmt.Sprintf("%s/%s/%s-msg", rname, kind, mclass), det)
						continue
					}
				} else if !oserr {
					if cl.Label != "explain:" || cl.Text != rc.deflt {
						det["expected_text"] = rc.deflt
						c.Violation(rname+"/default-wording", det)
						continue
					}
				}
				if rc.input != "\x00" && cl.Input != rc.input {
					det["expected_input"] = rc.input
					c.Violation(rname+"/echoed-input", det)
					continue
				}
				if want := carrier.PathPrefix(car, rc.val); cl.Path != want {
					det["expected_path"] = want
					c.Violation(rname+"/path/"+string(car), det)
					continue
				}
				c.Outcome("ok:" + mclass)
				// extractor on this single-clause error
				checkExtractor(c, errStr, expectedExplain(cls), "single-clause", det)
			}
			c.Sample(func() interface{} {
				return map[string]interface{}{"rules": rules, "value": fmt.Sprint(rc.val.Interface())}
			})
		}
	}

	// (1a') required with a message on a key that is missing altogether (Map) / a parameter that is not in the query (Url)
	c.Space("required-with-message/missing-key")
	for _, m := range messages {
		if m == "" || !c.Take() {
			continue
		}
		forms := []struct {
			name string
			path string
			f    func() error
		}{
			{"Map(empty map)", "map[k]", func() error { return valid.Map(map[string]string{}, valid.RM{"k": "required|" + m}) }},
			{"Map(other keys)", "map[k]", func() error { return valid.Map(map[string]int{"a": 1}, valid.RM{"k": "required|" + m}) }},
			{"Map(slice of maps)", "[0]map[k]", func() error { return valid.Map([]map[string]string{{"a": "x"}}, valid.RM{"k": "required|" + m}) }},
			{"Url(other parameters)", "k", func() error { return valid.Url("http://h/p?a=1&z=2", valid.RM{"k": "required|" + m}) }},
			{"Url(no query)", "k", func() error { return valid.Url("http://h/p", valid.RM{"k": "required|" + m}) }},
		}
		wantLabel := "explain:"
		if zh.MatchString(m) {
			wantLabel = "说明:"
		}
		for _, fm := range forms {
			var err error
			pan, pmsg, site := runner.Guard(func() { err = fm.f() })
			c.Done(true, 1)
			det := map[string]interface{}{"form": fm.name, "message": m}
			if pan {
				det["panic"] = pmsg
				c.Violation("panic@"+site, det)
				continue
			}
			if err == nil {
				c.Violation("missing-key/no-clause", det)
				continue
			}
			det["error"] = err.Error()
			cls := errparse.Parse(err.Error())
			if len(cls) != 1 || cls[0].Text != m || cls[0].Label != wantLabel {
				det["expected_label"], det["expected_text"] = wantLabel, m
				kind := "message-not-verbatim"
				if len(cls) == 1 && cls[0].Text == m {
					kind = "wrong-label"
				}
				c.Violation("missing-key/"+kind+"/"+strings.Fields(fm.name)[0][:3], det)
				continue
			}
			checkExtractor(c, err.Error(), expectedExplain(cls), "missing-key", det)
			c.Outcome("ok:missing-key")
		}
	}

	// (1b) a bare required after a rule that carries a message, on an empty value: the required clause has its own
	// (default) wording - messages belong to the rule they are written on
	c.Space("messaged-rule-then-bare-required")
	for _, rc := range cases {
		if rc.structs || rc.rule == "required" {
			continue
		}
		for _, m := range messages {
			if m == "" || !c.Take() {
				continue
			}
			zero := reflect.Zero(rc.val.Type())
			for _, order := range []string{"msg-first", "req-first", "req-msg-first"} {
				rules := withMsg(rc.rule, m) + ",required"
				wantText, wantLabel := "it is required", "explain:"
				switch order {
				case "req-first":
					rules = "required," + withMsg(rc.rule, m)
				case "req-msg-first":
					rules = "required|need it," + rc.rule
					wantText = "need it"
				}
				cars := []carrier.Kind{carrier.StructRM, carrier.Var}
				if carrier.TagOK(rules) {
					cars = append(cars, carrier.StructTag, carrier.StructTagOtherTag)
				}
				if k := zero.Kind(); k != reflect.Slice && k != reflect.Array {
					cars = append(cars, carrier.Map)
				}
				for _, car := range cars {
					if !carrier.Supports(car, zero) {
						continue
					}
					var errStr string
					var isNil bool
					pan, pmsg, site := runner.Guard(func() { errStr, isNil = carrier.Validate(car, zero, rules) })
					c.Done(true, 1)
					det := map[string]interface{}{"rules": rules, "value": "zero " + zero.Type().String(), "carrier": car, "error": errStr}
					if pan {
						det["panic"] = pmsg
						c.Violation("panic@"+site, det)
						continue
					}
					cls := errparse.Parse(errStr)
					if isNil || len(cls) != 1 || cls[0].Label != wantLabel || cls[0].Text != wantText {
						det["expected_text"] = wantLabel + " " + wantText
						c.Violation("required/wording-taken-from-another-rule/"+order, det)
					}
				}
			}
		}
	}

	// (2) clause-kind sequences
	c.Space("extractor-sequences")
	kinds := []byte{'Z', 'E', 'D', 'U', 'M'} // M (round 14): the rule-writing error of a malformed to / oto rule, as the library words it
	maxLen := 5
	if c.Thorough() {
		maxLen = 7
	}
	for total := 1; total <= maxLen; total++ {
		for g := 0; g <= total && g <= 2; g++ {
			k := total - g
			n := 1
			for i := 0; i < k; i++ {
				n *= len(kinds)
			}
			for x := 0; x < n; x++ {
				if !c.Take() {
					continue
				}
				seq := make([]byte, k)
				y := x
				for i := k - 1; i >= 0; i-- {
					seq[i] = kinds[y%len(kinds)]
					y /= len(kinds)
				}
				runSeq(c, seq, g)
			}
		}
	}
	// the same sequences (up to length 4) under two clause separators chosen by the caller
	for _, sp := range []string{" | ", "\t"} {
		seqSep = sp
		c.Space(fmt.Sprintf("extractor-sequences/separator=%q", sp))
		for total := 1; total <= 4; total++ {
			for g := 0; g <= total && g <= 2; g++ {
				k := total - g
				n := 1
				for i := 0; i < k; i++ {
					n *= len(kinds)
				}
				for x := 0; x < n; x++ {
					if !c.Take() {
						continue
					}
					seq := make([]byte, k)
					y := x
					for i := k - 1; i >= 0; i-- {
						seq[i] = kinds[y%len(kinds)]
						y /= len(kinds)
					}
					runSeq(c, seq, g)
				}
			}
		}
	}
	seqSep = ""
	// the same sequences (up to length 4) with a lone double quote / a backslash inside every custom message
	for _, dec := range []string{"\"", "\\d{4}", " C:\\dir\\", "“"} {
		seqDecor = dec
		c.Space(fmt.Sprintf("extractor-sequences/messages-holding-%q", dec))
		for total := 1; total <= 4; total++ {
			for g := 0; g <= total && g <= 2; g++ {
				k := total - g
				n := 1
				for i := 0; i < k; i++ {
					n *= len(kinds)
				}
				for x := 0; x < n; x++ {
					if !c.Take() {
						continue
					}
					seq := make([]byte, k)
					y := x
					for i := k - 1; i >= 0; i-- {
						seq[i] = kinds[y%len(kinds)]
						y /= len(kinds)
					}
					runSeq(c, seq, g)
				}
			}
		}
	}
	seqDecor = ""
}

// seqDecor, when set, is appended to every custom message of a sequence (a lone double quote, backslashes).
var seqDecor string

// seqSep, when set, is installed as the clause separator (the exported ErrEndFlag) for the validation and the
// extraction of one sequence.
var seqSep string

func runSeq(c *runner.Ctx, seq []byte, groups int) {
	sep := "; "
	if seqSep != "" {
		old := valid.ErrEndFlag
		valid.ErrEndFlag = seqSep
		defer func() { valid.ErrEndFlag = old }()
		sep = seqSep
	}
	var fields []reflect.StructField
	var wantExplain []string
	var malformed []int // fields that hold a value, so that their (malformed) size rule is looked at
	strT := reflect.TypeOf("")
	for i, k := range seq {
		tag := ""
		switch k {
		case 'Z':
			tag = fmt.Sprintf("required|必填%d%s", i, seqDecor)
			wantExplain = append(wantExplain, fmt.Sprintf("必填%d%s", i, seqDecor))
		case 'E':
			tag = fmt.Sprintf("required|need%d%s", i, seqDecor)
			wantExplain = append(wantExplain, fmt.Sprintf("need%d%s", i, seqDecor))
		case 'D':
			tag = "required"
			wantExplain = append(wantExplain, "it is required")
		case 'U':
			tag = fmt.Sprintf("zz%d", i)
		case 'M':
			tag = []string{"to=5", "oto=1-10", "oto=7"}[i%3]
			malformed = append(malformed, i)
		}
		fields = append(fields, reflect.StructField{Name: fmt.Sprintf("F%d", i), Type: strT, Tag: reflect.StructTag(`valid:` + strconv.Quote(tag))})
	}
	var unequal []int
	for gi := 0; gi < groups; gi++ {
		rule, text := "either", "they shouldn't all be empty"
		if gi == 1 {
			rule, text = "botheq", "they should be equal"
			unequal = append(unequal, len(fields))
		}
		for j := 0; j < 2; j++ {
			fields = append(fields, reflect.StructField{Name: fmt.Sprintf("G%d%c", gi, 'a'+j), Type: strT, Tag: reflect.StructTag(fmt.Sprintf(`valid:"%s=%d"`, rule, gi+1))})
		}
		wantExplain = append(wantExplain, text)
	}
	st := reflect.StructOf(fields)
	p := reflect.New(st)
	for _, fi := range unequal {
		p.Elem().Field(fi).SetString("x")
	}
	for _, fi := range malformed {
		p.Elem().Field(fi).SetString("abc")
	}
	var err error
	pan, msg, site := runner.Guard(func() { err = valid.Struct(p.Interface()) })
	mixed := 0
	seen := map[byte]bool{}
	for _, k := range seq {
		if !seen[k] {
			seen[k] = true
			mixed++
		}
	}
	if groups > 0 {
		mixed++
	}
	c.Done(mixed >= 2, 1)
	desc := string(seq) + strings.Repeat("G", groups)
	det := map[string]interface{}{"clause_kinds": desc}
	if pan {
		det["panic"] = msg
		c.Violation("panic@"+site, det)
		return
	}
	if err == nil {
		c.Violation("sequence-not-realised", det)
		return
	}
	det["error"] = err.Error()
	det["separator"] = sep
	cls := errparse.Parse(strings.ReplaceAll(err.Error(), sep, "; "))
	if len(cls) != len(seq)+groups {
		c.Violation("sequence-not-realised", det)
		return
	}
	// signature: shape of the first label transition, so that distinct extractor defects stay distinct
	sig := "sequence"
	prev := byte(0)
	for _, k := range []byte(desc) {
		lab := map[byte]byte{'Z': 'z', 'E': 'e', 'D': 'e', 'G': 'e', 'U': 'u', 'M': 'u'}[k]
		if prev != 0 && prev != lab {
			sig = fmt.Sprintf("sequence/%c-then-%c", prev, lab)
			break
		}
		prev = lab
	}
	if sig == "sequence" && prev == 'u' {
		sig = "sequence/only-unlabelled"
	}
	if desc[0] == 'U' {
		sig = "sequence/unlabelled-first"
	}
	// group clauses come in no particular order (the library keeps groups in a Go map)
	if groups == 2 && strings.Index(err.Error(), "they should be equal") < strings.Index(err.Error(), "they shouldn't all be empty") {
		n := len(wantExplain)
		wantExplain[n-2], wantExplain[n-1] = wantExplain[n-1], wantExplain[n-2]
	}
	if seqSep != "" {
		sig += "/other-separator"
		if strings.HasSuffix(err.Error(), "; ") || strings.HasSuffix(err.Error(), sep) {
			c.Violation("trailing-separator/other-separator", det)
		}
	}
	checkExtractor(c, err.Error(), strings.Join(wantExplain, sep), sig, det)
	c.Outcome("seq-checked")
	c.Sample(func() interface{} { return map[string]interface{}{"clause_kinds": desc, "error": err.Error()} })
}

func main() {
	runner.Main(runner.Config{
		Property:  "C15",
		Technique: "bounded-exhaustive enumeration: rule x message x carrier plumbing sweep and all clause-kind sequences up to length 5 realised by real validation calls, vs extractor model",
		Rule: "(1) 47 (rule, violating value) cases x 10 messages (none, ASCII, CJK, mixed, 1-byte, with '=', quoted commas) x carriers {struct tag, struct tag after a call under another tag name / first seen under another tag name / after a call with local functions / first seen by an overriding call / every spelling of the entry point, struct per-call, Var, map, []map, URL}: one clause, label by CJK content, message verbatim, " +
			"default wording table, echoed input, path; (2) every sequence over {Chinese-labelled, English-labelled, default-worded, unlabelled}^k followed by 0..2 group clauses, k+g<=5, built as a synthesised struct and validated; " +
			"GetOnlyExplainErr(err) = explanation parts of the labelled clauses joined by '; ', and what it returned still reads the same after later extractor calls; non-trivial = custom message / sequences mixing >=2 label kinds",
		Assumptions: []string{"messages and values contain neither '; ' nor the label words", "clause parser internal/errparse"},
		Run:         run,
	})
}
