package main

import (
	"fmt"
	"reflect"
	"sort"
	"strings"

	"gitee.com/xuesongtao/protoc-go-valid/valid"
	"verif/internal/runner"
	"verif/internal/walk"
)

// PG: group members with fields in between whose rule is a caller-supplied function.
type PG struct {
	A string `valid:"either=1"`
	X string `valid:"boom"`
	B string `valid:"either=1"`
	C int    `valid:"botheq=2"`
	Y string `valid:"boom"`
	D int    `valid:"botheq=2"`
	E string `valid:"either=3"`
	F string `valid:"either=3"`
}

type PGHolder struct {
	First PG    `valid:"required"`
	Rest  []*PG `valid:"exist"`
}

// panickingFunctions (round 13): a caller-supplied function panics on a field that stands between the members of a
// group. The panic may reach the caller (nothing is claimed then); a call that returns normally has judged every group
// on all of its members: the group clauses equal the model's (the panicking function taken as silent).
func panickingFunctions(c *runner.Ctx) {
	c.Space("a-caller-supplied-function-panics-between-group-members")
	boom := func(errBuf *strings.Builder, validName, objName, fieldName string, tv reflect.Value) {
		var m map[string]int
		m[fieldName] = 1
	}
	strs := []string{"", "a"}
	for code := 0; code < 2*2*2*3*2*3*2*2; code++ {
		if !c.Take() {
			continue
		}
		x := code
		pick := func(n int) int { r := x % n; x /= n; return r }
		pg := PG{A: strs[pick(2)], X: []string{"", "x"}[pick(2)], B: strs[pick(2)], C: pick(3), Y: []string{"", "y"}[pick(2)], D: pick(3), E: strs[pick(2)], F: strs[pick(2)]}
		other := PG{A: pg.B, B: pg.A, C: pg.D, D: pg.C, E: pg.F, F: pg.E, X: pg.Y}
		for _, shape := range []string{"*PG", "[]PG", "PGHolder"} {
			var src interface{}
			switch shape {
			case "*PG":
				p := pg
				src = &p
			case "[]PG":
				src = []PG{other, pg}
			default:
				p, q := pg, other
				src = &PGHolder{First: q, Rest: []*PG{&p}}
			}
			var err error
			pan, _, _ := runner.Guard(func() { err = valid.StructForFns(src, nil, valid.Name2FnMap{"boom": boom}) })
			c.Done(true, 1)
			if pan {
				c.Outcome("panic-reached-the-caller")
				continue
			}
			got := ""
			if err != nil {
				got = err.Error()
			}
			exp := walk.Struct(src, walk.Opts{CallFns: map[string]walk.Fn{"boom": func(rule, objName, fieldName string, v reflect.Value) string { return "" }}})
			// group clauses of the result = clauses that are not field clauses of the model
			isField := map[string]int{}
			for _, f := range exp.Fields {
				isField[f]++
			}
			var groups []string
			for _, cl := range strings.Split(got, "; ") {
				if cl == "" {
					continue
				}
				if isField[cl] > 0 {
					isField[cl]--
					continue
				}
				groups = append(groups, cl)
			}
			want := append([]string{}, exp.Groups...)
			sort.Strings(groups)
			sort.Strings(want)
			if strings.Join(groups, "; ") != strings.Join(want, "; ") {
				c.Violation("returned-normally-with-groups-judged-on-some-members-only", map[string]interface{}{"value": fmt.Sprintf("%+v", pg), "shape": shape, "expected_group_clauses": want, "other_clauses_in_result": groups, "actual": got})
			}
			c.Outcome("returned")
		}
	}
}
