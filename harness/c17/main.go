// C17 — either / botheq groups are judged per object, all-empty and all-equal.
// E-enum: all assignments of groups {none, either=1, either=2, botheq=1, botheq=2} to 2..4 fields x all value
// assignments {zero,x,y} x placements (single struct, slice elements, nested object + parent with the same group id,
// map entries) and the same groups through Map ([]map) and Url; expected group clauses from the per-object model.
package main

import (
	"fmt"
	"reflect"
	"sort"
	"strings"

	"gitee.com/xuesongtao/protoc-go-valid/valid"
	"verif/internal/errparse"
	"verif/internal/runner"
	"verif/internal/walk"
)

var groupMenu = []string{"", "either=1", "either=2", "botheq=1", "botheq=2"}

type kindT struct {
	name string
	t    reflect.Type
	vals []interface{}
	strs []string
	// fresh, if set, builds value i anew on every use (pointer kinds: two members never share a pointer, equality is
	// equality of what they point to)
	fresh func(i int) interface{}
}

func (k kindT) val(i int) interface{} {
	if k.fresh != nil {
		return k.fresh(i)
	}
	return k.vals[i]
}

var kindsT = []kindT{
	{"string", reflect.TypeOf(""), []interface{}{"", "x", "y"}, []string{"", "x", "y"}, nil},
	{"int32", reflect.TypeOf(int32(0)), []interface{}{int32(0), int32(1), int32(2)}, []string{"0", "1", "2"}, nil},
	// further comparable kinds (2..3 members): emptiness of a fixed-size array is "all elements zero", not "length 0"
	{"[2]int32", reflect.TypeOf([2]int32{}), []interface{}{[2]int32{}, [2]int32{1, 0}, [2]int32{0, 2}}, []string{"[0 0]", "[1 0]", "[0 2]"}, nil},
	{"float64", reflect.TypeOf(float64(0)), []interface{}{float64(0), 1.5, 2.5}, []string{"0", "1.5", "2.5"}, nil},
	{"bool", reflect.TypeOf(false), []interface{}{false, true, true}, []string{"false", "true", "true"}, nil},
	{"uint8", reflect.TypeOf(uint8(0)), []interface{}{uint8(0), uint8(1), uint8(255)}, []string{"0", "1", "255"}, nil},
	// different values that print alike with %v: equality is equality of values, not of renderings
	{"[2]string", reflect.TypeOf([2]string{}), []interface{}{[2]string{}, [2]string{"a b", ""}, [2]string{"a", "b "}}, []string{"zero", "x", "y"}, nil},
	{name: "*int32", t: reflect.TypeOf((*int32)(nil)), vals: []interface{}{(*int32)(nil), (*int32)(nil), (*int32)(nil)}, strs: []string{"nil", "->7", "->8"},
		fresh: func(i int) interface{} {
			if i == 0 {
				return (*int32)(nil)
			}
			v := int32(6 + i)
			return &v
		}},
	{"struct{A,B string}", reflect.TypeOf(struct{ A, B string }{}), []interface{}{struct{ A, B string }{}, struct{ A, B string }{"x y", "z"}, struct{ A, B string }{"x", "y z"}}, []string{"zero", "x", "y"}, nil},
}

// canonical form of an error for unordered comparison: group clauses as sorted member lists + text.
func canon(errStr string) []string {
	var out []string
	for _, cl := range errparse.Parse(errStr) {
		if cl.Group {
			m := append([]string{}, cl.Members...)
			sort.Strings(m)
			out = append(out, "G{"+strings.Join(m, ",")+"}"+cl.Text)
		} else {
			out = append(out, cl.Raw)
		}
	}
	sort.Strings(out)
	return out
}

func eqs(a, b []string) bool {
	if len(a) != len(b) {
		return false
	}
	for i := range a {
		if a[i] != b[i] {
			return false
		}
	}
	return true
}

func report(c *runner.Ctx, place, desc string, expected []string, actualErr error, pan bool, pmsg, site string, ngroups int, differing bool) {
	c.Done(ngroups >= 2 || differing, 1)
	actual := ""
	if actualErr != nil {
		actual = actualErr.Error()
	}
	det := map[string]interface{}{"placement": place, "case": desc, "expected": expected, "actual": actual}
	if pan {
		det["panic"] = pmsg
		c.Violation("panic@"+site+"/"+place, det)
		return
	}
	got := canon(actual)
	if eqs(got, expected) {
		c.Outcome(fmt.Sprintf("%s:clauses=%d", place, len(got)))
		return
	}
	kind := "different"
	switch {
	case len(got) < len(expected):
		kind = "missing-group-clause"
	case len(got) > len(expected):
		kind = "extra-group-clause"
	}
	c.Outcome("mismatch")
	if place == "map-entries-keys-that-print-the-same" {
		kind = "groups-merged" // one call site: objects told apart only by a path that prints the same
	}
	c.Violation(place+"/"+kind, det)
}

func structCases(c *runner.Ctx, k int, kd kindT) {
	structCasesV(c, k, kd, "")
	if k <= 3 {
		// the first grouped member also carries required (before the group rule): it stays a member of its group
		structCasesV(c, k, kd, "required,")
	}
	if k <= 3 && kd.name == "string" {
		// every grouped member carries a quoted rule of its own in front of the group rule (the group rule is the last
		// thing in a rule list that holds quotes)
		structCasesV(c, k, kd, "\x00quoted")
	}
}

func structCasesV(c *runner.Ctx, k int, kd kindT, firstPrefix string) {
	n := 1
	for i := 0; i < k; i++ {
		n *= len(groupMenu)
	}
	nv := 1
	for i := 0; i < k; i++ {
		nv *= 3
	}
	for ga := 0; ga < n; ga++ {
		// build type
		var sf []reflect.StructField
		g := ga
		ngroups := map[string]bool{}
		for i := 0; i < k; i++ {
			r := groupMenu[g%len(groupMenu)]
			g /= len(groupMenu)
			f := reflect.StructField{Name: fmt.Sprintf("F%d", i), Type: kd.t}
			if r != "" {
				if firstPrefix == "\x00quoted" {
					f.Tag = reflect.StructTag(fmt.Sprintf(`valid:"in=('x'/'y'/'q,%d'),%s"`, i, r))
				} else if len(ngroups) == 0 {
					f.Tag = reflect.StructTag(`valid:"` + firstPrefix + r + `"`)
				} else {
					f.Tag = reflect.StructTag(`valid:"` + r + `"`)
				}
				ngroups[r] = true
			}
			sf = append(sf, f)
		}
		if len(ngroups) == 0 {
			continue
		}
		st := reflect.StructOf(sf)
		// nested placement: parent has the same group ids on its own two fields + child
		parent := reflect.StructOf([]reflect.StructField{
			{Name: "P0", Type: kd.t, Tag: `valid:"either=1,botheq=1"`},
			{Name: "P1", Type: kd.t, Tag: `valid:"either=1,botheq=1"`},
			{Name: "Child", Type: reflect.PtrTo(st), Tag: `valid:"exist"`},
			// (both markers on one field, in either order: the sub-objects - and their groups - are met once; round 13)
			{Name: "Kids", Type: reflect.SliceOf(st), Tag: `valid:"exist,required"`},
			{Name: "ByKey", Type: reflect.MapOf(reflect.TypeOf(""), st), Tag: `valid:"exist"`},
			{Name: "Pair", Type: reflect.ArrayOf(2, st), Tag: `valid:"required,exist"`},
		})
		// an embedded object is an object of its own too (same group ids in the outer struct)
		embOuter := reflect.StructOf([]reflect.StructField{
			{Name: "P0", Type: kd.t, Tag: `valid:"either=1,botheq=2"`},
			{Name: "Emb", Type: st, Anonymous: true, Tag: `valid:"exist"`},
			{Name: "P1", Type: kd.t, Tag: `valid:"either=1,botheq=2"`},
			{Name: "EmbP", Type: reflect.PtrTo(st), Tag: `valid:"required"`},
		})
		for va := 0; va < nv; va++ {
			if !c.Take() {
				continue
			}
			mk := func(code int) reflect.Value {
				o := reflect.New(st).Elem()
				x := code
				for i := 0; i < k; i++ {
					o.Field(i).Set(reflect.ValueOf(kd.val(x % 3)))
					x /= 3
				}
				return o
			}
			obj := mk(va)
			other := mk((va*7 + 5) % nv) // a second, different object
			desc := fmt.Sprintf("%s %v values=%v other=%v", kd.name, st, obj.Interface(), other.Interface())
			run1 := func(place string, src interface{}, differing bool) {
				var err error
				pan, msg, site := runner.Guard(func() { err = valid.Struct(src) })
				exp := walk.Struct(src, walk.Opts{})
				report(c, place, desc, canon(exp.Error()), err, pan, msg, site, len(ngroups), differing)
			}
			run1("struct", obj.Addr().Interface(), false)
			sl := reflect.MakeSlice(reflect.SliceOf(st), 2, 2)
			sl.Index(0).Set(obj)
			sl.Index(1).Set(other)
			diff := len(walk.Struct(obj.Interface(), walk.Opts{}).Groups) != len(walk.Struct(other.Interface(), walk.Opts{}).Groups)
			run1("slice-elements", sl.Interface(), diff)
			psl := reflect.MakeSlice(reflect.SliceOf(reflect.PtrTo(st)), 2, 2)
			psl.Index(0).Set(other.Addr())
			psl.Index(1).Set(obj.Addr())
			run1("slice-of-pointers", psl.Interface(), diff)
			mp := reflect.MakeMap(reflect.MapOf(reflect.TypeOf(""), reflect.PtrTo(st)))
			mp.SetMapIndex(reflect.ValueOf("a"), obj.Addr())
			mp.SetMapIndex(reflect.ValueOf("b"), other.Addr())
			run1("map-entries", mp.Interface(), diff)
			// map entries held by value (the walker must judge each entry's own copy)
			vmp := reflect.MakeMap(reflect.MapOf(reflect.TypeOf(""), st))
			vmp.SetMapIndex(reflect.ValueOf("a"), obj)
			vmp.SetMapIndex(reflect.ValueOf("b"), other)
			run1("map-of-values", vmp.Interface(), diff)
			vmp3 := reflect.MakeMap(reflect.MapOf(reflect.TypeOf(0), st))
			vmp3.SetMapIndex(reflect.ValueOf(1), other)
			vmp3.SetMapIndex(reflect.ValueOf(2), obj)
			vmp3.SetMapIndex(reflect.ValueOf(3), mk((va*5+2)%nv))
			run1("map-of-values-3", vmp3.Interface(), true)
			for pv := 0; pv < 3; pv++ {
				p := reflect.New(parent).Elem()
				p.Field(0).Set(reflect.ValueOf(kd.val(pv)))
				p.Field(1).Set(reflect.ValueOf(kd.val((pv * 2) % 3)))
				p.Field(2).Set(obj.Addr())
				ks := reflect.MakeSlice(reflect.SliceOf(st), 2, 2)
				ks.Index(0).Set(other)
				ks.Index(1).Set(obj)
				p.Field(3).Set(ks)
				bk := reflect.MakeMap(reflect.MapOf(reflect.TypeOf(""), st))
				bk.SetMapIndex(reflect.ValueOf("k1"), obj)
				bk.SetMapIndex(reflect.ValueOf("k2"), other)
				p.Field(4).Set(bk)
				p.Field(5).Index(0).Set(obj)
				p.Field(5).Index(1).Set(other)
				run1("nested+parent", p.Addr().Interface(), true)
				e := reflect.New(embOuter).Elem()
				e.Field(0).Set(reflect.ValueOf(kd.val(pv)))
				e.Field(1).Set(obj)
				e.Field(2).Set(reflect.ValueOf(kd.val((pv + 1) % 3)))
				e.Field(3).Set(other.Addr())
				run1("embedded+outer", e.Addr().Interface(), true)
			}
			// two entries whose keys print the same (1 and "1" as interface{} keys; two struct keys): two objects, each with
			// groups of its own - the path names them alike, it does not make them one
			if diff {
				ik := reflect.MakeMap(reflect.MapOf(reflect.TypeOf((*interface{})(nil)).Elem(), reflect.PtrTo(st)))
				ik.SetMapIndex(reflect.ValueOf(1), obj.Addr())
				ik.SetMapIndex(reflect.ValueOf("1"), other.Addr())
				run1("map-entries-keys-that-print-the-same", ik.Interface(), true)
			}
			// map entries under long keys that agree in their first 40 characters: still one object per entry
			{
				lk := reflect.MakeMap(reflect.MapOf(reflect.TypeOf(""), reflect.PtrTo(st)))
				pre := "tenant:acme-holding:region:eu-west-1:zone:b:user:"
				lk.SetMapIndex(reflect.ValueOf(pre+"1001"), obj.Addr())
				lk.SetMapIndex(reflect.ValueOf(pre+"1002"), other.Addr())
				run1("map-entries-long-keys", lk.Interface(), diff)
				lkv := reflect.MakeMap(reflect.MapOf(reflect.TypeOf(""), st))
				lkv.SetMapIndex(reflect.ValueOf(pre+"1001"), other)
				lkv.SetMapIndex(reflect.ValueOf(pre+"1002"), obj)
				holder := reflect.StructOf([]reflect.StructField{{Name: "ByKey", Type: lkv.Type(), Tag: `valid:"exist"`}})
				hv := reflect.New(holder).Elem()
				hv.Field(0).Set(lkv)
				run1("map-field-long-keys", hv.Addr().Interface(), diff)
			}
			// the same object again right after a call that gave one member another rule for that call only
			{
				o2 := mk(va)
				_ = valid.Struct(o2.Addr().Interface(), valid.RM{"F0": "required|only-for-that-call"})
				o3 := mk(va)
				run1("struct-after-override", o3.Addr().Interface(), false)
			}
			// one object reachable along several paths (two pointer fields, twice in a slice, under two map keys): an
			// object of its own at every place it is met
			{
				pst := reflect.PtrTo(st)
				sh := reflect.StructOf([]reflect.StructField{
					{Name: "A", Type: pst, Tag: `valid:"exist"`},
					{Name: "B", Type: pst, Tag: `valid:"required"`},
					{Name: "L", Type: reflect.SliceOf(pst), Tag: `valid:"exist"`},
					{Name: "M", Type: reflect.MapOf(reflect.TypeOf(""), pst), Tag: `valid:"exist"`},
				})
				h := reflect.New(sh).Elem()
				h.Field(0).Set(obj.Addr())
				h.Field(1).Set(obj.Addr())
				l := reflect.MakeSlice(reflect.SliceOf(pst), 3, 3)
				l.Index(0).Set(obj.Addr())
				l.Index(1).Set(other.Addr())
				l.Index(2).Set(obj.Addr())
				h.Field(2).Set(l)
				m := reflect.MakeMap(reflect.MapOf(reflect.TypeOf(""), pst))
				m.SetMapIndex(reflect.ValueOf("x"), obj.Addr())
				m.SetMapIndex(reflect.ValueOf("y"), obj.Addr())
				h.Field(3).Set(m)
				run1("shared-pointer", h.Addr().Interface(), true)
			}
			c.Sample(func() interface{} { return desc })
		}
	}
}

// twoGroupsViaSet: a member of two groups of the same kind whose ids contain each other (1 and 10), the rules collected
// with RM.Set one at a time, through the struct, map and URL entry points.
func twoGroupsViaSet(c *runner.Ctx) {
	for _, kd := range kindsT[:2] {
		for _, kind := range []string{"either", "botheq"} {
			for order := 0; order < 2; order++ {
				c.Space(fmt.Sprintf("two-groups-via-RM.Set/%s/%s/order%d", kd.name, kind, order))
				long, short := kind+"=10", kind+"=1"
				for va := 0; va < 27; va++ {
					if !c.Take() {
						continue
					}
					build := func(names [3]string) (valid.RM, map[string]string) {
						rm := valid.NewRule()
						first, second := long, short
						if order == 1 {
							first, second = short, long
						}
						rm.Set(names[0], first).Set(names[0], second).Set(names[1], short).Set(names[2], long)
						return rm, map[string]string{names[0]: first + "," + second, names[1]: short, names[2]: long}
					}
					x := va
					var vals [3]int
					for i := range vals {
						vals[i] = x % 3
						x /= 3
					}
					desc := fmt.Sprintf("%s %s order=%d values=%v", kd.name, kind, order, vals)
					// struct
					st := reflect.StructOf([]reflect.StructField{{Name: "F0", Type: kd.t}, {Name: "F1", Type: kd.t}, {Name: "F2", Type: kd.t}})
					o := reflect.New(st)
					for i := range vals {
						o.Elem().Field(i).Set(reflect.ValueOf(kd.vals[vals[i]]))
					}
					rm, rs := build([3]string{"F0", "F1", "F2"})
					var err error
					pan, msg, site := runner.Guard(func() { err = valid.Struct(o.Interface(), rm) })
					exp := walk.Struct(o.Interface(), walk.Opts{Unscoped: rs})
					report(c, "struct+RM.Set", desc, canon(exp.Error()), err, pan, msg, site, 2, false)
					// the same fields carrying size rules in their tags (the call's rule replaces the tag rule of the field it
					// names: the members are members whether the tag would have skipped their empty value or not)
					stT := reflect.StructOf([]reflect.StructField{{Name: "F0", Type: kd.t, Tag: `valid:"to=0~99999"`}, {Name: "F1", Type: kd.t, Tag: `valid:"le=99999,ge=0"`}, {Name: "F2", Type: kd.t, Tag: `valid:"noeq=77777"`}})
					oT := reflect.New(stT)
					for i := range vals {
						oT.Elem().Field(i).Set(reflect.ValueOf(kd.vals[vals[i]]))
					}
					pan, msg, site = runner.Guard(func() { err = valid.Struct(oT.Interface(), rm) })
					report(c, "tagged-struct+RM.Set", desc, canon(walk.Struct(oT.Interface(), walk.Opts{Unscoped: rs}).Error()), err, pan, msg, site, 2, false)
					pan, msg, site = runner.Guard(func() { err = valid.NewVStruct().SetRule(rm, oT.Interface()).Valid(oT.Interface()) })
					report(c, "tagged-struct+SetRule(rm, obj)", desc, canon(walk.Struct(oT.Interface(), walk.Opts{Unscoped: rs}).Error()), err, pan, msg, site, 2, false)
					// map / url
					rm, rs = build([3]string{"k0", "k1", "k2"})
					var ms []mm
					mp := reflect.MakeMap(reflect.MapOf(reflect.TypeOf(""), kd.t))
					var q []string
					for i := range vals {
						k := fmt.Sprintf("k%d", i)
						ms = append(ms, mm{k, vals[i] == 0, kd.strs[vals[i]]})
						mp.SetMapIndex(reflect.ValueOf(k), reflect.ValueOf(kd.vals[vals[i]]))
						q = append(q, k+"="+kd.strs[vals[i]])
					}
					pan, msg, site = runner.Guard(func() { err = valid.Map(mp.Interface(), rm) })
					report(c, "Map+RM.Set", desc, mapModel([][]mm{ms}, rs, false), err, pan, msg, site, 2, false)
					if kd.name == "string" {
						u := "http://h/p?" + strings.Join(q, "&")
						pan, msg, site = runner.Guard(func() { err = valid.Url(u, rm) })
						report(c, "Url+RM.Set", desc+" url="+u, mapModel([][]mm{ms}, rs, true), err, pan, msg, site, 2, false)
					}
				}
			}
		}
	}
}

// model of groups for Map / Url: members in order of appearance; per object.
type mm struct {
	key  string
	zero bool
	val  string
}

func mapModel(objs [][]mm, rules map[string]string, ordered bool) []string {
	var out []string
	for _, members := range objs {
		type grp struct {
			rule string
			ms   []mm
		}
		var groups []*grp
		for _, m := range members {
			for _, item := range strings.Split(rules[m.key], ",") {
				if item == "" {
					continue
				}
				var g *grp
				for _, x := range groups {
					if x.rule == item {
						g = x
					}
				}
				if g == nil {
					g = &grp{rule: item}
					groups = append(groups, g)
				}
				g.ms = append(g.ms, m)
			}
		}
		for _, g := range groups {
			either := strings.HasPrefix(g.rule, "either")
			if len(g.ms) == 1 {
				e := walk.ConfigClause("", g.ms[0].key, map[bool]string{true: eitherText, false: bothEqText}[either])
				out = append(out, e)
				continue
			}
			var names []string
			for _, m := range g.ms {
				names = append(names, m.key)
			}
			sort.Strings(names)
			if either {
				all := true
				for _, m := range g.ms {
					if !m.zero {
						all = false
					}
				}
				if all {
					out = append(out, "G{"+strings.Join(names, ",")+"}they shouldn't all be empty")
				}
			} else {
				eq := true
				for _, m := range g.ms[1:] {
					if m.val != g.ms[0].val {
						eq = false
					}
				}
				if !eq {
					out = append(out, "G{"+strings.Join(names, ",")+"}they should be equal")
				}
			}
		}
	}
	sort.Strings(out)
	return out
}

var eitherText string

func mapUrlCases(c *runner.Ctx, k int, kd kindT) {
	n := 1
	for i := 0; i < k; i++ {
		n *= len(groupMenu)
	}
	nv := 1
	for i := 0; i < k; i++ {
		nv *= 3
	}
	for ga := 0; ga < n; ga++ {
		rules := valid.RM{}
		rs := map[string]string{}
		g := ga
		ng := map[string]bool{}
		for i := 0; i < k; i++ {
			r := groupMenu[g%len(groupMenu)]
			g /= len(groupMenu)
			if r != "" {
				rules[fmt.Sprintf("k%d", i)] = r
				rs[fmt.Sprintf("k%d", i)] = r
				ng[r] = true
			}
		}
		if len(ng) == 0 {
			continue
		}
		for va := 0; va < nv; va++ {
			if !c.Take() {
				continue
			}
			mkMembers := func(code int) []mm {
				var ms []mm
				x := code
				for i := 0; i < k; i++ {
					ms = append(ms, mm{fmt.Sprintf("k%d", i), x%3 == 0, kd.strs[x%3]})
					x /= 3
				}
				return ms
			}
			mkMap := func(code int) reflect.Value {
				m := reflect.MakeMap(reflect.MapOf(reflect.TypeOf(""), kd.t))
				x := code
				for i := 0; i < k; i++ {
					m.SetMapIndex(reflect.ValueOf(fmt.Sprintf("k%d", i)), reflect.ValueOf(kd.val(x%3)))
					x /= 3
				}
				return m
			}
			vb := (va*7 + 5) % nv
			desc := fmt.Sprintf("%s rules=%v values=%v other=%v", kd.name, rs, mkMembers(va), mkMembers(vb))
			// single map
			{
				src := mkMap(va).Interface()
				var err error
				pan, msg, site := runner.Guard(func() { err = valid.Map(src, rules) })
				report(c, "Map", desc, mapModel([][]mm{mkMembers(va)}, rs, false), err, pan, msg, site, len(ng), false)
			}
			// two maps in a slice
			{
				sl := reflect.MakeSlice(reflect.SliceOf(reflect.MapOf(reflect.TypeOf(""), kd.t)), 2, 2)
				sl.Index(0).Set(mkMap(va))
				sl.Index(1).Set(mkMap(vb))
				src := sl.Interface()
				var err error
				pan, msg, site := runner.Guard(func() { err = valid.Map(src, rules) })
				report(c, "[]Map", desc, mapModel([][]mm{mkMembers(va), mkMembers(vb)}, rs, false), err, pan, msg, site, len(ng), true)
			}
			// URL (strings only)
			if kd.name == "string" {
				var q []string
				for _, m := range mkMembers(va) {
					q = append(q, m.key+"="+m.val)
				}
				u := "http://h/p?" + strings.Join(q, "&")
				var err error
				pan, msg, site := runner.Guard(func() { err = valid.Url(u, rules) })
				report(c, "Url", desc+" url="+u, mapModel([][]mm{mkMembers(va)}, rs, true), err, pan, msg, site, len(ng), false)
				// reversed parameter order: same verdicts
				for i, j := 0, len(q)-1; i < j; i, j = i+1, j-1 {
					q[i], q[j] = q[j], q[i]
				}
				u = "http://h/p?z=1&" + strings.Join(q, "&")
				pan, msg, site = runner.Guard(func() { err = valid.Url(u, rules) })
				report(c, "Url-reversed", desc+" url="+u, mapModel([][]mm{mkMembers(va)}, rs, true), err, pan, msg, site, len(ng), false)
				// every non-empty value starts with a percent-encoded '#' and ends in an encoded '+': still that value
				q = q[:0]
				for _, m := range mkMembers(va) {
					if m.val == "" {
						q = append(q, m.key+"=")
					} else {
						q = append(q, m.key+"=%23"+m.val+"%2B")
					}
				}
				u = "http://h/p?" + strings.Join(q, "&") + "&z=%23"
				pan, msg, site = runner.Guard(func() { err = valid.Url(u, rules) })
				report(c, "Url-encoded-hash", desc+" url="+u, mapModel([][]mm{mkMembers(va)}, rs, true), err, pan, msg, site, len(ng), false)
			}
		}
	}
}

var bothEqText string

// GT: an either group, a botheq group and a plain rule in one object.
type GT struct {
	A string `valid:"either=1"`
	B string `valid:"either=1"`
	C string `valid:"botheq=2"`
	D string `valid:"botheq=2"`
	E string `valid:"required|need-E"`
}

// otherTerminator: the clause terminator is a package variable a caller may change. A group clause is a clause like
// any other: with another terminator in force, the error is the one produced under the default terminator with every
// terminator replaced (clause by clause, group member lists included), for struct, slice, map and URL input.
func otherTerminator(c *runner.Ctx) {
	vals := []string{"", "x", "y"}
	rm := valid.RM{"A": "either=1", "B": "either=1", "C": "botheq=2", "D": "botheq=2", "E": "required|need-E"}
	eps := []struct {
		name string
		run  func(v [5]string) error
	}{
		{"struct", func(v [5]string) error { return valid.Struct(&GT{v[0], v[1], v[2], v[3], v[4]}) }},
		{"slice-of-structs", func(v [5]string) error {
			return valid.Struct([]GT{{v[0], v[1], v[2], v[3], v[4]}, {v[1], v[0], v[3], v[2], v[4]}})
		}},
		{"map", func(v [5]string) error {
			return valid.Map(map[string]string{"A": v[0], "B": v[1], "C": v[2], "D": v[3], "E": v[4]}, rm)
		}},
		{"url", func(v [5]string) error {
			return valid.Url("http://h/p?A="+v[0]+"&B="+v[1]+"&C="+v[2]+"&D="+v[3]+"&E="+v[4], rm)
		}},
	}
	for _, alt := range []string{" ## ", "\n", ";", " ; "} {
		c.Space(fmt.Sprintf("clause-terminator-%q", alt))
		for _, e := range eps {
			for x := 0; x < 3*3*3*3*2; x++ {
				if !c.Take() {
					continue
				}
				v := [5]string{vals[x%3], vals[x/3%3], vals[x/9%3], vals[x/27%3], vals[x/81%2]}
				var def, other error
				pan, msg, site := runner.Guard(func() {
					def = e.run(v)
					old := valid.ErrEndFlag
					valid.ErrEndFlag = alt
					defer func() { valid.ErrEndFlag = old }()
					other = e.run(v)
				})
				c.Done(true, 2)
				det := map[string]interface{}{"entry_point": e.name, "values_A_B_C_D_E": v, "terminator": alt, "error_under_default_terminator": fmt.Sprint(def), "error_under_this_terminator": fmt.Sprint(other)}
				if pan {
					det["panic"] = msg
					c.Violation("panic@"+site+"/other-terminator", det)
					continue
				}
				if (def == nil) != (other == nil) {
					c.Violation("other-terminator/verdict-differs", det)
					continue
				}
				if def == nil {
					c.Outcome("ok:nil")
					continue
				}
				// clause by clause: the default error's clauses, and the other error split at the other terminator
				want := canon(def.Error())
				got := canon(strings.Join(strings.Split(other.Error(), alt), "; "))
				if !eqs(want, got) || len(strings.Split(other.Error(), alt)) != len(strings.Split(def.Error(), "; ")) {
					det["clauses_default"], det["clauses_other"] = strings.Split(def.Error(), "; "), strings.Split(other.Error(), alt)
					c.Violation("other-terminator/clauses-differ", det)
					continue
				}
				c.Outcome(fmt.Sprintf("ok:clauses=%d", len(want)))
			}
		}
	}
}

// afterAbandonedCall: a call whose user-supplied function panics (the caller recovers, as an HTTP handler does) is
// abandoned after its group members were collected. The group members of the abandoned call belong to that call: the
// next call, on whatever entry point, reports its own groups only.
func afterAbandonedCall(c *runner.Ctx) {
	c.Space("call-after-a-call-abandoned-by-a-panicking-user-function")
	boom := func(errBuf *strings.Builder, validName, objName, fieldName string, tv reflect.Value) {
		panic("user function failed")
	}
	rmBoom := valid.RM{"A": "either=1", "B": "either=1", "C": "botheq=2", "D": "botheq=2", "E": "boom"}
	rm := valid.RM{"A": "either=1", "B": "either=1", "C": "botheq=2", "D": "botheq=2", "E": "required|need-E"}
	abandoned := []struct {
		name string
		run  func()
	}{
		{"struct", func() { valid.StructForFns(&GT{"", "", "x", "y", "e"}, rmBoom, valid.Name2FnMap{"boom": boom}) }},
		{"map", func() {
			valid.MapFn(map[string]string{"A": "", "B": "", "C": "x", "D": "y", "E": "e"}, rmBoom, valid.Name2FnMap{"boom": boom})
		}},
		{"url", func() { valid.NewVUrl().SetRule(rmBoom).SetValidFn("boom", boom).Valid("http://h/p?A=&B=&C=x&D=y&E=e") }},
	}
	next := []struct {
		name string
		run  func(v [5]string) error
	}{
		{"struct", func(v [5]string) error { return valid.Struct(&GT{v[0], v[1], v[2], v[3], v[4]}) }},
		{"map", func(v [5]string) error {
			return valid.Map(map[string]string{"A": v[0], "B": v[1], "C": v[2], "D": v[3], "E": v[4]}, rm)
		}},
		{"url", func(v [5]string) error {
			return valid.Url("http://h/p?A="+v[0]+"&B="+v[1]+"&C="+v[2]+"&D="+v[3]+"&E="+v[4], rm)
		}},
	}
	vals := [][5]string{{"x", "", "y", "y", "e"}, {"", "", "y", "y", "e"}, {"x", "x", "y", "z", "e"}, {"", "", "x", "y", ""}, {"a", "b", "", "", "e"}}
	for _, ab := range abandoned {
		for _, nx := range next {
			for _, v := range vals {
				for reps := 1; reps <= 2; reps++ {
					if !c.Take() {
						continue
					}
					var before, after error
					panicked := 0
					pan, msg, site := runner.Guard(func() {
						before = nx.run(v)
						for i := 0; i < reps; i++ {
							func() {
								defer func() {
									if recover() != nil {
										panicked++
									}
								}()
								ab.run()
							}()
						}
						after = nx.run(v)
					})
					c.Done(true, 2+reps)
					det := map[string]interface{}{"abandoned_call": ab.name, "abandoned_calls": reps, "next_call": nx.name, "values_A_B_C_D_E": v, "result_before": fmt.Sprint(before), "result_after": fmt.Sprint(after)}
					if pan {
						det["panic"] = msg
						c.Violation("panic@"+site+"/after-abandoned-call", det)
						continue
					}
					if panicked != reps {
						// the library kept the panic to itself: this case says nothing about an abandoned call (counted, not a
						// reason to stop - whether such a call is complete is judged in panickingFunctions)
						c.Count("abandoned_call_did_not_reach_the_caller", 1)
						c.Outcome("panic-kept-by-the-library")
						continue
					}
					if !eqs(canon(fmt.Sprint(before)), canon(fmt.Sprint(after))) {
						c.Violation("after-abandoned-call/groups-of-the-abandoned-call-reported", det)
						continue
					}
					c.Outcome("ok")
				}
			}
		}
	}
}

func run(c *runner.Ctx) {
	defer panickingFunctions(c)
	// texts of the rule-writing errors, taken from the model
	type probe struct {
		A string `valid:"either=1"`
		B string `valid:"botheq=1"`
	}
	r := walk.Struct(probe{}, walk.Opts{})
	for _, g := range r.Groups {
		cl := errparse.ParseClause(g)
		if strings.Contains(cl.Text, `"either"`) {
			eitherText = cl.Text
		} else {
			bothEqText = cl.Text
		}
	}
	maxK := 3
	if c.Thorough() {
		maxK = 4
	}
	twoGroupsViaSet(c)
	otherTerminator(c)
	afterAbandonedCall(c)
	for ki, kd := range kindsT {
		for k := 2; k <= maxK; k++ {
			if ki >= 2 && k > 3 && ki < 6 {
				continue // 4 members: string, int32 and the two render-alike kinds
			}
			c.Space(fmt.Sprintf("struct/%s/%d-fields", kd.name, k))
			structCases(c, k, kd)
		}
	}
	for ki, kd := range kindsT {
		for k := 2; k <= maxK; k++ {
			if ki >= 2 && k > 3 && ki < 6 {
				continue // 4 members: string, int32 and the two render-alike kinds
			}
			if kd.fresh != nil {
				continue // Map documents scalar values
			}
			c.Space(fmt.Sprintf("map-url/%s/%d-keys", kd.name, k))
			mapUrlCases(c, k, kd)
		}
	}
}

func main() {
	runner.Main(runner.Config{
		Property:  "C17",
		Technique: "bounded-exhaustive enumeration of group assignments x value assignments x object placements x entry points vs per-object group model",
		Rule: "objects with 2..3 (thorough 4) fields/keys, each in {none, either=1, either=2, botheq=1, botheq=2}, kinds string/int32 (and, up to 3 members, [2]int32, float64, bool, uint8, [2]string and a two-string struct whose distinct values print alike), values {zero,x,y}: all assignments; every type also with `required,` in front of the first member's group rule (2..3 members); placements: single struct, two slice elements, slice of pointers, " +
			"two map entries by pointer, two and three map entries by value, nested child + slice of kids + map of kids by value + array of kids under a parent using the same group ids, and embedded (anonymous) by value / by pointer in an outer struct using the same group ids; Map, []map (two objects), Url (both parameter orders); an either group, a botheq group and a plain rule in one object under 4 other clause terminators x struct / slice / map / URL x all 162 value assignments (clause by clause equal to the default-terminator result); the call after 1..2 calls abandoned by a panicking user function (3 x 3 entry points); expected group clauses (one per violated group, listing all members, " +
			"single-member groups as rule-writing errors) compared as multisets with members as sets; non-trivial = >=2 groups or objects whose verdicts differ",
		Assumptions: []string{"every group member is present in Map/Url inputs (possibly empty)", "group clause order and Map member order unspecified (Go maps)"},
		Run:         run,
	})
}
