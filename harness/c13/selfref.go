package main

import (
	"fmt"
	"runtime"
	"strings"
	"time"

	"gitee.com/xuesongtao/protoc-go-valid/valid"
	"verif/internal/runner"
)

// Types that refer to themselves, directly or through one another. Their values are ordinary finite Go values (the
// object graphs below contain no cycle), but a loop over "the element type of the element type ..." or "the type a
// pointer type points to ..." has no end on them.
type (
	RecSlice []RecSlice
	RecPtr   *RecPtr
	RecMap   map[string]RecMap
	MutA     []MutB
	MutB     []MutA
	PtrA     *PtrB
	PtrB     *PtrA
	RecArr   [1][]RecArr
)

type RecHolder struct {
	P RecPtr   `valid:"exist"`
	S RecSlice `valid:"required"`
	M RecMap   `valid:"exist"`
	Q PtrA     `valid:"required,exist"`
	A MutA     `valid:"exist,unique"`
	V string   `valid:"required"`
}

func selfRefCatalogue() []shaped {
	var q RecPtr
	p1 := RecPtr(&q)
	p2 := RecPtr(&p1)
	var qb PtrB
	pa := PtrA(&qb)
	pb := PtrB(&pa)
	pa2 := PtrA(&pb)
	filled := RecHolder{P: p1, S: RecSlice{nil, {}}, M: RecMap{"a": nil, "b": {"c": {}}}, Q: pa2, A: MutA{MutB{MutA{}}, nil}}
	return []shaped{
		{"RecSlice(nil)", RecSlice(nil)},
		{"RecSlice{}", RecSlice{}},
		{"RecSlice{nil, {}}", RecSlice{nil, {}}},
		{"RecSlice{{{}}}", RecSlice{{{}}}},
		{"&RecSlice{{}}", &RecSlice{{}}},
		{"RecPtr(nil)", RecPtr(nil)},
		{"RecPtr -> nil RecPtr", p1},
		{"RecPtr -> RecPtr -> nil", p2},
		{"RecMap(nil)", RecMap(nil)},
		{"RecMap{}", RecMap{}},
		{"RecMap{a: nil, b: {c: {}}}", RecMap{"a": nil, "b": {"c": {}}}},
		{"MutA{}", MutA{}},
		{"MutA{MutB{MutA{}}, nil}", MutA{MutB{MutA{}}, nil}},
		{"PtrA(nil)", PtrA(nil)},
		{"PtrA -> nil PtrB", pa},
		{"PtrA -> PtrB -> PtrA -> nil", pa2},
		{"RecArr{}", RecArr{}},
		{"RecArr{{RecArr{}}}", RecArr{{RecArr{}}}},
		{"RecHolder{}", RecHolder{}},
		{"&RecHolder{}", &RecHolder{}},
		{"&RecHolder{filled}", &filled},
		{"[]RecHolder{filled, {}}", []RecHolder{filled, {}}},
		{"map[string]*RecHolder{k: filled}", map[string]*RecHolder{"k": &filled}},
		{"map[string]RecSlice{k: {{}}}", map[string]RecSlice{"k": {{}}}},
		{"map[string]RecPtr{k: -> nil}", map[string]RecPtr{"k": p1}},
		{"[]RecPtr{nil, -> nil}", []RecPtr{nil, p1}},
	}
}

// guardHang runs f on its own goroutine. A call of this property takes microseconds; one that has not come back after
// the first wait is looked at once more after a second wait before it is called a hang (the goroutine cannot be
// stopped: it keeps a processor busy until this worker ends, which only happens on a tree that hangs). where is the
// innermost function of the repository on the stuck goroutine's stack.
func guardHang(f func(), wait time.Duration) (panicked bool, msg, site string, hung bool, where string) {
	type res struct {
		pan       bool
		msg, site string
	}
	done := make(chan res, 1)
	go func() {
		p, m, s := runner.Guard(f)
		done <- res{p, m, s}
	}()
	for i := 0; i < 2; i++ {
		select {
		case r := <-done:
			return r.pan, r.msg, r.site, false, ""
		case <-time.After(wait):
		}
	}
	return false, "", "", true, stuckAt()
}

// stuckAt names the innermost repository function of the goroutine that is inside guardHang's call.
func stuckAt() string {
	buf := make([]byte, 1<<20)
	buf = buf[:runtime.Stack(buf, true)]
	for _, g := range strings.Split(string(buf), "\n\n") {
		if !strings.Contains(g, "main.guardHang.func1") || !strings.Contains(g, "[running]") && !strings.Contains(g, "[runnable]") {
			continue
		}
		for _, l := range strings.Split(g, "\n") {
			if strings.HasPrefix(l, "gitee.com/xuesongtao/protoc-go-valid/") {
				fn := strings.TrimPrefix(l, "gitee.com/xuesongtao/protoc-go-valid/")
				if k := strings.LastIndex(fn, "("); k > 0 {
					fn = fn[:k]
				}
				return fn
			}
		}
	}
	return "unknown"
}

// selfRef: every entry point on values of self-referential types, and those values as rule-set targets.
func selfRef(c *runner.Ctx, ents []entry) {
	c.Space("values-of-self-referential-types")
	wait := 30 * time.Second
	if c.ReplayIdx >= 0 {
		wait = 10 * time.Second // re-run of a reported case: a confirmation
	}
	trm := valid.RM{"V": "required,to=1~2", "S": "exist", "P": "required"}
	type call struct {
		name string
		f    func(v interface{}) error
	}
	var calls []call
	for _, e := range ents {
		calls = append(calls, call{e.name, e.f})
	}
	calls = append(calls,
		call{"rule-set-target/SetRule(rm, target)", func(v interface{}) error {
			_ = valid.NewVStruct().SetRule(trm, v).Valid(&Leaf{})
			return valid.NewVStruct().SetRule(trm, v).Valid(v)
		}},
		call{"rule-set-target/NestedStructForRule({target: rm})", func(v interface{}) error {
			m := map[interface{}]valid.RM{}
			hashable := true
			func() {
				defer func() {
					if recover() != nil {
						hashable = false
					}
				}()
				m[v] = trm
			}()
			if !hashable {
				return nil
			}
			_ = valid.NestedStructForRule(&RecHolder{V: "x"}, m)
			return valid.NestedStructForRule(v, m)
		}},
		call{"dump", func(v interface{}) error {
			_ = valid.GetDumpStructStr(v)
			_ = valid.GetDumpStructStrForJson(v)
			return nil
		}},
	)
	for _, sh := range selfRefCatalogue() {
		for _, e := range calls {
			if !c.Take() {
				continue
			}
			pan, msg, site, hung, where := guardHang(func() { _ = e.f(sh.v) }, wait)
			c.Done(true, 1)
			switch {
			case hung:
				c.Outcome("hang")
				c.Violation("hang@"+where, map[string]interface{}{"entry": e.name, "value": sh.name, "hang": fmt.Sprintf("the call had not returned after %s; it is inside %s", 2*wait, where)})
				wait = 5 * time.Second // this worker now shares its processor with a goroutine that spins: later waits are confirmations
			case pan:
				c.Outcome("panic")
				c.Violation(fmt.Sprintf("panic@%s/%s", site, e.name), map[string]interface{}{"entry": e.name, "value": sh.name, "panic": msg})
			default:
				c.Outcome("returned")
			}
			c.Sample(func() interface{} { return map[string]string{"entry": e.name, "value": sh.name} })
		}
	}
}
