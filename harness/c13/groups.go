package main

import (
	"fmt"
	"strings"

	"gitee.com/xuesongtao/protoc-go-valid/valid"
	"verif/internal/runner"
)

// groupCollections: group rules (either / botheq) and required over *collections of maps* (round 12): every slice of
// up to three maps drawn from a menu in which the group's keys are present, empty, partly or wholly missing, and the map
// itself empty or nil - so that a group created by one element meets a later element that has nothing to add to it -
// through Map, MapFn, a pointer to the slice and an array; and the URL forms of the same entries. Oracle: the call returns.
func groupCollections(c *runner.Ctx) {
	c.Space("group-rules-over-collections-of-maps")
	mapMenu := []struct {
		name string
		m    map[string]string
	}{
		{"nil", nil},
		{"{}", map[string]string{}},
		{"{a}", map[string]string{"a": "1"}},
		{"{b}", map[string]string{"b": "2"}},
		{"{a,b equal}", map[string]string{"a": "1", "b": "1"}},
		{"{a,b different}", map[string]string{"a": "1", "b": "2"}},
		{"{a,b empty}", map[string]string{"a": "", "b": ""}},
		{"{other}", map[string]string{"z": "9"}},
	}
	rules := []struct {
		name string
		rm   valid.RM
	}{
		{"either", valid.RM{"a": "either=1", "b": "either=1"}},
		{"botheq", valid.RM{"a": "botheq=1", "b": "botheq=1"}},
		{"either+botheq", valid.RM{"a": "either=1,botheq=2", "b": "botheq=2,either=1"}},
		{"required+either", valid.RM{"a": "required,either=1", "b": "either=1", "z": "required"}},
		{"two groups", valid.RM{"a": "either=1", "b": "either=1", "z": "either=2,botheq=3"}},
	}
	fns := valid.Name2FnMap{}
	forms := []string{"Map([]map)", "MapFn([]map)", "Map(&[]map)", "Map([n]map)", "Map([]map) twice", "Map([]*map)", "VMap object used for the slice"}
	n := len(mapMenu)
	for l := 1; l <= 3; l++ {
		total := 1
		for i := 0; i < l; i++ {
			total *= n
		}
		for x := 0; x < total; x++ {
			idx := make([]int, l)
			y := x
			var names []string
			for i := l - 1; i >= 0; i-- {
				idx[i] = y % n
				y /= n
			}
			for _, i := range idx {
				names = append(names, mapMenu[i].name)
			}
			for _, r := range rules {
				for _, form := range forms {
					if !c.Take() {
						continue
					}
					mk := func() []map[string]string {
						out := make([]map[string]string, l)
						for k, i := range idx {
							if mapMenu[i].m != nil {
								out[k] = map[string]string{}
								for kk, vv := range mapMenu[i].m {
									out[k][kk] = vv
								}
							}
						}
						return out
					}
					pan, msg, site := runner.Guard(func() {
						s := mk()
						switch form {
						case "Map([]map)":
							_ = valid.Map(s, r.rm)
						case "MapFn([]map)":
							_ = valid.MapFn(s, r.rm, fns)
						case "Map(&[]map)":
							_ = valid.Map(&s, r.rm)
						case "Map([n]map)":
							switch l {
							case 1:
								_ = valid.Map([1]map[string]string{s[0]}, r.rm)
							case 2:
								_ = valid.Map([2]map[string]string{s[0], s[1]}, r.rm)
							default:
								_ = valid.Map([3]map[string]string{s[0], s[1], s[2]}, r.rm)
							}
						case "Map([]map) twice":
							_ = valid.Map(s, r.rm)
							_ = valid.Map(s, r.rm)
						case "Map([]*map)":
							ps := make([]*map[string]string, l)
							for k := range s {
								if k%2 == 0 {
									ps[k] = &s[k]
								}
							}
							_ = valid.Map(ps, r.rm)
						default:
							_ = valid.NewVMap().SetRule(r.rm).Valid(s)
						}
					})
					c.Done(l >= 2, 1)
					if pan {
						c.Outcome("panic")
						c.Violation(fmt.Sprintf("panic@%s/group-rules-over-a-collection-of-maps", site), map[string]interface{}{"call": form, "elements": names, "rules": r.name, "panic": msg})
					} else {
						c.Outcome("returned")
					}
				}
			}
		}
	}
}

// objectsAliveTogether: validator *objects* (NewVStruct / NewVVar / NewVMap / NewVUrl) of which two are alive at the
// same time, after 0..2 ordinary calls of the function form (round 12): the steps new / configure / validate of the two
// objects in every interleaving that keeps each object's own order (20 per pair), every validator used once. A caller
// that asks for two validators has two validators, whatever the library pools behind them. Oracle: everything returns.
func objectsAliveTogether(c *runner.Ctx) {
	c.Space("two-validator-objects-alive-together")
	type obj struct {
		steps [3]func()
	}
	kinds := []struct {
		name  string
		plain func()
		mk    func(variant int) *obj
	}{
		{"VVar", func() { _ = valid.Var("abc", "required", "to=1~2") }, func(variant int) *obj {
			var v *valid.VVar
			rules := [][]string{{"required", "to=1~2|short"}, {"in=(a/b)", "unique"}}[variant]
			return &obj{[3]func(){func() { v = valid.NewVVar() }, func() { v.SetRules(rules...) }, func() { _ = v.Valid("abc") }}}
		}},
		{"VStruct", func() { _ = valid.Struct(&Leaf{"abc", 5}) }, func(variant int) *obj {
			var v *valid.VStruct
			rm := []valid.RM{{"V": "required,to=1~2"}, {"W": "eq=3", "V": "either=1"}}[variant]
			return &obj{[3]func(){func() { v = valid.NewVStruct() }, func() { v.SetRule(rm) }, func() { _ = v.Valid(&Leaf{"abc", 5}) }}}
		}},
		{"VMap", func() { _ = valid.Map(map[string]string{"k": "abc"}, valid.RM{"k": "to=1~2"}) }, func(variant int) *obj {
			var v *valid.VMap
			rm := []valid.RM{{"k": "required,to=1~2"}, {"k": "either=1", "j": "either=1,botheq=2"}}[variant]
			return &obj{[3]func(){func() { v = valid.NewVMap() }, func() { v.SetRule(rm) }, func() { _ = v.Valid(map[string]string{"k": "abc", "j": ""}) }}}
		}},
		{"VUrl", func() { _ = valid.Url("http://h/p?k=abc", valid.RM{"k": "to=1~2"}) }, func(variant int) *obj {
			var v *valid.VUrl
			rm := []valid.RM{{"k": "required,to=1~2"}, {"k": "either=1", "j": "either=1,botheq=2"}}[variant]
			return &obj{[3]func(){func() { v = valid.NewVUrl() }, func() { v.SetRule(rm) }, func() { _ = v.Valid("http://h/p?k=abc&j=") }}}
		}},
	}
	// all interleavings of two 3-step sequences: bit strings of length 6 with three ones
	var orders [][]int
	for m := 0; m < 64; m++ {
		ones := 0
		for b := 0; b < 6; b++ {
			ones += m >> b & 1
		}
		if ones != 3 {
			continue
		}
		o := make([]int, 6)
		for b := 0; b < 6; b++ {
			o[b] = m >> b & 1
		}
		orders = append(orders, o)
	}
	for _, ka := range kinds {
		for _, kb := range kinds {
			for before := 0; before <= 2; before++ {
				for _, o := range orders {
					if !c.Take() {
						continue
					}
					var trace []string
					pan, msg, site := runner.Guard(func() {
						for i := 0; i < before; i++ {
							ka.plain()
							if i == 1 {
								kb.plain()
							}
						}
						objs := [2]*obj{ka.mk(0), kb.mk(1)}
						next := [2]int{}
						for _, who := range o {
							trace = append(trace, fmt.Sprintf("%s#%d.%s", []string{ka.name, kb.name}[who], who, []string{"new", "rules", "Valid"}[next[who]]))
							objs[who].steps[next[who]]()
							next[who]++
						}
					})
					c.Done(true, 6+before)
					if pan {
						c.Outcome("panic")
						c.Violation(fmt.Sprintf("panic@%s/two-validator-objects-alive-together", site), map[string]interface{}{"ordinary_calls_before": before, "steps": strings.Join(trace, " "), "panic": msg})
					} else {
						c.Outcome("returned")
					}
				}
			}
		}
	}
}
