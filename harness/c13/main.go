// C13 — validation is total: bad input or bad rules yield an error, never a crash.
// E-enum: a value-shape catalogue x every entry point, and bounded-exhaustive rule-text spaces (token sequences, all
// single-byte edits of seed rules, all byte strings of length <= 2) x entry points. Oracle: the call returns.
package main

import (
	"fmt"
	"net/url"
	"reflect"
	"strings"
	"time"

	"gitee.com/xuesongtao/protoc-go-valid/valid"
	"verif/internal/enum"
	"verif/internal/runner"
)

type Leaf struct {
	V string `valid:"required"`
	W int    `valid:"to=1~3"`
}

type KeyS struct{ A int }

type Holder struct {
	P    *Leaf              `valid:"required"`
	PP   **Leaf             `valid:"required"`
	S    []*Leaf            `valid:"required"`
	A    [2]*Leaf           `valid:"exist"`
	M    map[string]*Leaf   `valid:"required"`
	MI   map[int]Leaf       `valid:"exist"`
	MB   map[bool]*Leaf     `valid:"exist"`
	MK   map[KeyS]*Leaf     `valid:"exist"`
	I    interface{}        `valid:"required"`
	IS   []interface{}      `valid:"exist"`
	SS   [][]Leaf           `valid:"exist"`
	MS   map[string][]Leaf  `valid:"exist"`
	PS   *[]Leaf            `valid:"exist"`
	SM   []map[string]*Leaf `valid:"exist"`
	F    func()             `valid:"exist"`
	C    chan int           `valid:"exist"`
	T    time.Time          `valid:"required"`
	PT   *time.Time         `valid:"exist"`
	PI   *int               `valid:"required,to=1~3"`
	PStr *string            `valid:"exist,phone"`
	E    error              `valid:"exist"`
	U    uintptr            `valid:"to=1~2"`
	Cx   complex128         `valid:"to=1~2,eq=1,in=(1),unique,ints,int,float"`
	B    []byte             `valid:"to=1~2,unique,ints,json"`
	priv *Leaf              `valid:"required"`
}

// Groups: either / botheq members of kinds for which == can panic at run time or is undefined.
type XI struct{ X interface{} }

type Groups struct {
	A interface{}    `valid:"botheq=1"`
	B interface{}    `valid:"botheq=1"`
	C [1]interface{} `valid:"botheq=2"`
	D [1]interface{} `valid:"botheq=2"`
	E XI             `valid:"botheq=3"`
	F XI             `valid:"botheq=3"`
	G []int          `valid:"botheq=4,either=5"`
	H []int          `valid:"botheq=4,either=5"`
	I map[string]int `valid:"botheq=6,either=9"`
	J map[string]int `valid:"botheq=6,either=9"`
	K func()         `valid:"either=7,botheq=8"`
	L func()         `valid:"either=7,botheq=8"`
	M *Leaf          `valid:"botheq=10,either=11"`
	N *Leaf          `valid:"botheq=10,either=11"`
}

// Embedded structs, by pointer (possibly nil) and by value, with and without rules on the embedding field.
type EmbPtr struct {
	*Leaf
	N int `valid:"required"`
}

type EmbVal struct {
	Leaf
	N int `valid:"le=3"`
}

type EmbDeep struct {
	*EmbPtr
	S string `valid:"required"`
}

type EmbRuled struct {
	*Leaf `valid:"exist"`
	X     *EmbVal `valid:"required"`
}

// NumGroups: botheq / either groups whose members are numbers of different families and widths.
type NumGroups struct {
	A int32   `valid:"botheq=1"`
	B uint32  `valid:"botheq=1"`
	C float64 `valid:"botheq=2,either=6"`
	D int64   `valid:"botheq=2,either=6"`
	E uint64  `valid:"botheq=3"`
	F int     `valid:"botheq=3"`
	G uint8   `valid:"botheq=4"`
	H float32 `valid:"botheq=4"`
	I bool    `valid:"botheq=5"`
	J string  `valid:"botheq=5"`
}

func groupShapes() []shaped {
	sl := func() interface{} { return []int{1} }
	mp := func() interface{} { return map[string]interface{}{"a": []int{1}} }
	f := func() {}
	return []shaped{
		{"Groups{zero}", Groups{}},
		{"Groups{A,B=[]int}", &Groups{A: sl(), B: sl()}},
		{"Groups{A=[]int,B=nil}", &Groups{A: sl()}},
		{"Groups{A,B=map}", &Groups{A: mp(), B: mp()}},
		{"Groups{A=[]int,B=map}", &Groups{A: sl(), B: mp()}},
		{"Groups{A,B=func}", &Groups{A: f, B: f}},
		{"Groups{C,D=[[]int]}", &Groups{C: [1]interface{}{sl()}, D: [1]interface{}{sl()}}},
		{"Groups{E,F={[]int}}", &Groups{E: XI{sl()}, F: XI{sl()}}},
		{"Groups{E,F={map}}", &Groups{E: XI{mp()}, F: XI{mp()}}},
		{"Groups{G,H}", &Groups{G: []int{1}, H: []int{1}}},
		{"Groups{I,J}", &Groups{I: map[string]int{"a": 1}, J: map[string]int{"a": 1}}},
		{"Groups{K,L}", &Groups{K: f, L: f}},
		{"Groups{M,N}", &Groups{M: &Leaf{"x", 1}, N: &Leaf{"x", 1}}},
		{"[]Groups", []Groups{{A: sl(), B: sl()}, {E: XI{mp()}, F: XI{mp()}}}},
		{"EmbPtr{nil embedded}", &EmbPtr{}},
		{"EmbPtr{embedded set}", &EmbPtr{Leaf: &Leaf{}, N: 1}},
		{"EmbPtr by value", EmbPtr{}},
		{"[]EmbPtr", []EmbPtr{{}, {Leaf: &Leaf{"x", 1}}}},
		{"map[string]*EmbPtr", map[string]*EmbPtr{"a": {}, "b": nil}},
		{"EmbVal{zero}", &EmbVal{}},
		{"EmbDeep{nil}", &EmbDeep{}},
		{"EmbDeep{->EmbPtr{nil}}", &EmbDeep{EmbPtr: &EmbPtr{}}},
		{"EmbRuled{zero}", &EmbRuled{}},
		{"EmbRuled{X set}", &EmbRuled{X: &EmbVal{}}},
		{"NumGroups{zero}", &NumGroups{}},
		{"NumGroups{all 1}", &NumGroups{A: 1, B: 1, C: 1, D: 1, E: 1, F: 1, G: 1, H: 1, I: true, J: "1"}},
		{"NumGroups{different}", &NumGroups{A: -1, B: 1, C: 0.5, D: 2, E: 1 << 63, F: -1, G: 255, H: 255.5, I: true, J: "true"}},
		{"[]NumGroups", []NumGroups{{A: 1, B: 1}, {C: 2, D: 2, E: 3, F: 3}}},
		{"map number groups via Map", map[string]interface{}{"k": int32(1), "j": uint32(1)}},
		{"map number groups via Map (float, uint64)", map[string]interface{}{"k": 1.0, "j": uint64(1)}},
		{"map groups via Map", map[string]interface{}{"k": sl(), "j": sl()}},
		{"map groups via Map (maps)", map[string]interface{}{"k": mp(), "j": mp()}},
		{"map[string][]int groups", map[string][]int{"k": {1}, "j": {1}}},
	}
}

// PtrColl: fields that are pointers (to pointers) to collections of sub-objects, under both markers.
type PtrColl struct {
	PPS  **[]Leaf           `valid:"exist"`
	PPM  **map[string]*Leaf `valid:"required"`
	PPA  **[2]Leaf          `valid:"exist"`
	PPPS ***[]*Leaf         `valid:"required"`
	PM   *map[string]Leaf   `valid:"exist"`
	PA   *[2]*Leaf          `valid:"required"`
}

func rv(x interface{}) reflect.Value { return reflect.ValueOf(x) }

type shaped struct {
	name string
	v    interface{}
}

func holders() []shaped {
	var out []shaped
	l := &Leaf{"x", 2}
	bad := &Leaf{"", 9}
	var nl *Leaf
	one := 1
	str := "13800138000"
	tm := time.Now()
	add := func(n string, h Holder) {
		out = append(out, shaped{"Holder{" + n + "}", h}, shaped{"&Holder{" + n + "}", &h})
	}
	add("zero", Holder{})
	add("P", Holder{P: l})
	add("P-bad", Holder{P: bad})
	add("PP->nil", Holder{PP: &nl})
	add("PP->leaf", Holder{PP: &l})
	add("S[nil]", Holder{S: []*Leaf{nil}})
	add("S[nil leaf nil]", Holder{S: []*Leaf{nil, l, nil}})
	add("S[bad]", Holder{S: []*Leaf{bad}})
	add("A[nil leaf]", Holder{A: [2]*Leaf{nil, l}})
	add("A[leaf nil]", Holder{A: [2]*Leaf{bad, nil}})
	add("M{a:nil}", Holder{M: map[string]*Leaf{"a": nil}})
	add("M{a:leaf,b:nil}", Holder{M: map[string]*Leaf{"a": bad, "b": nil}})
	add("MI", Holder{MI: map[int]Leaf{1: {}, 2: *bad}})
	add("MB", Holder{MB: map[bool]*Leaf{true: nil, false: bad}})
	add("MK", Holder{MK: map[KeyS]*Leaf{{1}: bad, {2}: nil}})
	add("I=leaf", Holder{I: *bad})
	add("I=&leaf", Holder{I: bad})
	add("I=nil*leaf", Holder{I: nl})
	add("I=int", Holder{I: 5})
	add("I=[]*leaf{nil}", Holder{I: []*Leaf{nil}})
	add("I=map", Holder{I: map[string]interface{}{"a": nil}})
	add("IS", Holder{IS: []interface{}{nil, *bad, bad, nl, 5, "x", []int{1}}})
	add("SS", Holder{SS: [][]Leaf{nil, {}, {*bad}}})
	add("MS", Holder{MS: map[string][]Leaf{"a": nil, "b": {*bad}}})
	add("PS", Holder{PS: &[]Leaf{*bad}})
	add("SM", Holder{SM: []map[string]*Leaf{nil, {"a": nil}, {"b": bad}}})
	add("F", Holder{F: func() {}})
	add("C", Holder{C: make(chan int)})
	add("T", Holder{T: tm, PT: &tm})
	add("PI", Holder{PI: &one, PStr: &str})
	add("E", Holder{E: fmt.Errorf("e")})
	add("U", Holder{U: 7, Cx: complex(1, 2), B: []byte("ab")})
	add("priv", Holder{priv: bad})
	// pointers (to pointers) to collections: outer pointer set and inner nil, chains set all the way, pointers to nil /
	// empty collections
	{
		var nsl *[]Leaf
		var nmp *map[string]*Leaf
		var nar *[2]Leaf
		var nnsp **[]*Leaf
		var nilSlice []Leaf
		var nilMap map[string]*Leaf
		sl := []Leaf{*bad, {}}
		psl := &sl
		mp := map[string]*Leaf{"a": bad, "b": nil}
		pmp := &mp
		ar := [2]Leaf{*bad, {}}
		par := &ar
		spl := []*Leaf{nil, bad}
		pspl := &spl
		ppspl := &pspl
		mv := map[string]Leaf{"a": *bad}
		ap := [2]*Leaf{nil, bad}
		pnils := &nilSlice
		pnilm := &nilMap
		addC := func(n string, h PtrColl) {
			out = append(out, shaped{"PtrColl{" + n + "}", h}, shaped{"&PtrColl{" + n + "}", &h})
		}
		addC("zero", PtrColl{})
		addC("outer set, inner nil", PtrColl{PPS: &nsl, PPM: &nmp, PPA: &nar, PPPS: &nnsp})
		addC("PPS only: outer set, inner nil", PtrColl{PPS: &nsl})
		addC("PPM only: outer set, inner nil", PtrColl{PPM: &nmp})
		addC("PPA only: outer set, inner nil", PtrColl{PPA: &nar})
		addC("PPPS: two levels set, third nil", PtrColl{PPPS: func() ***[]*Leaf { var p *[]*Leaf; pp := &p; return &pp }()})
		addC("chains set", PtrColl{PPS: &psl, PPM: &pmp, PPA: &par, PPPS: &ppspl, PM: &mv, PA: &ap})
		addC("pointers to nil collections", PtrColl{PPS: &pnils, PPM: &pnilm, PM: &map[string]Leaf{}, PA: &[2]*Leaf{}})
	}
	return out
}

// defined (named) types whose underlying kind is one the entry points accept
type NStr string
type NInt int
type NF float64
type NB bool
type NMap map[string]string
type NKMap map[NStr]int
type NSlice []Leaf
type NStrs []NStr

type NamedFields struct {
	S  NStr           `valid:"required,to=1~3,in=(a1/b),prefix=a,unique"`
	I  NInt           `valid:"to=1~3,in=(1/2),int"`
	F  NF             `valid:"float,le=1"`
	B  NB             `valid:"required,in=(true)"`
	M  NKMap          `valid:"required,ge=3"`
	L  NStrs          `valid:"unique,ints,le=1"`
	LS NSlice         `valid:"required"`
	MS map[NStr]*Leaf `valid:"exist"`
	MN map[NInt]Leaf  `valid:"exist"`
	E1 NStr           `valid:"either=1,botheq=2"`
	E2 NStr           `valid:"either=1,botheq=2"`
}

type Enum int

func (e Enum) String() string { return "enum" + fmt.Sprint(int(e)) }

type myErr struct{ s string }

func (e myErr) Error() string { return e.s }

type StringerHolder struct {
	L []*Enum          `valid:"unique,ints,required,in=(a/b)"`
	D []*time.Duration `valid:"unique,exist"`
	M map[*Enum]*Leaf  `valid:"required"`
	E []error          `valid:"unique,ints"`
	K map[Enum]Leaf    `valid:"exist"`
}

// DynHolder: rules that compare / hash / render elements, on fields whose elements are only dynamically typed.
type DynHolder struct {
	L []interface{}  `valid:"unique,required,ints,to=1~3"`
	A [2]interface{} `valid:"unique,exist"`
	X []XI           `valid:"unique,required"`
	I interface{}    `valid:"unique,in=(1/2),eq=1,either=1,botheq=2"`
	J interface{}    `valid:"either=1,botheq=2"`
}

func namedShapes() []shaped {
	l := Leaf{"", 9}
	ns := NStr("http://h/p?k=a1")
	return []shaped{
		{"map[NStr]int", map[NStr]int{"k": 5, "j": 0}}, {"map[NStr]NStr", map[NStr]NStr{"k": "a1", "j": ""}}, {"NMap", NMap{"k": "a1", "j": ""}}, {"NKMap", NKMap{"k": 5}},
		{"[]map[NStr]string", []map[NStr]string{nil, {"k": "a"}}}, {"[]NMap", []NMap{nil, {"k": "a"}}}, {"&NKMap", &NKMap{"k": 1}}, {"map[NInt]string", map[NInt]string{1: "a"}},
		{"map[string]NStr", map[string]NStr{"k": "a1", "j": ""}}, {"map[string]NInt", map[string]NInt{"k": 5}}, {"map[NStr]Leaf", map[NStr]Leaf{"k": l}}, {"map[NStr]*Leaf", map[NStr]*Leaf{"k": nil, "j": &l}},
		{"NStr", NStr("a1")}, {"NStr url", ns}, {"&NStr", &ns}, {"NInt", NInt(5)}, {"NF", NF(1.5)}, {"NB", NB(true)}, {"NSlice", NSlice{l, {}}}, {"NStrs", NStrs{"a", "a"}}, {"[]NInt", []NInt{1, 1}},
		{"NamedFields{}", NamedFields{}}, {"&NamedFields", &NamedFields{S: "zzzz", I: 9, F: 2.5, B: true, M: NKMap{"a": 1}, L: NStrs{"x", "x"}, LS: NSlice{l}, MS: map[NStr]*Leaf{"a": nil, "b": &l}, MN: map[NInt]Leaf{1: l}, E1: "a"}},
		{"[]NamedFields", []NamedFields{{}, {S: "a1"}}}, {"map[NStr]NamedFields", map[NStr]NamedFields{"a": {}}},
		// dynamic contents whose static type says "comparable" but whose value is not hashable (what encoding/json
		// produces for nested arrays and objects)
		{"[]interface{} of slices", []interface{}{[]int{1}, []int{1}}}, {"[]interface{} of maps", []interface{}{map[string]interface{}{"a": 1}, map[string]interface{}{"a": 1}}},
		{"[]interface{} mixed", []interface{}{"a", []interface{}{"a"}, map[string]int{}, nil, 1.5, func() {}}},
		{"[]XI", []XI{{X: []int{1}}, {X: map[string]int{}}, {X: nil}}}, {"[2]interface{}", [2]interface{}{[]byte("a"), []byte("a")}},
		{"map[string][]interface{}", map[string][]interface{}{"k": {[]int{1}, []int{1}}, "j": {map[string]int{}}}},
		{"map[string]interface{} of slices", map[string]interface{}{"k": []interface{}{[]int{1}}, "j": []int{1, 1}, "W": [][]int{{1}, {1}}}},
		// nil pointers whose pointee type has value-receiver String / Error methods, where elements or keys are rendered
		{"[]*time.Duration{nil}", []*time.Duration{nil, new(time.Duration)}}, {"[2]*Enum", [2]*Enum{nil, new(Enum)}}, {"map[*Enum]Leaf", map[*Enum]Leaf{nil: l, new(Enum): l}},
		{"map[*time.Time]*Leaf", map[*time.Time]*Leaf{nil: &l}}, {"[]error", []error{nil, fmt.Errorf("x"), (*myErr)(nil)}}, {"[]fmt.Stringer", []fmt.Stringer{nil, Enum(1), (*Enum)(nil)}},
		{"map[string][]*Enum", map[string][]*Enum{"k": {nil, nil}, "j": nil}}, {"StringerHolder", &StringerHolder{L: []*Enum{nil, nil}, D: []*time.Duration{nil}, M: map[*Enum]*Leaf{nil: &l}, E: []error{(*myErr)(nil), nil}, K: map[Enum]Leaf{1: l, 2: l}}},
		// URL-looking strings with the query / fragment markers in every order
		{"url #/?", "http://h/#/user/list?k=a1"}, {"url #?", "#?"}, {"url ?#", "?#"}, {"url ??", "??k=1"}, {"url frag only", "http://h/p#top"}, {"url ?k#", "http://h/p?k=a1#top"},
		{"url enc #?", "http%3A%2F%2Fh%2F%23%2Fp%3Fk%3Da1"}, {"url ?", "?"}, {"url #", "#"}, {"url =&", "http://h/p?=&=&&"}, {"url k only", "k"}, {"url &&&", "&&&"}, {"url %", "http://h/p?k=%"},
		{"url ?k=#", "http://h/p?k=#"}, {"url long", "http://h/p?k=" + strings.Repeat("a1&k=", 300)},
		{"DynHolder", &DynHolder{L: []interface{}{[]int{1}, []int{1}}, A: [2]interface{}{map[string]int{}, map[string]int{}}, X: []XI{{X: []int{1}}}, I: []int{1}}},
	}
}

func catalogue() []shaped {
	l := Leaf{"", 9}
	pl := &l
	var nl *Leaf
	var nnl **Leaf
	var ns *string
	var ni *int
	var nm *map[string]string
	var nmap map[string]string
	es := ""
	s := "http://h/p?k=a1"
	i5 := 5
	out := []shaped{
		{"nil", nil},
		{"(*Leaf)(nil)", nl}, {"(**Leaf)(nil)", nnl}, {"&(*Leaf)(nil)", &nl}, {"&&leaf", &pl}, {"leaf", l}, {"&leaf", pl},
		{"(*string)(nil)", ns}, {"(*int)(nil)", ni}, {"(*map)(nil)", nm}, {"nil map", nmap}, {"&nil map", &nmap},
		{"string", "a1"}, {"empty string", ""}, {"&string", &s}, {"&empty", &es}, {"int", 5}, {"&int", &i5}, {"bool", true}, {"float", 1.5}, {"uint8", uint8(3)}, {"uintptr", uintptr(3)}, {"complex", complex(1, 1)},
		{"[]byte", []byte("ab")}, {"[]int", []int{1, 2}}, {"[]int nil", []int(nil)}, {"[]string", []string{"a", "a"}}, {"[0]int", [0]int{}}, {"[2]string", [2]string{"a", ""}}, {"[]bool", []bool{true}},
		{"[][]int", [][]int{{1}, nil}}, {"[]interface{}", []interface{}{nil, 1, "a", l, pl, nl}}, {"[]*int", []*int{nil, &i5}}, {"[]*string", []*string{nil}},
		{"[]Leaf", []Leaf{l, {}}}, {"[]*Leaf{nil}", []*Leaf{nil}}, {"[]*Leaf{leaf,nil}", []*Leaf{pl, nil}}, {"[2]*Leaf", [2]*Leaf{nil, pl}}, {"&[]*Leaf", &[]*Leaf{nil, pl}}, {"[]**Leaf", []**Leaf{nil, &nl, &pl}},
		{"map[string]*Leaf{nil}", map[string]*Leaf{"a": nil}}, {"map[string]*Leaf", map[string]*Leaf{"a": pl, "b": nil}}, {"map[string]Leaf", map[string]Leaf{"a": l}}, {"map[int]Leaf", map[int]Leaf{1: l}},
		{"map[bool]*Leaf", map[bool]*Leaf{true: nil}}, {"map[KeyS]Leaf", map[KeyS]Leaf{{1}: l}}, {"map[interface{}]Leaf", map[interface{}]Leaf{1: l, "a": l}},
		{"map[string]string", map[string]string{"k": "a1", "j": ""}}, {"map[string]int", map[string]int{"k": 5}}, {"map[int]string", map[int]string{1: "a"}}, {"map[bool]int", map[bool]int{true: 1}},
		{"map[string]interface{}", map[string]interface{}{"k": nil, "j": 1, "i": "a", "m": map[string]interface{}{"x": nil}, "s": []interface{}{nil}, "p": nl}},
		{"map[string][]int", map[string][]int{"k": {1}, "j": nil}}, {"map[string]*int", map[string]*int{"k": nil, "j": &i5}}, {"map[string]Leaf as Map", map[string]Leaf{"k": l}},
		{"[]map[string]string", []map[string]string{nil, {"k": "a"}}}, {"[]map[string]interface{}", []map[string]interface{}{nil, {"k": nil}}}, {"[]*map[string]string", []*map[string]string{nil, &nmap}},
		{"[]map[int]string", []map[int]string{{1: "a"}}}, {"[2]map[string]int", [2]map[string]int{nil, {"k": 1}}},
		{"func", func() {}}, {"chan", make(chan int)}, {"error", fmt.Errorf("x")}, {"time", time.Now()}, {"&time", &time.Time{}}, {"reflect.Value", rv(5)},
		{"struct{}", struct{}{}}, {"anon struct", struct {
			A *Leaf `valid:"required"`
			b int   `valid:"required"`
		}{}},
	}
	return append(append(append(out, holders()...), groupShapes()...), namedShapes()...)
}

type entry struct {
	name string
	f    func(v interface{}) error
}

func entries() []entry {
	rm := valid.RM{"V": "required,to=1~2", "k": "required,to=1~3,either=1,botheq=3", "j": "either=1,botheq=2,botheq=3", "P": "required", "S": "exist", "W": "ge=1,botheq=2", "validVar": "required"}
	fns := valid.Name2FnMap{"zz": func(errBuf *strings.Builder, validName, objName, fieldName string, tv reflect.Value) {}}
	return []entry{
		{"Struct", func(v interface{}) error { return valid.Struct(v) }},
		{"Struct+rm", func(v interface{}) error { return valid.Struct(v, rm) }},
		{"StructForFn", func(v interface{}) error { return valid.StructForFn(v, rm, "valid") }},
		{"StructForFn-nilrm", func(v interface{}) error { return valid.StructForFn(v, nil) }},
		{"StructForFns", func(v interface{}) error { return valid.StructForFns(v, rm, fns, "other") }},
		{"NestedStructForRule", func(v interface{}) error {
			return valid.NestedStructForRule(v, map[interface{}]valid.RM{&Leaf{}: rm, &Holder{}: rm})
		}},
		{"NestedStructForRule-self", func(v interface{}) error {
			defer func() { recover() }() // an unhashable rule-map key is the documented misuse of this entry point, not of validation
			m := map[interface{}]valid.RM{}
			func() {
				defer func() { recover() }()
				m[v] = rm
			}()
			return valid.NestedStructForRule(v, m)
		}},
		{"ValidateStruct", func(v interface{}) error { return valid.ValidateStruct(v, "valid") }},
		{"ValidStructForRule", func(v interface{}) error { return valid.ValidStructForRule(rm, v) }},
		{"ValidStructForMyValidFn", func(v interface{}) error { return valid.ValidStructForMyValidFn(v, "zz", fns["zz"]) }},
		{"VStruct.SetRule(obj)", func(v interface{}) error {
			if v == nil { // the scope object of SetRule is not "the thing to validate"; a nil scope is outside the property
				return valid.NewVStruct().SetRule(rm).Valid(v)
			}
			return valid.NewVStruct().SetRule(rm, v).Valid(v)
		}},
		{"Var", func(v interface{}) error { return valid.Var(v, "required", "to=1~3", "unique", "in=(a1/5)") }},
		{"Var-norules", func(v interface{}) error { return valid.Var(v) }},
		{"VarForFn", func(v interface{}) error { return valid.VarForFn(v, fns["zz"]) }},
		{"Map", func(v interface{}) error { return valid.Map(v, rm) }},
		{"Map-nilrm", func(v interface{}) error { return valid.Map(v, nil) }},
		{"MapFn", func(v interface{}) error { return valid.MapFn(v, rm, fns) }},
		{"Url", func(v interface{}) error { return valid.Url(v, rm) }},
		{"Url-nilrm", func(v interface{}) error { return valid.Url(v, nil) }},
		{"UrlForFn", func(v interface{}) error { return valid.UrlForFn(v, "zz", fns["zz"]) }},
	}
}

var ruleNames = []string{"required", "exist", "either", "botheq", "to", "ge", "le", "oto", "gt", "lt", "eq", "noeq", "in", "include", "phone", "email", "idcard", "year", "year2month",
	"date", "datetime", "int", "ints", "float", "re", "ip", "ipv4", "ipv6", "unique", "json", "prefix", "suffix", "file", "dir"}

var seedRules = []string{"required|必填", "exist", "either=1", "botheq=2", "to=1~10|m", "ge=1", "le=3", "oto=0~100", "gt=-1", "lt=5", "eq=2", "noeq=2", "in=(a/b/'c/d')", "include=(ab/cd)|x", "phone", "email|邮箱",
	"idcard", "year", "year2month=/", "date='.'", "datetime='/, ,:'", "datetime", "int", "ints=-", "float", "re='^\\d+$'|数字", "re='a\\'b'", "ip", "ipv4", "ipv6", "unique", "json", "prefix=a", "suffix=b", "file", "dir",
	"required,to=1~3,in=(a/b)", "phone|'需要,同时'", "to=1~2,,re='a,b',", "in=(1/2/3)|选择"}

type Box struct{ F string }
type BoxI struct{ F int }
type BoxS struct{ F []int }

// callers present a rule text to every walker with a few value kinds.
func ruleCallers() []entry2 {
	return []entry2{
		{"Var/string", func(r string) error { return valid.Var("a1", r) }},
		{"Var/date", func(r string) error { return valid.Var("2021-09-28 23:00:00", r) }},
		{"Var/int", func(r string) error { return valid.Var(5, r) }},
		{"Var/float", func(r string) error { return valid.Var(1.5, r) }},
		{"Var/[]int", func(r string) error { return valid.Var([]int{1, 2}, r) }},
		{"Var/[]string", func(r string) error { return valid.Var([]string{"a", "a"}, r) }},
		{"Struct/string", func(r string) error { return valid.Struct(&Box{"a1"}, valid.RM{"F": r}) }},
		{"Struct/zero", func(r string) error { return valid.Struct(&Box{}, valid.RM{"F": r}) }},
		{"Struct/int", func(r string) error { return valid.Struct(BoxI{7}, valid.RM{"F": r}) }},
		{"Struct/[]int", func(r string) error { return valid.Struct(&BoxS{[]int{1}}, valid.RM{"F": r}) }},
		{"Struct/two-fields", func(r string) error { return valid.Struct(&Leaf{"a", 1}, valid.RM{"V": r, "W": r}) }},
		{"Map/string", func(r string) error {
			return valid.Map(map[string]string{"k": "a1", "j": ""}, valid.RM{"k": r, "j": r})
		}},
		{"Map/int", func(r string) error { return valid.Map(map[string]int{"k": 5}, valid.RM{"k": r}) }},
		{"Map/iface", func(r string) error {
			return valid.Map(map[string]interface{}{"k": "a1", "j": nil}, valid.RM{"k": r, "j": r})
		}},
		{"Url", func(r string) error { return valid.Url("http://h/p?k=a1&j=&i", valid.RM{"k": r, "j": r, "i": r}) }},
		{"Parse+Split", func(r string) error {
			for _, p := range valid.ValidNamesSplit(r) {
				valid.ParseValidNameKV(p)
			}
			valid.ValidNamesSplit(r, '/')
			valid.GetOnlyExplainErr(r)
			return nil
		}},
	}
}

type entry2 struct {
	name string
	f    func(rule string) error
}

func ruleShape(r string) string {
	for _, n := range ruleNames {
		if strings.HasPrefix(r, n) {
			return n
		}
	}
	return "other"
}

// envCache is the process-wide struct-type cache of this harness: a real LRU behind a wrapper that can answer Load
// with a miss although the entry is present - the answer a caller legitimately gets when another goroutine evicted or
// has not yet stored the entry (the CacheEr contract). With missEvery == 0 it is a plain pass-through.
type envCache struct {
	inner     valid.CacheEr
	missEvery int
	n         int
}

func (e *envCache) Load(k interface{}) (interface{}, bool) {
	e.n++
	if e.missEvery > 0 && e.n%e.missEvery == 0 {
		return nil, false
	}
	return e.inner.Load(k)
}
func (e *envCache) Store(k, v interface{}) { e.inner.Store(k, v) }

func run(c *runner.Ctx) {
	env := &envCache{inner: valid.NewLRU()}
	valid.SetStructTypeCache(env)
	// (1) values x entry points
	c.Space("values")
	ents := entries()
	// (1b) the same, with the environment answering cache loads with a miss (every load / every 2nd / every 3rd) on a
	// small LRU: the type is analysed and stored again although it is cached, entries are evicted continuously
	for _, me := range []int{1, 2, 3} {
		c.Space(fmt.Sprintf("values/cache-load-misses-every-%d", me))
		env.missEvery = me
		for _, sh := range catalogue() {
			for _, e := range ents {
				if !strings.Contains(e.name, "truct") {
					continue
				}
				if !c.Take() {
					continue
				}
				// self-contained history per case: fresh LRU(1), the call three times with two other types in between
				env.inner, env.n = valid.NewLRU(1), 0
				pan, msg, site := runner.Guard(func() {
					_ = e.f(sh.v)
					_ = e.f(sh.v)
					_ = valid.Struct(&Box{"x"})
					_ = e.f(sh.v)
					_ = valid.Struct(&BoxI{1})
					_ = valid.Struct(&Box{"x"})
					_ = e.f(sh.v)
				})
				c.Done(true, 7)
				if pan {
					c.Outcome("panic")
					c.Violation(fmt.Sprintf("panic@%s/%s/cache-load-miss", site, e.name), map[string]interface{}{"entry": e.name, "value": sh.name, "panic": msg, "cache": fmt.Sprintf("LRU(1), load misses every %d; history: call, call, Struct(Box), call, Struct(BoxI), Struct(Box), call", me)})
				} else {
					c.Outcome("returned")
				}
			}
		}
	}
	env.inner, env.missEvery = valid.NewLRU(), 0
	c.Space("values")
	for _, sh := range catalogue() {
		for _, e := range ents {
			if !c.Take() {
				continue
			}
			pan, msg, site := runner.Guard(func() { _ = e.f(sh.v) })
			c.Done(true, 1)
			if pan {
				c.Outcome("panic")
				c.Violation(fmt.Sprintf("panic@%s/%s", site, e.name), map[string]interface{}{"entry": e.name, "value": sh.name, "panic": msg})
			} else {
				c.Outcome("returned")
			}
			c.Sample(func() interface{} { return map[string]string{"entry": e.name, "value": sh.name} })
		}
	}
	// (1a'') values of self-referential types (type T []T, type P *P, mutually recursive pairs): every entry point returns
	selfRef(c, ents)
	// (1a''') group rules over collections of maps; two validator objects alive at the same time (round 12)
	groupCollections(c)
	objectsAliveTogether(c)
	// (1a') the same catalogue as the object a rule set is registered for (nil, typed nils, scalars, collections, ...):
	// registering and then validating returns normally whatever the target object is
	c.Space("values-as-rule-set-targets")
	trm := valid.RM{"V": "required,to=1~2", "S": "exist"}
	for _, sh := range catalogue() {
		for _, form := range []string{"SetRule(rm, target)", "SetRule(rm, target) then SetRule(rm)", "SetRule(nil, target)", "NestedStructForRule({target: rm})", "SetRule(rm, target, target)"} {
			if !c.Take() {
				continue
			}
			pan, msg, site := runner.Guard(func() {
				switch form {
				case "SetRule(rm, target)":
					_ = valid.NewVStruct().SetRule(trm, sh.v).Valid(&Leaf{})
					_ = valid.NewVStruct().SetRule(trm, sh.v).Valid(sh.v)
				case "SetRule(rm, target) then SetRule(rm)":
					_ = valid.NewVStruct().SetRule(trm, sh.v).SetRule(trm).Valid(&Holder{})
				case "SetRule(nil, target)":
					_ = valid.NewVStruct().SetRule(nil, sh.v).Valid(&Leaf{})
				case "SetRule(rm, target, target)":
					_ = valid.NewVStruct().SetRule(trm, sh.v, sh.v).Valid(&Leaf{})
				default:
					m := map[interface{}]valid.RM{}
					hashable := true
					func() {
						defer func() {
							if recover() != nil {
								hashable = false // an unhashable map key is Go's own refusal, before the library is called
							}
						}()
						m[sh.v] = trm
					}()
					if hashable {
						_ = valid.NestedStructForRule(&Holder{}, m)
						_ = valid.NestedStructForRule(sh.v, m)
					}
				}
			})
			c.Done(true, 1)
			if pan {
				c.Outcome("panic")
				c.Violation(fmt.Sprintf("panic@%s/rule-set-target/%s", site, form), map[string]interface{}{"call": form, "target": sh.name, "panic": msg})
			} else {
				c.Outcome("returned")
			}
		}
	}
	// (1c) arbitrary byte strings as the *value* under every rule that looks at text: every string of <= 2 bytes over
	// all 256 byte values, and every single-byte substitution / insertion in a few seed values
	c.Space("value-bytes")
	valueRules := []string{"json", "re='^a.b$'", "in=(a/b)", "include=(a)", "unique", "ints", "ints=-", "phone", "email", "idcard", "ip", "ipv4", "ipv6", "int", "float", "prefix=a", "suffix=a",
		"to=1~2", "eq=1", "year", "year2month", "date", "datetime", "datetime='/, ,.'", "file", "dir", "required", "either=1", "zz"}
	tryVal := func(v string) {
		if !c.Take() {
			return
		}
		for _, r := range valueRules {
			pan, msg, site := runner.Guard(func() {
				_ = valid.Var(v, r)
				if c.Thorough() {
					_ = valid.Struct(&Box{v}, valid.RM{"F": r + "|m"})
					_ = valid.Map(map[string]string{"k": v}, valid.RM{"k": r})
				}
			})
			c.AddTransitions(1)
			if pan {
				c.Outcome("panic")
				k := r
				if i := strings.IndexAny(k, "=|"); i > 0 {
					k = k[:i]
				}
				c.Violation(fmt.Sprintf("panic@%s/value-bytes/%s", site, k), map[string]interface{}{"rule": r, "value_bytes": fmt.Sprintf("%q", v), "panic": msg})
			}
		}
		c.Done(true, 0)
	}
	for a := 0; a < 256; a++ {
		tryVal(string([]byte{byte(a)}))
		for b := 0; b < 256; b++ {
			tryVal(string([]byte{byte(a), byte(b)}))
		}
	}
	// long values (the json rule abbreviates inputs over 256 bytes in its clause; buffers sized from the input length)
	for _, unit := range []string{"a", "\x1a'", "中", "\xff", "\"", "1", "1,", " ", "\\", "{\"a\":", "*", "-", "\x00", "X", "9"} {
		for _, n := range []int{11, 15, 17, 18, 19, 100, 255, 256, 257, 258, 300, 513, 4096, 70000} {
			tryVal(strings.Repeat(unit, n/len(unit)+1)[:n])
		}
	}
	// fixed-size byte arrays (and byte slices) as the value, reached with and without addressability
	c.Space("byte-arrays")
	type arrBox struct {
		A [4]byte
		S []byte
		J [2]byte
	}
	for _, r := range valueRules {
		if !c.Take() {
			continue
		}
		arr := [4]byte{'a', 'b', 'c', 'd'}
		js := [2]byte{'{', '}'}
		bx := arrBox{A: arr, S: []byte("abcd"), J: js}
		rm := valid.RM{"A": r, "S": r, "J": r}
		calls := map[string]func(){
			"Var([4]byte)":              func() { _ = valid.Var(arr, r) },
			"Var(&[4]byte)":             func() { _ = valid.Var(&arr, r) },
			"Var([2]byte{'{','}'})":     func() { _ = valid.Var(js, r) },
			"Var([]byte)":               func() { _ = valid.Var([]byte("abcd"), r) },
			"Struct(by value)":          func() { _ = valid.Struct(bx, rm) },
			"Struct(by pointer)":        func() { _ = valid.Struct(&bx, rm) },
			"Struct([1]T)":              func() { _ = valid.Struct([1]arrBox{bx}, rm) },
			"Struct(map[string]T)":      func() { _ = valid.Struct(map[string]arrBox{"k": bx}, rm) },
			"Map(map[string][4]byte)":   func() { _ = valid.Map(map[string][4]byte{"k": arr}, valid.RM{"k": r}) },
			"Map([]map[string][2]byte)": func() { _ = valid.Map([]map[string][2]byte{{"k": js}}, valid.RM{"k": r}) },
		}
		for name, f := range calls {
			pan, msg, site := runner.Guard(f)
			c.AddTransitions(1)
			if pan {
				k := r
				if i := strings.IndexAny(k, "=|"); i > 0 {
					k = k[:i]
				}
				c.Outcome("panic")
				c.Violation(fmt.Sprintf("panic@%s/byte-array/%s", site, k), map[string]interface{}{"rule": r, "call": name, "panic": msg})
			}
		}
		c.Done(true, 0)
	}
	// long values under size rules whose bounds are negative, zero or extreme (the clause may abbreviate the input)
	sizeRules := []string{"le=-1", "lt=-3", "to=-5~-1", "oto=-5~-1|m", "ge=-1", "gt=-300", "le=0", "to=0~0", "eq=-1", "noeq=-256", "le=9223372036854775807", "to=-9223372036854775808~-1", "to=300~100", "oto=257~256"}
	for _, unit := range []string{"a", "中", "\xff", "'", "😀"} {
		for _, n := range []int{1, 2, 255, 256, 257, 258, 300, 513, 1025, 70000} {
			v := strings.Repeat(unit, n/len(unit)+1)[:n]
			if !c.Take() {
				continue
			}
			for _, r := range sizeRules {
				pan, msg, site := runner.Guard(func() {
					_ = valid.Var(v, r)
					_ = valid.Struct(&Box{v}, valid.RM{"F": r})
					_ = valid.Map(map[string]string{"k": v}, valid.RM{"k": r})
					_ = valid.Url("http://h/p?k="+url.QueryEscape(v), valid.RM{"k": r})
					_ = valid.Var([]byte(v), r)
				})
				c.AddTransitions(5)
				if pan {
					c.Outcome("panic")
					c.Violation(fmt.Sprintf("panic@%s/long-value/%s", site, r), map[string]interface{}{"rule": r, "value_unit": fmt.Sprintf("%q", unit), "value_bytes": n, "panic": msg})
				}
			}
			c.Done(true, 0)
		}
	}
	// masked numbers: a digit prefix, the rest filler
	for _, fill := range []string{"*", "-", " ", "\x00", "x"} {
		for keep := 0; keep <= 4; keep++ {
			for _, n := range []int{11, 15, 18} {
				tryVal("5113"[:keep] + strings.Repeat(fill, n-keep))
				tryVal(strings.Repeat(fill, n-keep) + "513X"[:keep])
			}
		}
	}
	for _, seed := range []string{`{"a":[1,"x\n"]}`, "it's a \\ \"q\"\t\r\n\x00", "2021-09-28 10:00:00", "1,2,3", "a@b.cn", "1.2.3.4", "::1"} {
		b := []byte(seed)
		for i := 0; i <= len(b); i++ {
			for v := 0; v < 256; v++ {
				tryVal(string(append(append(append([]byte{}, b[:i]...), byte(v)), b[i:]...)))
				if i < len(b) {
					x := append([]byte{}, b...)
					x[i] = byte(v)
					tryVal(string(x))
				}
			}
		}
	}
	callers := ruleCallers()
	try := func(r string) {
		for _, cl := range callers {
			pan, msg, site := runner.Guard(func() { _ = cl.f(r) })
			c.AddTransitions(1)
			if pan {
				c.Outcome("panic")
				c.Violation(fmt.Sprintf("panic@%s/rule:%s", site, ruleShape(r)), map[string]interface{}{"entry": cl.name, "rule": r, "rule_bytes": fmt.Sprintf("%q", r), "panic": msg})
			}
		}
		c.Done(false, 0)
	}
	// (2a) token sequences
	tokens := append(append([]string{}, ruleNames...), "=", "~", "|", ",", "'", "(", ")", "/", "\\", "1", "-1", "a", "中", " ")
	n := 3
	if c.Thorough() {
		n = 4
	}
	c.Space("rule-tokens")
	enum.Strings(tokens, n, func(s string) {
		if c.Take() {
			try(s)
			c.Sample(func() interface{} { return s })
		}
	})
	// (2b) single-byte edits of seed rules
	c.Space("rule-byte-edits")
	for _, seed := range seedRules {
		b := []byte(seed)
		emit := func(x []byte) {
			if c.Take() {
				try(string(x))
			}
		}
		emit(b)
		for i := range b {
			emit(append(append([]byte{}, b[:i]...), b[i+1:]...))
			for v := 0; v < 256; v++ {
				if byte(v) != b[i] {
					x := append([]byte{}, b...)
					x[i] = byte(v)
					emit(x)
				}
			}
		}
		for i := 0; i <= len(b); i++ {
			for v := 0; v < 256; v++ {
				x := append(append(append([]byte{}, b[:i]...), byte(v)), b[i:]...)
				emit(x)
			}
		}
	}
	// (2c) all byte strings of length <= 2
	c.Space("rule-bytes2")
	for a := 0; a < 256; a++ {
		if c.Take() {
			try(string([]byte{byte(a)}))
		}
		for b := 0; b < 256; b++ {
			if c.Take() {
				try(string([]byte{byte(a), byte(b)}))
			}
		}
	}
	// (2d) rule keys / argument shapes that index into fixed-size tables
	c.Space("rule-arguments")
	var args []string
	enum.Strings([]string{",", "'", "a", "~", "1", "(", ")", "/", "|", "="}, 4, func(s string) { args = append(args, s) })
	for _, name := range []string{"datetime", "date", "year2month", "to", "oto", "in", "include", "re", "ints", "either", "botheq", "prefix"} {
		for _, a := range args {
			if c.Take() {
				try(name + "=" + a)
				try(name + "='" + a + "'")
			}
		}
	}
}

func main() {
	runner.Main(runner.Config{
		Property:  "C13",
		Technique: "bounded-exhaustive enumeration: value-shape catalogue x entry points; rule-text token sequences, all single-byte edits of 40 seed rules, all byte strings <=2; oracle = the call returns normally",
		Rule: "(1) ~165 value shapes (nil, typed nil pointers, multi-level pointers, scalars, collections of structs/pointers with nil positions, non-string-keyed maps, interface-typed fields and elements, func/chan, nested collections, defined types over every accepted kind - named string/int/float/bool, named maps and slices, maps keyed by a named string; " +
			"also as fields under required/exist) x 20 entry points, and the same catalogue as the target object of a rule set (SetRule(rm, target), NestedStructForRule({target: rm}), 5 call forms), the struct entry points additionally with the struct-type cache (LRU(1) behind a wrapper, a 7-call history per case) answering every / every 2nd / every 3rd Load with a miss; (1''') every slice of <=3 maps over an 8-map menu (group keys present / empty / partly or wholly missing, empty and nil maps) x 5 rule sets with either / botheq / required x 7 call forms (Map, MapFn, pointer, array, twice, slice of pointers, VMap object), and two validator objects (VVar / VStruct / VMap / VUrl, all 16 pairs) alive at the same time after 0..2 ordinary calls, their new / configure / validate steps in all 20 interleavings; (2) every sequence of <=n tokens over 34 rule names + 14 syntax tokens, every single-byte substitution (256 values), insertion and deletion of 40 seed rules, every byte string of length<=2, " +
			"argument strings <=4 over 10 syntax symbols for table-indexed rules; each through 16 callers (Var/Struct/Map/Url on string,int,float,slice values + splitter/parser/extractor); transitions = calls; non-trivial = value-shape cases",
		Assumptions: []string{"excluded by the statement: cyclic graphs, panicking user callbacks, re-use of a consumed validator object; an unhashable key of NestedStructForRule's rule map is a Go-level misuse of that argument"},
		Run:         run,
		QuickBudget: 4 * time.Minute,
	})
}
