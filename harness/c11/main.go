// C11 — concurrent validations do not interfere.
// E-sched: 2-4 threads calling the validation entry points on private inputs and shared types under the controlled
// scheduler (every pool / lock operation is a scheduling point, sync.Pool.Get answers are choice points); all
// schedules within a preemption+deviation bound; every call must return its solo result, leave its arguments
// unmodified, not panic or deadlock; the -race build checks every explored schedule with the Go race detector.
package main

import (
	"encoding/json"
	"fmt"
	"os"
	"reflect"
	"sort"
	"strings"
	"sync"
	"time"

	"gitee.com/xuesongtao/protoc-go-valid/valid"
	"gitee.com/xuesongtao/protoc-go-valid/verifshim/vsched"
	"verif/internal/errparse"
	"verif/internal/runner"
	"verif/internal/walk"
)

type T1 struct {
	F string `valid:"required|need-F,to=2~3" b:"to=1~9"`
	G int    `valid:"to=1~3" b:"ge=7|b-G"`
}

type U1 struct {
	Name   string `valid:"required|need-name"`
	Remark string
	Note   string
}

type T2 struct {
	Tel  string `valid:"phone"`
	Code string `valid:"gfn,le=3"`
	A    string `valid:"either=1"`
	B    string `valid:"either=1"`
}

type deleg struct{ inner valid.CacheEr }

func (d *deleg) Load(k interface{}) (interface{}, bool) { return d.inner.Load(k) }
func (d *deleg) Store(k, v interface{})                 { d.inner.Store(k, v) }

func errText(err error) string {
	if err == nil {
		return "<nil>"
	}
	return err.Error()
}

func gfn(errBuf *strings.Builder, validName, objName, fieldName string, tv reflect.Value) {
	errBuf.WriteString(valid.GetJoinValidErrStr(objName, fieldName, tv.String(), valid.ExplainEn, "global-fn"))
}
func quietFn(errBuf *strings.Builder, validName, objName, fieldName string, tv reflect.Value) {}

func callFn(errBuf *strings.Builder, validName, objName, fieldName string, tv reflect.Value) {
	errBuf.WriteString(valid.GetJoinValidErrStr(objName, fieldName, tv.String(), valid.ExplainEn, "call-fn"))
}

// salt: changes every execution, so "first use" paths (type analysis, new regex pattern) run in every execution
var salt int

type callT struct {
	name string
	mk   func(tid int) []interface{}
	run  func(a []interface{}) string
	want func(tid int) string // expected result when it depends on the salt ("" = use the solo result)
}

// caseVariant spells one of four built-in rule names with the upper/lower-case pattern given by the bits of n (never
// all lower case), so that consecutive executions use spellings the process has not seen.
func caseVariant(n int) string {
	names := []string{"year2month", "datetime", "include", "required"}
	name := []byte(names[n%4])
	bits := n/4 + 1
	for i := range name {
		if bits&(1<<uint(i%10)) != 0 && name[i] >= 'a' && name[i] <= 'z' {
			name[i] -= 32
		}
	}
	if string(name) == names[n%4] {
		name[0] -= 32
	}
	return string(name)
}

func freshType() reflect.Type {
	return reflect.StructOf([]reflect.StructField{
		{Name: "F", Type: reflect.TypeOf(""), Tag: reflect.StructTag(fmt.Sprintf(`valid:"required|need,to=2~3" salt:"%d"`, salt))},
		{Name: "N", Type: reflect.TypeOf(T1{}), Tag: `valid:"required"`},
	})
}

func callMenu() []callT {
	return []callT{
		{"Struct(T1)", func(t int) []interface{} { return []interface{}{&T1{F: "", G: 9 + t}} },
			func(a []interface{}) string { return errText(valid.Struct(a[0])) }, nil},
		{"ValidateStruct(T1,b)", func(t int) []interface{} { return []interface{}{&T1{F: "abcdefghijkl", G: 1 + t}} },
			func(a []interface{}) string { return errText(valid.ValidateStruct(a[0], "b")) }, nil},
		{"StructForFn(T1,rm)", func(t int) []interface{} {
			return []interface{}{&T1{F: "abcd", G: 2}, valid.RM{"G": fmt.Sprintf("eq=7|ovr-G%d", t)}}
		}, func(a []interface{}) string { return errText(valid.StructForFn(a[0], a[1].(valid.RM))) }, nil},
		{"StructForFns(T2,fns)", func(t int) []interface{} {
			return []interface{}{&T2{Tel: "x", Code: "abcdef", A: "1"}, valid.RM{"Tel": "phone,cfn"}, valid.Name2FnMap{"cfn": callFn}}
		}, func(a []interface{}) string {
			return errText(valid.StructForFns(a[0], a[1].(valid.RM), a[2].(valid.Name2FnMap)))
		}, nil},
		{"Struct([]T2)", func(t int) []interface{} {
			return []interface{}{[]T2{{Tel: "13800138000", Code: "ab"}, {Tel: fmt.Sprintf("bad%d", t), A: "a"}}}
		}, func(a []interface{}) string { return errText(valid.Struct(a[0])) }, nil},
		{"Var(re fresh)", func(t int) []interface{} {
			return []interface{}{"b", []string{"required", "to=1~3", fmt.Sprintf("re='^a{%d}$'", salt%900+1)}}
		}, func(a []interface{}) string { return errText(valid.Var(a[0], a[1].([]string)...)) },
			func(t int) string {
				return fmt.Sprintf(`input "b", explain: regex match is failed, pattern: ^a{%d}$`, salt%900+1)
			}},
		// a rule name spelled in a way no earlier execution used (case variants of built-in names): unknown names are
		// reported, and looking a name up must not write anything other threads read
		{"Var(unseen spelling of a rule name)", func(t int) []interface{} {
			return []interface{}{"b", []string{"to=1~3", caseVariant(salt*3 + t)}}
		}, func(a []interface{}) string { return errText(valid.Var(a[0], a[1].([]string)...)) },
			func(t int) string {
				return `valid "` + caseVariant(salt*3+t) + `" is not exist, You can call SetValidFn`
			}},
		// a per-call function under the name of a built-in rule that other calls rely on
		{"StructForFns(T2, {phone: accepts everything})", func(t int) []interface{} {
			return []interface{}{&T2{Tel: "x", Code: "ab", A: "1"}, valid.RM{}, valid.Name2FnMap{"phone": quietFn, "le": quietFn}}
		}, func(a []interface{}) string {
			return errText(valid.StructForFns(a[0], a[1].(valid.RM), a[2].(valid.Name2FnMap)))
		}, nil},
		// one type, validated by its tags alone and with a per-call rule for a field that carries no tag
		{"Struct(U1)", func(t int) []interface{} { return []interface{}{&U1{Name: "n", Remark: ""}} },
			func(a []interface{}) string { return errText(valid.Struct(a[0])) }, nil},
		{"Struct(U1, rule for the untagged field)", func(t int) []interface{} {
			return []interface{}{&U1{Name: "", Remark: ""}, valid.RM{"Remark": fmt.Sprintf("required|need-remark-%d", t)}}
		}, func(a []interface{}) string { return errText(valid.Struct(a[0], a[1].(valid.RM))) }, nil},
		// date/time rules with separators of their own next to one that relies on the defaults
		{"Var(datetime custom separators)", func(t int) []interface{} {
			return []interface{}{"2021/09/28 10.30.00", []string{"datetime='/, ,.'", fmt.Sprintf("le=%d", 5+t)}}
		}, func(a []interface{}) string { return errText(valid.Var(a[0], a[1].([]string)...)) }, nil},
		{"Var(datetime default separators)", func(t int) []interface{} {
			return []interface{}{"2021-09-28 10:30:00", []string{"datetime", "date='/'|d"}}
		}, func(a []interface{}) string { return errText(valid.Var(a[0], a[1].([]string)...)) }, nil},
		{"Var(quoted)", func(t int) []interface{} { return []interface{}{"zz", []string{"in=('a,b'/c)|'m,n'", "re='^z,z$'"}} },
			func(a []interface{}) string { return errText(valid.Var(a[0], a[1].([]string)...)) }, nil},
		{"Map", func(t int) []interface{} {
			return []interface{}{map[string]string{"k": "", "j": ""}, valid.RM{"k": "either=1", "j": "either=1,required|need-j"}}
		}, func(a []interface{}) string { return errText(valid.Map(a[0], a[1].(valid.RM))) }, nil},
		{"Url", func(t int) []interface{} {
			return []interface{}{fmt.Sprintf("http://h/p?k=ab&j=&t=%d", t), valid.RM{"k": "to=3~5|short", "j": "required"}}
		}, func(a []interface{}) string { return errText(valid.Url(a[0], a[1].(valid.RM))) }, nil},
		// group rules through every entry point that collects group members (whatever is recycled between calls carries
		// nothing of the call it served)
		{"Map([]map, either over three maps)", func(t int) []interface{} {
			return []interface{}{[]map[string]string{{"a": "", "b": ""}, {"a": "x", "b": ""}, {"a": "", "b": ""}}, valid.RM{"a": "either=1", "b": "either=1"}}
		}, func(a []interface{}) string { return errText(valid.Map(a[0], a[1].(valid.RM))) }, nil},
		{"Struct(G4 groups)", func(t int) []interface{} { return []interface{}{&G4{A: "", B: "", C: 1 + t, D: 1 + t}} },
			func(a []interface{}) string { return errText(valid.Struct(a[0])) }, nil},
		{"Url(either, both empty)", func(t int) []interface{} {
			return []interface{}{fmt.Sprintf("http://h/p?k1=&k2=&t=%d", t), valid.RM{"k1": "either=4", "k2": "either=4"}}
		}, func(a []interface{}) string { return errText(valid.Url(a[0], a[1].(valid.RM))) }, nil},
		{"Struct(fresh type)", func(t int) []interface{} {
			p := reflect.New(freshType())
			p.Elem().Field(1).Set(reflect.ValueOf(T1{F: "", G: 5}))
			return []interface{}{p.Interface()}
		}, func(a []interface{}) string { return errText(valid.Struct(a[0])) },
			func(t int) string {
				return `"F" input "", explain: need; ".N.F" input "", explain: need-F; ".N.G" input "5", explain: it is more than 3 num-size`
			}},
	}
}

type G4 struct {
	A string `valid:"either=1"`
	B string `valid:"either=1"`
	C int    `valid:"botheq=2"`
	D int    `valid:"botheq=2"`
}

func canon(res string) string {
	if !strings.Contains(res, "explain: they ") {
		return res
	}
	var out []string
	for _, cl := range errparse.Parse(res) {
		if cl.Group {
			m := append([]string{}, cl.Members...)
			sort.Strings(m)
			out = append(out, "G{"+strings.Join(m, ",")+"}"+cl.Text)
		} else {
			out = append(out, cl.Raw)
		}
	}
	sort.Strings(out)
	return strings.Join(out, "; ")
}

func sameArgs(a, b []interface{}) bool {
	if len(a) != len(b) {
		return false
	}
	for i := range a {
		if fa, ok := a[i].(valid.Name2FnMap); ok {
			if len(fa) != len(b[i].(valid.Name2FnMap)) {
				return false
			}
			continue
		}
		if !reflect.DeepEqual(a[i], b[i]) {
			return false
		}
	}
	return true
}

var raceLog string

// isolatedExecs counts executions run in their own process (fallback after a replay divergence).
var isolatedExecs int

func isolatedCap(c *runner.Ctx) int {
	if c.Thorough() {
		return 20000
	}
	return 1500
}

// zombies: set once an execution deadlocked or hung (its threads stay parked for ever); see C10.
var zombies bool

func raceLogSize() int64 {
	if raceLog == "" {
		return 0
	}
	fi, err := os.Stat(fmt.Sprintf("%s.%d", raceLog, os.Getpid()))
	if err != nil {
		return 0
	}
	return fi.Size()
}

func raceReportFrom(off int64) string {
	b, err := os.ReadFile(fmt.Sprintf("%s.%d", raceLog, os.Getpid()))
	if err != nil || int64(len(b)) <= off {
		return ""
	}
	s := string(b[off:])
	if len(s) > 5000 {
		s = s[:5000]
	}
	return s
}

func raceSig(rep string) string {
	var fns []string
	lines := strings.Split(rep, "\n")
	for i, l := range lines {
		t := strings.TrimSpace(l)
		if strings.HasPrefix(t, "Write at ") || strings.HasPrefix(t, "Read at ") || strings.HasPrefix(t, "Previous write at ") || strings.HasPrefix(t, "Previous read at ") {
			for j := i + 1; j < len(lines) && strings.TrimSpace(lines[j]) != ""; j++ {
				fr := strings.TrimSpace(lines[j])
				if strings.HasPrefix(fr, "gitee.com/xuesongtao/protoc-go-valid/") && !strings.Contains(fr, "verifshim") {
					fr = strings.TrimPrefix(fr, "gitee.com/xuesongtao/protoc-go-valid/")
					if k := strings.LastIndex(fr, "("); k > 0 {
						fr = fr[:k]
					}
					fns = append(fns, fr)
					break
				}
			}
		}
		if len(fns) == 2 {
			break
		}
	}
	sort.Strings(fns)
	if len(fns) == 0 {
		return "unattributed"
	}
	return strings.Join(fns, "~")
}

// firstUse: the very first validations of the process run concurrently (no cache was configured, nothing was
// validated before - not even to compute expected results): whatever the library sets up lazily on first use is set up
// inside the schedule. One harness per process; the oracle is the race detector plus hard-coded results.
func firstUse(c *runner.Ctx) {
	c.Space("racefirst:first-validations-of-the-process")
	if !c.Take() {
		return
	}
	before := raceLogSize()
	results := make([]string, 2)
	ex := &vsched.Explorer{
		Opt: vsched.Options{Bound: 1, Deadline: c.Deadline()},
		Setup: func() []func() {
			return []func(){
				func() { results[0] = errText(valid.Struct(&T1{F: "", G: 9})) },
				func() { results[1] = errText(valid.ValidateStruct(&T1{F: "abcdefghijkl", G: 1}, "b")) },
			}
		},
	}
	want := []string{`"T1.F" input "", explain: need-F; "T1.G" input "9", explain: it is more than 3 num-size`, `"T1.F" input "abcdefghijkl", explain: it is more than 9 str-length; "T1.G" input "1", explain: b-G`}
	reported := false
	ex.Check = func(x *vsched.Exec) bool {
		for t := range results {
			if x.Panics[t] != "" {
				c.Violation("panic@"+x.Sites[t], map[string]interface{}{"thread": t, "panic": x.Panics[t], "schedule": x.Choices})
				return false
			}
			if results[t] != want[t] && !reported {
				reported = true
				c.Violation("first-use/result-differs", map[string]interface{}{"thread": t, "got": results[t], "want": want[t], "schedule": x.Choices})
				return false
			}
		}
		return true
	}
	// every schedule in a process of its own: only the first execution of a process is a first use
	var res vsched.Result
	if choices, child := vsched.ChildChoices(); child {
		x := ex.Replay(choices)
		ok := ex.Diverged() == "" && ex.Check(x)
		if raceLogSize() > before {
			rep := raceReportFrom(before)
			c.Violation("data-race:"+raceSig(rep), map[string]interface{}{"harness": "first validations of the process: [Struct(T1)] || [ValidateStruct(T1,b)]", "schedule": choices, "report": rep})
			ok = false
		}
		vsched.WriteChildResult(x, ok)
		res = vsched.Result{Execs: 1, Steps: int64(len(x.Trace))}
	} else {
		budget := 400
		ex.Remote = vsched.RemoteVia(c.RunCaseInChild, os.Getenv("VERIF_SCRATCH"), &budget, func(prefix []int, stderr string, err error) {
			c.Violation("first-use/process-died", map[string]interface{}{"schedule": prefix, "error": err.Error(), "stderr": stderr})
		})
		res = ex.Explore()
		if res.Capped {
			c.MarkIncomplete()
		}
	}
	c.Count("schedules", res.Execs)
	c.Done(true, int(res.Steps))
	c.Outcome("ok")
}

type cacheCfg struct {
	name string
	mk   func() valid.CacheEr
	warm bool
}

func run(c *runner.Ctx) {
	race := c.Mode == "race" || c.Mode == "racemap" || c.Mode == "racefirst"
	syncMapDirect := c.Mode == "racemap"
	if race {
		for _, kv := range strings.Fields(os.Getenv("GORACE")) {
			if strings.HasPrefix(kv, "log_path=") {
				raceLog = strings.TrimPrefix(kv, "log_path=")
			}
		}
		if !vsched.RaceEnabled || raceLog == "" {
			fmt.Fprintln(os.Stderr, "HARNESS-ERROR: race mode without race build / log_path")
			os.Exit(3)
		}
	}
	if c.Mode == "racefirst" {
		firstUse(c)
		return
	}
	valid.SetCustomerValidFn("gfn", gfn) // global registration happens before any thread starts
	d := &deleg{inner: valid.NewLRU()}
	direct := c.Mode == "direct"
	if syncMapDirect {
		// a sync.Map handed over as it is (the README's alternative cache): whatever the library does with caches that
		// offer more than Load/Store is in play. One instance per process; the fresh-type call gives both threads a
		// type no earlier execution has seen.
		valid.SetStructTypeCache(new(sync.Map))
	} else if direct {
		// the library's own *LRUCache handed over as it is (no wrapper in between), capacity 1: whatever the library
		// attaches to a cache of its own type (callbacks on removal, say) is in play. It can be set once per process;
		// every execution starts from the same content (the warm-up ends with T2).
		valid.SetStructTypeCache(valid.NewLRU(1))
	} else {
		valid.SetStructTypeCache(d)
	}
	menu := callMenu()
	// solo results (scheduler inactive)
	solo := make([][]string, 4)
	for t := 0; t < 4; t++ {
		solo[t] = make([]string, len(menu))
		for i, cl := range menu {
			d.inner = valid.NewLRU()
			solo[t][i] = cl.run(cl.mk(t))
		}
	}
	// model cross-check for the plain struct calls
	if c.Worker == 0 && c.ReplayIdx < 0 {
		if m := walk.Struct(&T1{F: "", G: 9}, walk.Opts{}).Error(); m != solo[0][0] {
			c.Space(c.Mode + ":model")
			c.Take()
			c.Violation("solo-result-differs-from-model", map[string]interface{}{"model": m, "actual": solo[0][0]})
		}
	}
	cfgs := []cacheCfg{
		{"LRU(512)/cold", func() valid.CacheEr { return valid.NewLRU() }, false},
		{"LRU(1)/warm", func() valid.CacheEr { return valid.NewLRU(1) }, true},
		{"LRU(512)/warm", func() valid.CacheEr { return valid.NewLRU() }, true},
		{"LRU(1)/cold", func() valid.CacheEr { return valid.NewLRU(1) }, false},
	}

	explore := func(cf cacheCfg, progs [][]int, bound int, poolChoices bool) {
		var viol []string
		reported := map[string]bool{}
		var names []string
		for _, p := range progs {
			var q []string
			for _, i := range p {
				q = append(q, menu[i].name)
			}
			names = append(names, "["+strings.Join(q, ", ")+"]")
		}
		results := make([][]string, len(progs))
		argsOK := make([][]bool, len(progs))
		crossPool := false
		ex := &vsched.Explorer{
			Opt: vsched.Options{Bound: bound, PoolChoices: poolChoices, Deadline: c.Deadline()},
			Setup: func() []func() {
				salt++
				d.inner = cf.mk()
				if cf.warm {
					for t := range progs {
						for _, ci := range progs[t] {
							menu[ci].run(menu[ci].mk(t))
						}
					}
					valid.Struct(&T1{F: "ab", G: 1})
					valid.Struct(&T2{Tel: "13800138000"})
				}
				viol = viol[:0]
				bodies := make([]func(), len(progs))
				for t := range progs {
					t := t
					results[t] = make([]string, len(progs[t]))
					argsOK[t] = make([]bool, len(progs[t]))
					bodies[t] = func() {
						for k, ci := range progs[t] {
							cl := menu[ci]
							args := cl.mk(t)
							results[t][k] = cl.run(args)
							argsOK[t][k] = sameArgs(args, cl.mk(t))
						}
					}
				}
				return bodies
			},
		}
		ex.Check = func(x *vsched.Exec) bool {
			if x.CrossPool > 0 {
				crossPool = true
			}
			for t, p := range x.Panics {
				if p != "" {
					viol = append(viol, "panic@"+x.Sites[t]+"|thread "+fmt.Sprint(t)+": "+p)
				}
			}
			if x.Deadlock {
				viol = append(viol, "deadlock|"+strings.Join(x.Blocked, "; "))
			}
			if x.Hang {
				viol = append(viol, "hang|a thread did not reach its next scheduling point")
			}
			if x.Misuse != "" {
				viol = append(viol, "lock-misuse|"+x.Misuse)
			}
			if !x.Deadlock && !x.Hang {
				for t := range progs {
					for k, ci := range progs[t] {
						if x.Panics[t] != "" {
							continue
						}
						want := solo[t][ci]
						if menu[ci].want != nil {
							want = menu[ci].want(t)
						}
						if canon(results[t][k]) != canon(want) {
							viol = append(viol, fmt.Sprintf("result-differs-from-solo/%s|thread %d call %d: got %q, solo %q", menu[ci].name, t, k, results[t][k], want))
						}
						if !argsOK[t][k] {
							viol = append(viol, fmt.Sprintf("arguments-modified/%s|thread %d call %d", menu[ci].name, t, k))
						}
					}
				}
			}
			ok := len(viol) == 0
			for _, v := range viol {
				p := strings.SplitN(v, "|", 2)
				if !reported[p[0]] {
					reported[p[0]] = true
					c.Violation(p[0], map[string]interface{}{"cache": cf.name, "threads": names, "bound": bound, "schedule": x.Choices, "trace": x.TraceString(), "what": p[1]})
				}
			}
			viol = viol[:0]
			return ok
		}
		var before int64
		if race {
			before = raceLogSize()
		}
		var res vsched.Result
		if one := os.Getenv("VERIF_ONE_EXEC"); one != "" {
			// child of an isolated exploration: exactly one schedule in this (fresh) process
			var choices []int
			json.Unmarshal([]byte(one), &choices)
			x := ex.Replay(choices)
			if dv := ex.Diverged(); dv != "" {
				vsched.WriteChildDiverged(dv)
				res = vsched.Result{Execs: 1}
			} else {
				ok := ex.Check(x)
				b, _ := json.Marshal(map[string]interface{}{"exec": x, "ok": ok})
				os.WriteFile(os.Getenv("VERIF_ONE_OUT"), b, 0644)
				res = vsched.Result{Execs: 1, Steps: int64(len(x.Trace))}
			}
		} else {
			res = ex.Explore()
		}
		if res.Diverged != "" {
			// The same schedule prefix led to a different execution: something of the code under test survived from an
			// earlier execution although inputs, pools and the type cache are fresh (process-global state). The harness is
			// explored again with every execution in its own process, within a budget.
			if isolatedExecs >= isolatedCap(c) {
				c.MarkIncomplete()
				c.Note("replay divergence (process-global state survives between executions); isolated-process budget used up: harnesses after that were not explored")
				c.Done(false, 0)
				return
			}
			c.Count("harnesses_explored_with_one_process_per_execution", 1)
			ex.Remote = func(prefix []int) (*vsched.Exec, bool) {
				if isolatedExecs >= isolatedCap(c) {
					return nil, false
				}
				isolatedExecs++
				of, _ := os.CreateTemp(os.Getenv("VERIF_SCRATCH"), "exec-*.json")
				of.Close()
				defer os.Remove(of.Name())
				pj, _ := json.Marshal(prefix)
				stderr, err := c.RunCaseInChild([]string{"VERIF_ONE_EXEC=" + string(pj), "VERIF_ONE_OUT=" + of.Name()})
				if err != nil {
					if strings.Contains(stderr, "HARNESS-ERROR") {
						fmt.Fprintln(os.Stderr, stderr)
						os.Exit(3)
					}
					c.Violation("isolated-execution-crashed", map[string]interface{}{"cache": cf.name, "threads": names, "schedule": prefix, "error": err.Error(), "stderr": stderr})
					return nil, false
				}
				var r struct {
					Exec *vsched.Exec `json:"exec"`
					OK   bool         `json:"ok"`
				}
				b, _ := os.ReadFile(of.Name())
				if json.Unmarshal(b, &r) != nil || r.Exec == nil {
					return nil, false
				}
				if !r.OK {
					reported["isolated"] = true
				}
				return r.Exec, r.OK
			}
			ex.Opt.StopAtFirst = true
			res = ex.Explore()
			ex.Remote = nil
		}
		if race {
			if raceLogSize() > before && !zombies { // after a deadlock the abandoned threads make race reports unattributable
				rep := raceReportFrom(before)
				c.Violation("data-race:"+raceSig(rep), map[string]interface{}{"cache": cf.name, "threads": names, "bound": bound, "report": rep})
				reported["race"] = true
			}
		}
		if res.Capped {
			c.MarkIncomplete()
		}
		c.Count("schedules", res.Execs)
		c.StateN(res.Execs)
		c.Done(crossPool, int(res.Steps))
		if len(reported) == 0 {
			c.Outcome("ok")
		} else {
			c.Outcome("violation")
		}
		c.Sample(func() interface{} {
			return map[string]interface{}{"cache": cf.name, "threads": names, "bound": bound, "schedules": res.Execs, "mode": c.Mode}
		})
	}

	n := len(menu)
	pfx := c.Mode + ":"
	type plan struct {
		name        string
		threads     int
		callsPer    int
		bound       int
		poolChoices bool
		cfgs        []cacheCfg
	}
	var plans []plan
	if syncMapDirect {
		dc := []cacheCfg{{"sync.Map passed directly", func() valid.CacheEr { return valid.NewLRU() }, false}}
		if c.Thorough() {
			plans = []plan{{"2x1-bound2", 2, 1, 2, false, dc}, {"3x1-bound1", 3, 1, 1, false, dc}}
		} else {
			plans = []plan{{"2x1-bound1", 2, 1, 1, false, dc}}
		}
	} else if direct {
		dc := []cacheCfg{{"own LRU(1) passed directly/warm", func() valid.CacheEr { return valid.NewLRU(1) }, true}}
		if c.Thorough() {
			plans = []plan{{"2x1-bound3", 2, 1, 3, true, dc}, {"2x2-bound2", 2, 2, 2, false, dc}, {"3x1-bound2", 3, 1, 2, false, dc}}
		} else {
			plans = []plan{{"2x1-bound2", 2, 1, 2, false, dc}, {"2x2-bound1", 2, 2, 1, false, dc}}
		}
	} else if !race {
		if c.Thorough() {
			plans = []plan{{"2x1-bound3", 2, 1, 3, true, cfgs}, {"3x1-bound2", 3, 1, 2, false, cfgs[:2]}, {"2x2-bound1", 2, 2, 1, true, cfgs[:2]}, {"4x1-bound1", 4, 1, 1, false, cfgs[1:2]}}
		} else {
			plans = []plan{{"2x1-bound2", 2, 1, 2, true, cfgs}, {"3x1-bound1", 3, 1, 1, false, cfgs[:2]}, {"2x2-bound1", 2, 2, 1, false, cfgs[1:2]}}
		}
	} else {
		if c.Thorough() {
			plans = []plan{{"2x1-bound2", 2, 1, 2, false, cfgs}, {"2x2-bound1", 2, 2, 1, false, cfgs[1:3]}, {"3x1-bound1", 3, 1, 1, false, cfgs[1:2]}}
		} else {
			plans = []plan{{"2x1-bound2", 2, 1, 2, false, cfgs[:3]}, {"3x1-bound1", 3, 1, 1, false, cfgs[1:2]}}
		}
	}
	var progsOf func(k int) [][]int
	progsOf = func(k int) [][]int {
		if k == 0 {
			return [][]int{{}}
		}
		var out [][]int
		for _, p := range progsOf(k - 1) {
			for i := 0; i < n; i++ {
				out = append(out, append(append([]int{}, p...), i))
			}
		}
		return out
	}
	// quick tier, two calls per thread: programs over the calls that share struct types and the type cache (the whole
	// alphabet on the thorough tier)
	core := map[int]bool{}
	for i, cl := range menu {
		if strings.HasPrefix(cl.name, "Struct") || strings.HasPrefix(cl.name, "ValidateStruct") {
			core[i] = true
		}
	}
	for _, pl := range plans {
		ps := progsOf(pl.callsPer)
		if pl.callsPer >= 2 && !c.Thorough() {
			var keep [][]int
			for _, p := range ps {
				ok := true
				for _, i := range p {
					if !core[i] {
						ok = false
					}
				}
				if ok {
					keep = append(keep, p)
				}
			}
			ps = keep
		}
		for _, cf := range pl.cfgs {
			c.Space(fmt.Sprintf("%s%s %s", pfx, pl.name, cf.name))
			var rec func(cur [][]int, from int)
			rec = func(cur [][]int, from int) {
				if len(cur) == pl.threads {
					if c.Take() {
						explore(cf, cur, pl.bound, pl.poolChoices)
					}
					return
				}
				for i := from; i < len(ps); i++ {
					rec(append(append([][]int{}, cur...), ps[i]), i)
				}
			}
			rec(nil, 0)
			if c.Expired() {
				return
			}
		}
	}
}

func main() {
	runner.Main(runner.Config{
		Property:  "C11",
		Technique: "stateless model checking of concurrent validation calls under a controlled scheduler with sync.Pool answers as choice points; solo-result oracle + Go race detector on every explored schedule",
		Rule: "case = one harness (cache LRU(512)|LRU(1), cold|pre-warmed; 2-4 threads x 1-2 calls over a 16-call alphabet (incl. a rule name in a spelling no earlier execution used): Struct / ValidateStruct(tag b) / StructForFn / StructForFns / Struct(slice, groups, global fn) / " +
			"Var with a regex pattern new in every execution / Var with quoted rules / Map / Url / Struct on a struct type new in every execution); every schedule within the preemption+deviation bound is executed on the real code; " +
			"per call: result = solo result, arguments unmodified; no panic/deadlock; race build: no race report; transitions = scheduling steps; non-trivial = harnesses in which a thread received a pooled object last used by another thread",
		Assumptions: []string{"sequential consistency for race-free executions; race freedom checked by the race detector per schedule (happens-before edges inside the standard library's own pools are real and may hide a race: false negatives only)",
			"2-4 threads; registration of global functions happens before the threads start"},
		Run: run,
		Modes: []runner.Mode{
			{Name: "plain"},
			{Name: "direct", Workers: 6},
			{Name: "racefirst", Workers: 1, BinarySuffix: ".race", Env: []string{"GORACE=log_path={W}.race halt_on_error=0 exitcode=0 atexit_sleep_ms=0 history_size=2"}},
			{Name: "racemap", Workers: 4, BinarySuffix: ".race", Env: []string{"GORACE=log_path={W}.race halt_on_error=0 exitcode=0 atexit_sleep_ms=0 history_size=2"}},
			{Name: "race", BinarySuffix: ".race", Env: []string{"GORACE=log_path={W}.race halt_on_error=0 exitcode=0 atexit_sleep_ms=0 history_size=2"}},
		},
		QuickBudget:    5 * time.Minute,
		ThoroughBudget: 60 * time.Minute,
	})
}
