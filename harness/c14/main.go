// C14 — rule text round-trips through the builder (GenValidKV, RM.Set/Get), the splitter (ValidNamesSplit) and the
// parser (ParseValidNameKV); the splitter loses no characters.
package main

import (
	"fmt"
	"reflect"
	"regexp"
	"strings"

	"gitee.com/xuesongtao/protoc-go-valid/valid"
	"verif/internal/enum"
	"verif/internal/lang"
	"verif/internal/runner"
)

var keys = []string{"required", "exist", "either", "botheq", "to", "ge", "le", "oto", "gt", "lt", "eq", "noeq", "in", "include", "phone", "email", "idcard", "year", "year2month",
	"date", "datetime", "int", "ints", "float", "re", "ip", "ipv4", "ipv6", "unique", "json", "prefix", "suffix", "file", "dir"}

// 大 (U+5927), 听 (U+542C), 丯 (U+4E2F), 丽 (U+4E3D), 乼 (U+4E7C), ħ (U+0127): runes whose low code-point byte equals a syntax
// byte (' , / = |) - a splitter or parser that narrows runes to bytes confuses them with the syntax characters.
var rawValues = []string{"", "1", "1~10", "a/b", "'/, ,:'", "-", "中", "a=b", "0", "'x'", "''", "(a)/(b)", "()", "(a", "b)", "大/听", "'大,听'",
	// white space at the edges of a value is part of the value (a separator of one blank, a suffix that ends in a blank)
	" ", "end ", " x", "\tx\n", "\u3000中\u3000", "x\\", "a=(b"}
var messages = []string{"\x00none", "m", "ab", "中", "说明文字", "a=b", "x~y(z)/w", "'a,b'", "'需要,同时'", "=", "a|b", "1", "字", "必须大于1", "请听说明", "丽丯乼ħ", "'大,听'", "(x)",
	// messages that mention the label words themselves: the label is still prepended, exactly once
	"必填，不能为空", "名字、电话", "a，b", "see explain: at least 1", "字段说明: 不能超过 100", "explain:", "说明:", "explain: twice explain:",
	// white space at the edges of a message is part of the message
	"must be set ", " m", "\t", "必填\u3000", " ", "ends with a backslash \\",
	// bracket look-alikes inside a message: "=(" without a closing bracket, a half-open interval
	"范围=(1~9]", "must be =(a", "x=(", "=(", "(1~2]",
	// lengths around the sizes at which fixed buffers end (rule text of 60..70 bytes with the usual keys and values)
	strings.Repeat("x", 47), strings.Repeat("x", 48), strings.Repeat("x", 49), strings.Repeat("x", 50), strings.Repeat("x", 51), strings.Repeat("x", 52), strings.Repeat("x", 53), strings.Repeat("x", 54),
	strings.Repeat("x", 55), strings.Repeat("x", 56), strings.Repeat("x", 57), strings.Repeat("x", 58), strings.Repeat("x", 59), strings.Repeat("x", 60), strings.Repeat("x", 61), strings.Repeat("x", 62),
	strings.Repeat("x", 63), strings.Repeat("x", 64), strings.Repeat("x", 65), strings.Repeat("中", 18), strings.Repeat("中", 19), strings.Repeat("中", 20), strings.Repeat("中", 21), strings.Repeat("x", 127), strings.Repeat("x", 128), strings.Repeat("x", 255), strings.Repeat("x", 256)}

var zh = regexp.MustCompile("[一-龥]")

type single struct {
	key, val, msg string // msg "\x00none" = no message argument
	hasMsg        bool
}

// expected parse of one built rule
func (s single) expected() (key, value, msg string) {
	key = s.key
	value = s.val
	if value != "" {
		switch s.key {
		case "in", "include":
			value = "(" + value + ")"
		case "re":
			if !(len(value) > 1 && (value[0] == '\'' || value[1] == '\'')) {
				value = "'" + value + "'"
			}
		}
	}
	if s.hasMsg && s.msg != "" {
		if zh.MatchString(s.msg) {
			msg = "说明: " + s.msg
		} else {
			msg = "explain: " + s.msg
		}
	}
	return
}

func (s single) build() string {
	if !s.hasMsg {
		// history step (round 14): the same key and value with an explicitly empty message came first. What that call
		// returns is not judged (an empty message is outside the alphabet); what the call without a message returns is.
		_ = valid.GenValidKV(s.key, s.val, "")
		if s.val == "" {
			return valid.GenValidKV(s.key)
		}
		return valid.GenValidKV(s.key, s.val)
	}
	return valid.GenValidKV(s.key, s.val, s.msg)
}

func (s single) String() string {
	if !s.hasMsg {
		return fmt.Sprintf("GenValidKV(%q,%q)", s.key, s.val)
	}
	return fmt.Sprintf("GenValidKV(%q,%q,%q)", s.key, s.val, s.msg)
}

func (s single) nontrivial() bool {
	return strings.Contains(s.val, ",") || strings.Contains(s.msg, ",") || (s.hasMsg && strings.Contains(s.msg, "="))
}

// msgClass classifies a message for signatures.
func msgClass(s single) string {
	switch {
	case !s.hasMsg:
		return "no-msg"
	case len(s.msg) == 1:
		return "1-byte-msg"
	case strings.Contains(s.msg, "=") && s.val == "":
		return "msg-with-=-and-no-value"
	case strings.Contains(s.msg, "="):
		return "msg-with-="
	case strings.Contains(s.msg, "|"):
		return "msg-with-|"
	case strings.Contains(s.msg, ","):
		return "quoted-comma-msg"
	case zh.MatchString(s.msg):
		return "cjk-msg"
	}
	return "ascii-msg"
}

func valClass(s single) string {
	switch {
	case s.val == "":
		return "no-value"
	case strings.Contains(s.val, ","):
		return "quoted-comma-value"
	case strings.Contains(s.val, "="):
		return "value-with-="
	}
	return "value"
}

func checkList(c *runner.Ctx, list []single, how int) {
	// build
	var built []string
	for _, s := range list {
		built = append(built, s.build())
	}
	rm := valid.NewRule()
	switch how {
	case 0: // one Set call with several rules
		rm.Set("F", built...)
	case 1: // several Set calls appending
		for _, b := range built {
			rm.Set("F", b)
		}
	case 2: // several fields in one call
		rm.Set("G,F,H", built...)
	case 3: // the field already holds the first rule when a call naming several fields adds the others
		rm.Set("F", built[0])
		if len(built) > 1 {
			rm.Set("F,G", built[1:]...)
		}
	}
	text := rm.Get("F")
	pieces := valid.ValidNamesSplit(text)
	nt := len(list) > 1
	for _, s := range list {
		if s.nontrivial() {
			nt = true
		}
	}
	c.Done(nt, 2+len(list)*2)
	det := func(extra string) map[string]interface{} {
		var d []string
		for _, s := range list {
			d = append(d, s.String())
		}
		return map[string]interface{}{"built_from": d, "set_mode": how, "text": text, "pieces": pieces, "what": extra}
	}
	// drop empty items (documented: ignored)
	var ne []string
	for _, p := range pieces {
		if p != "" {
			ne = append(ne, p)
		}
	}
	if len(ne) != len(list) {
		cls := "count"
		for _, s := range list {
			if strings.Contains(s.val, ",") || strings.Contains(s.msg, ",") {
				cls = "count/quoted-comma"
			}
		}
		c.Violation("roundtrip/"+cls, det(fmt.Sprintf("%d rules built, %d recovered", len(list), len(ne))))
		return
	}
	for i, s := range list {
		k, v, m := valid.ParseValidNameKV(ne[i])
		ek, ev, em := s.expected()
		if k != ek || v != ev || m != em {
			what := fmt.Sprintf("rule %d %s: parsed (%q,%q,%q), expected (%q,%q,%q)", i, s, k, v, m, ek, ev, em)
			c.Violation("roundtrip/parse/"+valClass(s)+"/"+msgClass(s), det(what))
			return
		}
	}
	if how == 2 {
		if rm.Get("G") != text || rm.Get("H") != text {
			c.Violation("roundtrip/set-several-fields", det("fields G,F,H differ"))
		}
	}
	if how == 3 && len(built) > 1 {
		// G was named only in the second call: it holds exactly the rules of that call
		if got, want := rm.Get("G"), strings.Join(built[1:], ","); got != want {
			c.Violation("roundtrip/set-several-fields", det(fmt.Sprintf("field G holds %q, the second Set call gave it %q", got, want)))
		}
	}
	c.Outcome("ok")
}

func run(c *runner.Ctx) {
	// (1a) every single rule
	var singles []single
	for _, k := range keys {
		for _, v := range rawValues {
			for _, m := range messages {
				s := single{key: k, val: v, msg: m, hasMsg: m != "\x00none"}
				if !s.hasMsg {
					s.msg = ""
				}
				singles = append(singles, s)
			}
		}
	}
	c.Space("roundtrip/single")
	for _, s := range singles {
		if !c.Take() {
			continue
		}
		for how := 0; how < 3; how++ {
			checkList(c, []single{s}, how)
		}
		c.Sample(func() interface{} { return s.String() })
	}
	// (1a') every single rule with a plain rule behind it and in front of it: whatever a value or a message looks
	// like, the rules around it are recovered
	c.Space("roundtrip/single-between-plain-rules")
	plainA := single{key: "phone", hasMsg: true, msg: "ab"}
	plainB := single{key: "required"}
	for _, s := range singles {
		if !c.Take() {
			continue
		}
		checkList(c, []single{s, plainA}, 0)
		checkList(c, []single{plainB, s, plainA}, 3)
	}
	// (1b) lists of length 2 and 3 over a reduced menu
	var menu []single
	for _, k := range []string{"required", "to", "in", "re", "datetime", "phone"} {
		for _, v := range []string{"", "1~10", "'/, ,:'", "a/b", "''"} {
			for _, m := range []string{"\x00none", "ab", "中", "'a,b'", "'需要,同时'", "x~y(z)/w", "必须大于1", "请听说明"} {
				s := single{key: k, val: v, msg: m, hasMsg: m != "\x00none"}
				if !s.hasMsg {
					s.msg = ""
				}
				menu = append(menu, s)
			}
		}
	}
	if !c.Thorough() {
		var red []single
		for i, s := range menu {
			if i%3 == 0 || strings.Contains(s.val, ",") && strings.Contains(s.msg, ",") {
				red = append(red, s)
			}
		}
		menu = red
	}
	// (1c) the value handed to the builder with its separator in front ("=1~10"): the builder writes no second
	// separator, and everything behind that one separator is the value - also when the value itself starts with '='
	c.Space("roundtrip/value-given-with-its-separator")
	for _, k := range keys {
		if k == "in" || k == "include" || k == "re" {
			continue // these three wrap the value (brackets / quotes): the separator is theirs to write
		}
		for _, v := range []string{"1", "1~10", "a=b", "=>", "=", "==", "=1", "=(a", "中", "x "} {
			for _, m := range []string{"\x00none", "m", "说明文字", "a=b", "=", "=="} {
				if !c.Take() {
					continue
				}
				var built string
				if m == "\x00none" {
					built = valid.GenValidKV(k, "="+v)
				} else {
					built = valid.GenValidKV(k, "="+v, m)
				}
				rm := valid.NewRule().Set("F", "required", built, "zz")
				pieces := valid.ValidNamesSplit(rm.Get("F"))
				c.Done(true, 3)
				want := single{key: k, val: v, msg: m, hasMsg: m != "\x00none"}
				if !want.hasMsg {
					want.msg = ""
				}
				ek, ev, em := want.expected()
				det := map[string]interface{}{"built_from": fmt.Sprintf("GenValidKV(%q, %q, %q)", k, "="+v, m), "text": built, "pieces": pieces}
				if len(pieces) != 3 {
					c.Violation("roundtrip/separator-given/count", det)
					continue
				}
				if gk, gv, gm := valid.ParseValidNameKV(pieces[1]); gk != ek || gv != ev || gm != em || pieces[0] != "required" || pieces[2] != "zz" {
					det["what"] = fmt.Sprintf("parsed (%q,%q,%q), expected (%q,%q,%q)", gk, gv, gm, ek, ev, em)
					c.Violation("roundtrip/separator-given/parse", det)
					continue
				}
				c.Outcome("ok")
			}
		}
	}
	// (1d) one rule slice (with empty entries) spread into Set for two objects in a row: the second object gets what
	// the first got, and the caller's slice is the caller's
	c.Space("roundtrip/one-rule-slice-for-two-objects")
	for _, shape := range [][]string{{"required", "", "to=1~3|m", "eq=5"}, {"", "", "phone", "", "le=3", ""}, {"a", "", "b", "c", "", "d", "e"}, {"", "x"}, {"x", ""}, {"re='a,b'", "", "in=(a/b)", "", "ge=1|'x,y'"}} {
		for how := 0; how < 3; how++ {
			if !c.Take() {
				continue
			}
			orig := append([]string{}, shape...)
			rules := append(make([]string, 0, len(shape)+3), shape...) // spare capacity, as a slice grown by append has
			var want []string
			for _, r := range orig {
				if r != "" {
					want = append(want, r)
				}
			}
			var texts []string
			for obj := 0; obj < 3; obj++ {
				rm := valid.NewRule()
				switch how {
				case 0:
					rm.Set("F", rules...)
				case 1:
					rm.Set("F,G", rules...)
				case 2:
					rm.Set("F", "first")
					rm.Set("F", rules...)
				}
				texts = append(texts, rm.Get("F"))
			}
			c.Done(true, 3)
			det := map[string]interface{}{"rule_slice": orig, "rule_slice_after_the_calls": rules, "set_mode": how, "texts_of_the_three_objects": texts}
			if strings.Join(rules, "\x00") != strings.Join(orig, "\x00") {
				c.Violation("roundtrip/callers-rule-slice-modified", det)
				continue
			}
			bad := false
			for _, t := range texts {
				var ne []string
				for _, p := range valid.ValidNamesSplit(t) {
					if p != "" && p != "first" {
						ne = append(ne, p)
					}
				}
				if strings.Join(ne, "\x00") != strings.Join(want, "\x00") {
					bad = true
				}
			}
			if bad || texts[0] != texts[1] || texts[1] != texts[2] {
				c.Violation("roundtrip/same-slice-different-text", det)
				continue
			}
			c.Outcome("ok")
		}
	}
	c.Space("roundtrip/lists2")
	for _, a := range menu {
		for _, b := range menu {
			if !c.Take() {
				continue
			}
			for _, how := range []int{0, 1, 3} {
				checkList(c, []single{a, b}, how)
			}
		}
	}
	c.Space("roundtrip/lists3")
	m3 := menu
	if len(m3) > 30 {
		var red []single
		for i, s := range m3 {
			if i%(len(m3)/30+1) == 0 || (strings.Contains(s.val, ",") && strings.Contains(s.msg, ",")) {
				red = append(red, s)
			}
		}
		m3 = red
	}
	for _, a := range m3 {
		for _, b := range m3 {
			for _, d := range m3 {
				if !c.Take() {
					continue
				}
				checkList(c, []single{a, b, d}, 0)
				checkList(c, []single{a, b, d}, 3)
				c.Sample(func() interface{} { return []string{a.String(), b.String(), d.String()} })
			}
		}
	}
	// (2) no-loss law of the splitter
	var prevPieces []string
	var prevJoined, prevInput string
	noLoss := func(name string, alpha []string, n int) {
		for _, sep := range []byte{',', '/'} {
			c.Space(fmt.Sprintf("noloss/%s/sep=%c", name, sep))
			al := append([]string{}, alpha...)
			if sep == '/' {
				for i := range al {
					if al[i] == "," {
						al[i] = "/"
					}
				}
			}
			enum.Strings(al, n, func(s string) {
				if !c.Take() {
					return
				}
				var pieces []string
				if sep == ',' {
					pieces = valid.ValidNamesSplit(s)
				} else {
					pieces = valid.ValidNamesSplit(s, sep)
				}
				pieces = append([]string(nil), pieces...)
				joined := strings.Join(pieces, string(sep))
				// what the previous call handed out is still what it was (pieces must not alias a buffer that a later
				// call reuses)
				if prevPieces != nil && strings.Join(prevPieces, "\x00") != prevJoined {
					c.Violation("split-result-changed-by-a-later-call", map[string]interface{}{"earlier_input": prevInput, "earlier_pieces_then": prevJoined, "earlier_pieces_now": strings.Join(prevPieces, "\x00"), "later_input": s})
				}
				prevPieces, prevJoined, prevInput = pieces, strings.Clone(strings.Join(pieces, "\x00")), s
				quoted := strings.Contains(s, "'")
				calls := 1
				ok := joined == s || joined+string(sep) == s
				if !ok {
					cls := "fast-path"
					if quoted {
						cls = "slow-path"
					}
					c.Violation("noloss/"+cls, map[string]interface{}{"input": s, "sep": string(sep), "pieces": pieces, "joined": joined})
				}
				// commas inside single-quoted segments never split: every piece has balanced quotes unless the input is unbalanced
				if quoted && strings.Count(s, "'")%2 == 0 {
					for _, p := range pieces {
						if strings.Count(p, "'")%2 != 0 {
							c.Violation("noloss/split-inside-quotes", map[string]interface{}{"input": s, "sep": string(sep), "pieces": pieces})
							break
						}
					}
				}
				// reference splitter: separators outside single-quoted segments (one trailing empty piece may be dropped)
				eqp := func(a, b []string) bool {
					if len(a) != len(b) {
						return false
					}
					for i := range a {
						if a[i] != b[i] {
							return false
						}
					}
					return true
				}
				ref := lang.SplitOutsideQuotes(s, sep)
				if !(eqp(ref, pieces) || (len(ref) > 0 && ref[len(ref)-1] == "" && eqp(ref[:len(ref)-1], pieces))) {
					cls := "fast-path"
					if quoted {
						cls = "slow-path"
					}
					c.Violation("split-vs-reference/"+cls, map[string]interface{}{"input": s, "sep": string(sep), "pieces": pieces, "reference": ref})
				}
				// the same text split with the other separator right afterwards: the result follows the separator asked for
				{
					other := byte('/')
					if sep == '/' {
						other = ','
					}
					var op []string
					if other == ',' {
						op = valid.ValidNamesSplit(s)
					} else {
						op = valid.ValidNamesSplit(s, other)
					}
					calls++
					oref := lang.SplitOutsideQuotes(s, other)
					if !(eqp(oref, op) || (len(oref) > 0 && oref[len(oref)-1] == "" && eqp(oref[:len(oref)-1], op))) {
						c.Violation("split-with-the-other-separator-afterwards", map[string]interface{}{"input": s, "first_sep": string(sep), "second_sep": string(other), "pieces": op, "reference": oref})
					}
				}
				if !quoted {
					// differential: force the slow path on a quote-free string
					var slow []string
					if sep == ',' {
						slow = valid.ValidNamesSplit(s + string(sep) + "''")
					} else {
						slow = valid.ValidNamesSplit(s+string(sep)+"''", sep)
					}
					calls++
					if len(slow) == 0 || slow[len(slow)-1] != "''" || !reflect.DeepEqual(append([]string{}, slow[:len(slow)-1]...), pieces) {
						c.Violation("noloss/fast-vs-slow-path", map[string]interface{}{"input": s, "sep": string(sep), "fast": pieces, "slow": slow})
					}
				}
				c.Done(quoted, calls)
				c.Sample(func() interface{} { return map[string]interface{}{"input": s, "pieces": pieces} })
			})
		}
	}
	n1, n2 := 9, 5
	if c.Thorough() {
		n1, n2 = 10, 6
	}
	noLoss("ascii", []string{"a", ",", "'", "|", "="}, n1)
	noLoss("cjk-bytes", []string{"a", ",", "'", "|", "=", "\xe4", "\xb8", "\xad"}, n2)
	noLoss("cjk", []string{"a", ",", "'", "中", "b"}, n1-2)
	// a backslash is an ordinary character to the splitter: a quoted segment ends at the next quote whatever precedes it
	noLoss("backslash", []string{"a", ",", "'", "\\"}, n1-1)
	noLoss("blanks", []string{"a", ",", "'", " ", "\t"}, n1-2)
	noLoss("cjk-low-byte-is-syntax", []string{"a", ",", "'", "大", "听", "丯", "ħ"}, n1-3)
	noLoss("cjk-low-byte-is-syntax-2", []string{",", "'", "|", "=", "丽", "乼", "Ĭ"}, n1-3)
	// punctuation that *looks* like the syntax characters (round 14): full-width comma, quote marks, bar, equals sign and
	// the ideographic comma are ordinary characters of a message
	noLoss("full-width-look-alikes", []string{"a", ",", "'", "，", "、", "’", "｜", "＝"}, n1-3)
}

func main() {
	runner.Main(runner.Config{
		Property:  "C14",
		Technique: "bounded-exhaustive enumeration of built rule lists (round trip) and of all strings up to a length (splitter no-loss law, fast-vs-slow path differential)",
		Rule: "(1) every (key,value,message) single rule over 34 keys x 17 values x 18 messages (incl. bracketed values (a)/(b), (), and CJK runes whose low code-point byte is a syntax byte) built with GenValidKV, accumulated with RM.Set in three ways, split and parsed back; all lists of length 2 and 3 over a reduced menu with quoted commas; values handed to the builder with their separator in front (31 keys x 10 values incl. =>, =, == x 6 messages); one rule slice with empty entries spread into Set for three objects in a row; " +
			"(2) every string of length<=n over {a , ' | =} (and the bytes of a CJK rune, and runes whose low code-point byte equals ' , / = |) for separators ',' and '/': join(pieces)=input up to one trailing separator, no split inside balanced quotes, fast path = slow path; " +
			"non-trivial = lists with more than one rule or quoted commas / '=' in messages; strings containing a quote",
		Assumptions: []string{"commas occur only inside single quotes in values and messages (as documented)", "values do not contain '|'"},
		Run:         run,
	})
}
