// C06 — tag injection merges comment tags into struct tags and changes nothing else.
// E-enum over programs: Go files generated from a field-shape grammar (1..3 declarations, 1..3 fields, fillers,
// non-ASCII header), run through file.ParseFile + file.WriteFile and through the built CLI (-f, -d, -p); output
// compared with the independent model of internal/inject (bytes outside tag literals, merged keys/values/positions).
package main

import (
	"regexp"
	"bytes"
	"fmt"
	"os"
	"os/exec"
	"path/filepath"
	"strings"

	"gitee.com/xuesongtao/protoc-go-valid/file"
	"verif/internal/inject"
	"verif/internal/runner"
)

var scratch, cli, raceCLI string

func libInject(path string) (err error, pan bool, msg, site string) {
	pan, msg, site = runner.Guard(func() {
		areas, e := file.ParseFile(path)
		if e != nil {
			err = e
			return
		}
		err = file.WriteFile(path, areas)
	})
	return
}

func checkFile(c *runner.Ctx, src []byte, desc string, annotated int, viaCLI string) {
	dir := filepath.Join(scratch, fmt.Sprintf("w%d", c.Worker))
	os.MkdirAll(dir, 0755)
	path := filepath.Join(dir, "x.pb.go")
	os.Remove(path)
	if strings.HasPrefix(viaCLI, "link") {
		// the generated file is reached through a symbolic link with a short target name (api.pb.go -> gen/v1.go)
		os.MkdirAll(filepath.Join(dir, "gen"), 0755)
		os.WriteFile(filepath.Join(dir, "gen", "v1.go"), src, 0644)
		os.Symlink(filepath.Join("gen", "v1.go"), path)
		viaCLI = strings.TrimPrefix(strings.TrimPrefix(viaCLI, "link"), "-")
		if viaCLI != "" {
			viaCLI = "-" + viaCLI
		}
		defer os.Remove(path)
	} else {
		os.WriteFile(path, src, 0644)
	}
	det := func() map[string]interface{} {
		return map[string]interface{}{"file": string(src), "via": viaCLI, "what": desc}
	}
	if viaCLI == "" {
		err, pan, msg, site := libInject(path)
		c.AddTransitions(1)
		if pan {
			d := det()
			d["panic"] = msg
			c.Violation("panic@"+site, d)
			return
		}
		if err != nil {
			d := det()
			d["error"] = err.Error()
			c.Violation("library-error", d)
			return
		}
	} else {
		var args []string
		switch viaCLI {
		case "-f":
			args = []string{"-f", path}
		case "-d":
			args = []string{"-d", dir}
		case "-p":
			args = []string{"-p", filepath.Join(dir, "*.pb.go")}
		}
		cmd := exec.Command(cli, args...)
		var stderr bytes.Buffer
		cmd.Stderr = &stderr
		cmd.Stdout = &stderr
		err := cmd.Run()
		c.AddTransitions(1)
		if err != nil || strings.Contains(stderr.String(), "panic:") || strings.Contains(stderr.String(), "goroutine ") {
			d := det()
			d["cli_error"] = fmt.Sprint(err)
			d["cli_output"] = tail(stderr.String())
			c.Violation("cli-crash/"+viaCLI, d)
			return
		}
	}
	out, _ := os.ReadFile(path)
	if kind, detail := inject.Check(src, out); kind != "" {
		d := det()
		d["output"] = string(out)
		d["detail"] = detail
		c.Outcome("violation:" + kind)
		c.Violation(kind, d)
		return
	}
	c.Outcome("ok")
}

// checkMulti: the same source as three files of one directory processed by one CLI run; every file must come out as
// the model says (a run over several files is several independent injections).
func checkMulti(c *runner.Ctx, src []byte, desc, mode string) {
	dir := filepath.Join(scratch, fmt.Sprintf("m%d", c.Worker))
	if mode == "-d" {
		// -d names a directory, not a pattern: brackets, star and question mark in it are ordinary characters
		dir = filepath.Join(scratch, fmt.Sprintf("proto[v2]*m%d?", c.Worker))
	}
	os.RemoveAll(dir)
	os.MkdirAll(dir, 0755)
	names := []string{"a.pb.go", "b.pb.go", "c.pb.go"}
	for _, n := range names {
		os.WriteFile(filepath.Join(dir, n), src, 0644)
	}
	// what repositories keep next to generated code: dot files, a hidden directory
	os.WriteFile(filepath.Join(dir, ".gitkeep"), nil, 0644)
	os.WriteFile(filepath.Join(dir, ".DS_Store"), []byte{0, 1, 2}, 0644)
	os.MkdirAll(filepath.Join(dir, ".idea"), 0755)
	args := []string{"-d", dir}
	if mode == "-p" {
		args = []string{"-p", filepath.Join(dir, "*.pb.go")}
	}
	bin := cli
	every := int64(16)
	if c.Thorough() {
		every = 8
	}
	if raceCLI != "" && c.Index()%every == 3 {
		bin = raceCLI // the tool built with the race detector: files of one run may be handled by several goroutines
	}
	cmd := exec.Command(bin, args...)
	cmd.Env = append(os.Environ(), "GOMAXPROCS=4", "GORACE=halt_on_error=0 exitcode=0 atexit_sleep_ms=0")
	var out bytes.Buffer
	cmd.Stderr, cmd.Stdout = &out, &out
	err := cmd.Run()
	c.AddTransitions(1)
	det := func() map[string]interface{} {
		return map[string]interface{}{"file": string(src), "via": mode + " over 3 copies", "what": desc}
	}
	if strings.Contains(out.String(), "WARNING: DATA RACE") {
		d := det()
		d["race_report"] = tail(out.String())
		c.Violation("data-race-in-the-tool/"+mode+"/multi", d)
		return
	}
	if err != nil || strings.Contains(out.String(), "panic:") || strings.Contains(out.String(), "goroutine ") || strings.Contains(out.String(), "fatal error") {
		d := det()
		d["cli_output"] = tail(out.String())
		c.Violation("cli-crash/"+mode+"/multi", d)
		return
	}
	for _, n := range names {
		got, _ := os.ReadFile(filepath.Join(dir, n))
		if kind, detail := inject.Check(src, got); kind != "" {
			d := det()
			d["name"], d["output"], d["detail"] = n, string(got), detail
			c.Violation(kind+"/multi-file-run", d)
			return
		}
	}
	c.Outcome("ok")
}

// checkBatch: several different files of one directory handled through the library the way a caller with many
// generated files may do it: parse every file first, write them afterwards (in either order, one of them possibly never
// written). What ParseFile returned for one file must not depend on the files parsed after it.
func checkBatch(c *runner.Ctx, srcs [][]byte, desc string, order []int) {
	dir := filepath.Join(scratch, fmt.Sprintf("b%d", c.Worker))
	os.MkdirAll(dir, 0755)
	paths := make([]string, len(srcs))
	writes := make([]func() error, len(srcs))
	det := func() map[string]interface{} {
		fs := []string{}
		for _, s := range srcs {
			fs = append(fs, string(s))
		}
		return map[string]interface{}{"files": fs, "what": desc, "write_order": fmt.Sprint(order), "via": "ParseFile of every file, then WriteFile"}
	}
	var perr error
	pan, msg, site := runner.Guard(func() {
		for i, src := range srcs {
			paths[i] = filepath.Join(dir, fmt.Sprintf("f%d.pb.go", i))
			os.WriteFile(paths[i], src, 0644)
			areas, e := file.ParseFile(paths[i])
			if e != nil {
				perr = e
				return
			}
			p := paths[i]
			writes[i] = func() error { return file.WriteFile(p, areas) }
		}
		for _, i := range order {
			if e := writes[i](); e != nil {
				perr = e
				return
			}
		}
	})
	c.AddTransitions(len(srcs) + len(order))
	if pan {
		d := det()
		d["panic"] = msg
		c.Violation("panic@"+site+"/batch", d)
		return
	}
	if perr != nil {
		d := det()
		d["error"] = perr.Error()
		c.Violation("library-error/batch", d)
		return
	}
	written := map[int]bool{}
	for _, i := range order {
		written[i] = true
	}
	for i, src := range srcs {
		got, _ := os.ReadFile(paths[i])
		if !written[i] {
			if !bytes.Equal(got, src) {
				d := det()
				d["name"], d["output"] = paths[i], string(got)
				c.Violation("file-never-written-changed/batch", d)
				return
			}
			continue
		}
		if kind, detail := inject.Check(src, got); kind != "" {
			d := det()
			d["name"], d["output"], d["detail"] = paths[i], string(got), detail
			c.Violation(kind+"/parse-all-then-write", d)
			return
		}
	}
	c.Outcome("ok")
}

func tail(s string) string {
	if len(s) > 1500 {
		return s[len(s)-1500:]
	}
	return s
}

func run(c *runner.Ctx) {
	scratch = os.Getenv("VERIF_SCRATCH")
	cli = os.Getenv("VERIF_CLI")
	raceCLI = os.Getenv("VERIF_CLI_RACE")
	menu := inject.FieldMenu()
	header := "// Code generated by protoc-gen-go. 不要编辑 — 测试文件 ✓\n// source: 用户.proto"
	emb := inject.Fillers[5]

	eval := func(space string, gen func(emit func(decls []string, annotated int, desc string))) {
		c.Space(space)
		gen(func(decls []string, annotated int, desc string) {
			if !c.Take() {
				return
			}
			idx := c.Index()
			hdr := ""
			if idx%2 == 0 {
				hdr = header
			}
			src := inject.File(hdr, append(append([]string{}, decls...), emb))
			checkFile(c, src, desc, annotated, "")
			// the same file with CRLF line endings, and with a byte-order mark in front: offsets are byte offsets
			if idx%4 == 1 {
				crlf := bytes.ReplaceAll(src, []byte("\n"), []byte("\r\n"))
				checkFile(c, crlf, desc+" [CRLF]", annotated, "")
				checkFile(c, append([]byte("\xef\xbb\xbf"), src...), desc+" [BOM]", annotated, "")
				checkFile(c, append([]byte("\xef\xbb\xbf"), crlf...), desc+" [BOM+CRLF]", annotated, "")
			}
			// a 90 KB line (a raw descriptor in one string literal) in front of the first struct, and a function declared
			// without a body (assembly-backed) among the declarations: both are ordinary Go
			if idx%16 == 5 || idx%16 == 14 {
				long := inject.File(hdr, append([]string{"var rawDesc = \"" + strings.Repeat("\\x0a\\x0buser.proto", 6000) + "\"", "func nanotime() int64"}, append(append([]string{}, decls...), emb)...))
				via := ""
				if cli != "" && idx%64 == 5 {
					via = "-f"
				}
				checkFile(c, long, desc+" [90 KB line and a bodyless func first]", annotated, via)
			}
			// the headers real generated files carry (versions list, licence comment in front, build constraint)
			if idx%4 == 2 {
				gh := inject.GeneratedHeaders[int(idx/4)%len(inject.GeneratedHeaders)]
				gsrc := inject.File(gh, append(append([]string{}, decls...), emb))
				via := ""
				if cli != "" && idx%32 == 2 {
					via = "-f"
				}
				checkFile(c, gsrc, desc+" [generated-file header]", annotated, via)
			}
			if idx%16 == 7 {
				checkFile(c, src, desc+" [through a symbolic link]", annotated, "link")
				if cli != "" {
					checkFile(c, src, desc+" [through a symbolic link]", annotated, "link-f")
					// the linked file as an entry of the directory / a match of the pattern (its target lives in a sub-directory)
					checkFile(c, src, desc+" [a symbolic link among the entries of -d]", annotated, "link-d")
					checkFile(c, src, desc+" [a symbolic link matched by -p]", annotated, "link-p")
				}
			}
			// a fixed 1/8 slice (by index) also goes through the built CLI in all three modes
			if cli != "" && idx%8 == 3 {
				for _, m := range []string{"-f", "-d", "-p"} {
					checkFile(c, src, desc, annotated, m)
				}
				checkMulti(c, src, desc, "-d")
				checkMulti(c, src, desc, "-p")
			}
			c.Done(annotated >= 2 || hdr != "", 0)
			c.Sample(func() interface{} { return map[string]interface{}{"space": space, "what": desc, "bytes": len(src)} })
		})
	}
	ann := func(fs ...inject.FieldVariant) int {
		n := 0
		for _, f := range fs {
			if f.Annotated {
				n++
			}
		}
		return n
	}
	// one struct, 1..2 fields (complete menu), 3 fields (reduced menu in quick)
	eval("one-struct/1-field", func(emit func([]string, int, string)) {
		for _, f := range menu {
			emit([]string{inject.StructDecl("Msg", []inject.FieldVariant{f})}, ann(f), f.Shape)
		}
	})
	eval("one-struct/2-fields", func(emit func([]string, int, string)) {
		for _, f := range menu {
			for _, g := range menu {
				emit([]string{inject.StructDecl("Msg", []inject.FieldVariant{f, g})}, ann(f, g), f.Shape+"+"+g.Shape)
			}
		}
	})
	m3 := menu
	if !c.Thorough() {
		m3 = nil
		for i, f := range menu {
			if i%3 == 0 || strings.HasPrefix(f.Shape, "F13") || strings.HasPrefix(f.Shape, "F11") {
				m3 = append(m3, f)
			}
		}
	}
	eval("one-struct/3-fields", func(emit func([]string, int, string)) {
		for _, f := range m3 {
			for _, g := range m3 {
				for _, h := range m3 {
					emit([]string{inject.StructDecl("Msg", []inject.FieldVariant{f, g, h})}, ann(f, g, h), f.Shape+"+"+g.Shape+"+"+h.Shape)
				}
			}
		}
	})
	// the same field text in two structs (generated request/response pairs repeat fields), annotated in only one of
	// them, or annotated differently: the annotation belongs to the field it stands behind
	eval("same-field-text-in-two-structs", func(emit func([]string, int, string)) {
		for _, f := range menu {
			bare, ok := stripComment(f)
			if !ok {
				continue
			}
			other := inject.FieldVariant{Shape: f.Shape + "-other-annotation", Text: bare.Text + " // @tag form:\"other\"", Annotated: true}
			for _, g := range []inject.FieldVariant{menu[0], menu[3]} {
				emit([]string{inject.StructDecl("CreateReq", []inject.FieldVariant{bare, g}), inject.StructDecl("UpdateReq", []inject.FieldVariant{f, g})}, ann(f, g, g), f.Shape+": bare first, annotated second")
				emit([]string{inject.StructDecl("CreateReq", []inject.FieldVariant{f, g}), inject.StructDecl("UpdateReq", []inject.FieldVariant{bare, g})}, ann(f, g, g), f.Shape+": annotated first, bare second")
				emit([]string{inject.StructDecl("CreateReq", []inject.FieldVariant{other, g}), inject.StructDecl("UpdateReq", []inject.FieldVariant{f, bare})}, ann(f, other, g), f.Shape+": two annotations on the same field text")
			}
		}
	})
	// several files parsed before any is written (library entry points): all ordered pairs of one-struct files over the
	// whole menu (1 field) and a reduced menu (2 fields), written in both orders, and with one of them never written
	c.Space("library/parse-every-file-then-write")
	{
		type one struct {
			fs   []inject.FieldVariant
			desc string
		}
		var files []one
		for _, f := range menu {
			files = append(files, one{[]inject.FieldVariant{f}, f.Shape})
		}
		mb := m3
		if !c.Thorough() && len(mb) > 5 {
			mb = mb[:5]
		} else if len(mb) > 12 {
			mb = mb[:12] // thorough: 41 + 144 files, every ordered pair
		}
		for _, f := range mb {
			for _, g := range mb {
				files = append(files, one{[]inject.FieldVariant{f, g}, f.Shape + "+" + g.Shape})
			}
		}
		srcOf := func(o one, name string) []byte {
			return inject.File("", []string{inject.StructDecl(name, o.fs), emb})
		}
		orders := [][]int{{0, 1}, {1, 0}, {0}, {1}}
		for i, a := range files {
			for j, b := range files {
				if !c.Take() {
					continue
				}
				_ = j
				sa, sb := srcOf(a, "First"), srcOf(b, "Second")
				for _, o := range orders {
					checkBatch(c, [][]byte{sa, sb}, a.desc+" | "+b.desc, o)
				}
				if (i+j)%7 == 0 {
					// three files, the middle one parsed between the other two; all six write orders
					sc := srcOf(files[(i+j)%len(files)], "Third")
					for _, o := range [][]int{{0, 1, 2}, {0, 2, 1}, {1, 0, 2}, {1, 2, 0}, {2, 0, 1}, {2, 1, 0}} {
						checkBatch(c, [][]byte{sa, sc, sb}, a.desc+" | (third) | "+b.desc, o)
					}
				}
				c.Done(ann(a.fs...) >= 1 && ann(b.fs...) >= 1, 0)
			}
		}
	}
	// two structs x <=2 fields with filler interleavings
	m2 := m3
	if len(m2) > 12 {
		m2 = m2[:12]
	}
	eval("two-structs+fillers", func(emit func([]string, int, string)) {
		var structs [][]inject.FieldVariant
		for _, f := range m2 {
			structs = append(structs, []inject.FieldVariant{f})
			for _, g := range m2 {
				if (len(structs))%3 == 0 || c.Thorough() {
					structs = append(structs, []inject.FieldVariant{f, g})
				}
			}
		}
		for i, a := range structs {
			for j, b := range structs {
				fi := (i + j) % 5
				// (half of the files declare their structs against the alphabet: declaration order is what counts)
				n1, n2 := "First", "Second"
				if (i+j)%2 == 1 {
					n1, n2 = "Zone", "Account"
				}
				decls := []string{inject.Fillers[fi], inject.StructDecl(n1, a), inject.Fillers[(fi+1)%5], inject.StructDecl(n2, b), inject.Fillers[(fi+2)%5]}
				emit(decls, ann(a...)+ann(b...), fmt.Sprintf("struct %d + struct %d with fillers", i, j))
			}
		}
	})
}

// stripComment removes the trailing comment of a one-line field variant (the field then has no annotation).
var trailingComment = regexp.MustCompile("(`[^`]*`)\\s*(//|/\\*).*$") // the comment behind the tag literal ("//" may occur inside a value)

func stripComment(f inject.FieldVariant) (inject.FieldVariant, bool) {
	if strings.Contains(f.Text, "\n") || !f.Annotated {
		return f, false
	}
	return inject.FieldVariant{Shape: f.Shape + "-without-comment", Text: trailingComment.ReplaceAllString(f.Text, "$1"), Annotated: false}, true
}

func pre(tier string) ([]string, error) {
	bin := filepath.Join(runner.VerifDir, ".build", "injector-cli")
	cmd := exec.Command("go", "build", "-o", bin, ".")
	cmd.Dir = runner.RepoDir
	cmd.Env = append(os.Environ(), "GOFLAGS=-mod=mod", "GOPROXY=off", "GOSUMDB=off", "GOTOOLCHAIN=local")
	if out, err := cmd.CombinedOutput(); err != nil {
		return nil, fmt.Errorf("building the CLI from /repo: %v\n%s", err, out)
	}
	env := []string{"VERIF_CLI=" + bin}
	rbin := bin + ".race"
	rcmd := exec.Command("go", "build", "-race", "-o", rbin, ".")
	rcmd.Dir = runner.RepoDir
	rcmd.Env = append(os.Environ(), "GOFLAGS=-mod=mod", "GOPROXY=off", "GOSUMDB=off", "GOTOOLCHAIN=local", "CGO_ENABLED=1")
	if out, err := rcmd.CombinedOutput(); err == nil {
		env = append(env, "VERIF_CLI_RACE="+rbin)
	} else {
		fmt.Fprintf(os.Stderr, "note: race build of the CLI failed (multi-file runs use the plain build): %v %s\n", err, out)
	}
	return env, nil
}

func main() {
	runner.Main(runner.Config{
		Property:  "C06",
		Technique: "bounded-exhaustive enumeration of Go source files from a field-shape grammar through ParseFile/WriteFile and the built CLI vs independent tag merger",
		Rule: "files = optional non-ASCII header + 1..2 struct declarations with 1..3 fields drawn from a 41-variant field menu (no tag / tag only / plain comment / @tag adding, overriding first-middle-last key, overriding+adding, " +
			"CJK before @tag, multi-name, embedded, pointer type, re-stating, block comment, doc comment mentioning @tag, values with $, |, spaces, colons, backslashes; keys that are a suffix/prefix of an existing key; multi-line and one-line field types holding tag literals of their own; a value already held by another key; protoc-style, json-only and valid-already-present tags) " +
			"interleaved with filler declarations (func, var, const, interface, alias) whose comments mention @tag; all 1- and 2-field structs, 3-field structs and two-struct files over reduced menus; library path for all (a quarter also with CRLF line endings and / or a byte-order mark), " +
			"two and three different files parsed through ParseFile before any is written through WriteFile (every ordered pair of one-struct files, both write orders, one file never written; triples in all six write orders); the CLI built from /repo with -f/-d/-p (one file, and three copies processed by one -d / -p run) for a fixed 1/8 slice by index; oracle: bytes outside the annotated fields' tag literals identical, merged key/value/position list equals the model, no duplicate key, " +
			"reflect.StructTag.Lookup of every injected key, output parses; transitions = injector runs; non-trivial = >=2 annotated fields or non-ASCII header",
		Assumptions: []string{"tag values in the conventional key:\"value\" form without embedded double quote; one trailing comment per field; top-level ungrouped type declarations (statement)"},
		Run:         run,
		Pre:         pre,
	})
}
