// C18 — the same rule on the same value gives the same verdict through every entry point.
// E-enum, relational: the set of violated rule instances (identified by unique custom messages) is compared across
// carriers; no reference model is needed.
package main

import (
	"fmt"
	"math"
	"net/url"
	"reflect"
	"sort"
	"strconv"
	"strings"

	"gitee.com/xuesongtao/protoc-go-valid/valid"
	"verif/internal/carrier"
	"verif/internal/enum"
	"verif/internal/errparse"
	"verif/internal/lang"
	"verif/internal/runner"
)

func rv(x interface{}) reflect.Value { return reflect.ValueOf(x) }

type ruleInst struct {
	text string // without message
	name string
}

func ruleMenu() []ruleInst {
	var out []ruleInst
	add := func(t string) {
		n := t
		if k := strings.IndexAny(n, "="); k > 0 {
			n = n[:k]
		}
		out = append(out, ruleInst{t, n})
	}
	for lo := 0; lo <= 4; lo++ {
		for hi := 0; hi <= 4; hi++ {
			add(fmt.Sprintf("to=%d~%d", lo, hi))
			add(fmt.Sprintf("oto=%d~%d", lo, hi))
		}
	}
	for b := 0; b <= 4; b++ {
		for _, r := range []string{"ge", "le", "gt", "lt", "eq", "noeq"} {
			add(fmt.Sprintf("%s=%d", r, b))
		}
	}
	for _, r := range []string{"required", "in=(a/1/中)", "in=(1/2/1.5)", "include=(a)", "include=(1/ )", "phone", "email", "idcard", "ip", "ipv4", "ipv6", "year", "year2month", "date", "datetime",
		"year2month=/", "date=/", "int", "ints", "ints=-", "float", "re='^a+$'", "re='^\\d$'", "unique", "json", "prefix=a", "suffix=1", "prefix=中", "file", "dir",
		"phone|", "int|", "required|", "to=1~3|", "in=(a/b)|", "in=(PAID/REFUND)", "include=(PAI)", "prefix=P", "in=(1/2/PAID)",
		"ints= ", "prefix=a ", "suffix= a", "suffix=. ", "include=( )", "in=(a / a)", "prefix= ",
		"include=(#)", "suffix=cd", "prefix=ab#", "suffix=#f", "in=(1+1/100%/a%41)", "include=(+)", "include=(%4)", "prefix=+", "suffix=%", "re='^\\d\\+\\d$'"} {
		add(r)
	}
	return out
}

type val struct {
	name string
	v    reflect.Value
}

// defined scalar types with a String method (what protoc-gen-go emits for enums): the value under a rule is the
// value, whichever entry point carries it
type Status int32

func (s Status) String() string { return map[Status]string{1: "PAID", 2: "REFUND"}[s] }

type Level uint8

func (l Level) String() string { return "L" + strconv.Itoa(int(l)) }

type Ratio float64

func (r Ratio) String() string { return "ratio" }

type Nick string

func (n Nick) String() string { return "nick:" + string(n) }

func valueMenu() []val {
	var out []val
	out = append(out, val{"Status(1)", rv(Status(1))}, val{"Status(2)", rv(Status(2))}, val{"Status(3)", rv(Status(3))}, val{"Level(1)", rv(Level(1))}, val{"Level(200)", rv(Level(200))},
		val{"Ratio(1.5)", rv(Ratio(1.5))}, val{"Ratio(2)", rv(Ratio(2))}, val{`Nick("PAID")`, rv(Nick("PAID"))}, val{`Nick("a")`, rv(Nick("a"))}, val{`Nick("13800138000")`, rv(Nick("13800138000"))})
	for i := -6; i <= 9; i++ {
		out = append(out,
			val{fmt.Sprintf("int(%d)", i), rv(int(i))}, val{fmt.Sprintf("int8(%d)", i), rv(int8(i))}, val{fmt.Sprintf("int64(%d)", i), rv(int64(i))},
			val{fmt.Sprintf("float32(%d)", i), rv(float32(i))}, val{fmt.Sprintf("float64(%d)", i), rv(float64(i))},
			val{fmt.Sprintf("float64(%g)", float64(i)+0.5), rv(float64(i) + 0.5)})
		if i >= 0 {
			out = append(out, val{fmt.Sprintf("uint(%d)", i), rv(uint(i))}, val{fmt.Sprintf("uint8(%d)", i), rv(uint8(i))})
		}
	}
	out = append(out, val{"float64(-0)", rv(math.Copysign(0, -1))}, val{"float32(-0)", rv(float32(math.Copysign(0, -1)))}, val{"float64(NaN)", rv(math.NaN())}, val{"float64(+Inf)", rv(math.Inf(1))})
	out = append(out, val{"float32(0.1)", rv(float32(0.1))}, val{"float32(1.5)", rv(float32(1.5))}, val{"uint8(255)", rv(uint8(255))}, val{"int8(-128)", rv(int8(-128))})
	out = append(out, val{`""`, rv("")})
	out = append(out, val{"bool(false)", rv(false)}, val{"bool(true)", rv(true)}, val{`"0"`, rv("0")}, val{`"false"`, rv("false")})
	// values whose clause alone is longer than 4 KiB / 8 KiB (the clause echoes the value)
	out = append(out, val{"a x4100", rv(strings.Repeat("a", 4100))}, val{"1 x9000", rv(strings.Repeat("1", 9000))})
	enum.Strings([]string{"a", "1", "中", " ", "/", "-", "."}, 3, func(s string) { out = append(out, val{fmt.Sprintf("%q", s), rv(s)}) })
	for _, s := range []string{"13800138000", "a@b.cn", "1.2.3.4", "::1", "2021", "2021-09", "2021/09", "2021-09-28", "2021/09/28", "2021-09-28 23:00:00", "12", "1.5", `{"a":1}`, "1,2,3", "1-2-3", "1,1",
		"110101199003074514", "aaaa", "hello world", "a b", " a", "a ", "中文 a",
		"1 2 3", "a b", " a", "a. ", "x a", "a ", "Mr. x", "1,2", "a /",
		"ab#cd", "#", "a?b", "?x#", "x#y?z", "http://h/p?q#f",
		"ab;cd", "a;b", ";", "1;2;3", "a;", ";a", "k;j", "a:b", "a|b", "a~b", "a!b*c(d)", "a'b", "a@b", "a,b;c", "1+1", "+8613800138000", "100%", "a%41", "%", "+", "a+b%2Bc", "1 1", "aA", "%%", "1%2B1"} {
		out = append(out, val{fmt.Sprintf("%q", s), rv(s)})
	}
	return out
}

// reentryCache: a CacheEr whose Store, once the inner cache holds the entry, runs hook (once at a time).
type reentryCache struct {
	inner  valid.CacheEr
	hook   func()
	inside bool
}

func (r *reentryCache) Load(k interface{}) (interface{}, bool) { return r.inner.Load(k) }
func (r *reentryCache) Store(k, v interface{}) {
	r.inner.Store(k, v)
	if !r.inside && r.hook != nil {
		r.inside = true
		r.hook()
		r.inside = false
	}
}

type carrierFn struct {
	name string
	ok   func(v reflect.Value) bool
	run  func(v reflect.Value, rules string) error
}

func anyV(reflect.Value) bool { return true }
func strV(v reflect.Value) bool {
	return v.Kind() == reflect.String && !strings.ContainsAny(v.String(), "&=?#%+")
}

// strEnc: values that can be carried only in an encoded form ('+' and '%' survive the library's whole-URL decoding
// when they are percent-encoded; '&', '=', '?', '#' cannot be carried at all under that contract).
func strEnc(v reflect.Value) bool {
	return v.Kind() == reflect.String && !strings.ContainsAny(v.String(), "&=")
}

func viaCarrierFn(k carrier.Kind) func(reflect.Value, string) error {
	return func(v reflect.Value, rules string) error {
		s, isNil := carrier.Validate(k, v, rules)
		if isNil {
			return nil
		}
		return fmt.Errorf("%s", s)
	}
}

func carriers() []carrierFn {
	viaCarrier := func(k carrier.Kind) func(reflect.Value, string) error {
		return func(v reflect.Value, rules string) error {
			s, isNil := carrier.Validate(k, v, rules)
			if isNil {
				return nil
			}
			return fmt.Errorf("%s", s)
		}
	}
	u := func(build func(v string) string) func(reflect.Value, string) error {
		return func(v reflect.Value, rules string) error { return valid.Url(build(v.String()), valid.RM{"k": rules}) }
	}
	return []carrierFn{
		{"var", anyV, viaCarrier(carrier.Var)},
		{"struct-tag", func(reflect.Value) bool { return true }, nil}, // filled below (needs TagOK)
		{"struct-rm", anyV, viaCarrier(carrier.StructRM)},
		{"map", anyV, viaCarrier(carrier.Map)},
		{"map-iface", anyV, viaCarrier(carrier.MapIface)},
		{"slice-map", anyV, viaCarrier(carrier.SliceMap)},
		{"map-25-entries", anyV, viaCarrier(carrier.MapLarge)},
		{"url-parameter-151-of-200", strEnc, viaCarrier(carrier.UrlMany)},
		{"url-parameter-given-twice", strEnc, viaCarrier(carrier.UrlTwice)},
		{"url-rule-object-used-twice", strEnc, viaCarrier(carrier.UrlRMReused)},
		{"struct-tag-field-70", func(v reflect.Value) bool { return true }, nil}, // filled below (needs TagOK)
		{"url-single-raw", strV, u(func(v string) string { return "http://h/p?k=" + v })},
		{"url-first-raw", strV, u(func(v string) string { return "http://h/p?k=" + v + "&a=1&z=zz" })},
		{"url-middle-raw", strV, u(func(v string) string { return "http://h/p?a=1&k=" + v + "&z=zz" })},
		{"url-last-raw", strV, u(func(v string) string { return "http://h/p?a=1&z=zz&k=" + v })},
		{"url-value-escaped", strEnc, u(func(v string) string { return "http://h/p?a=1&k=" + url.QueryEscape(v) + "&z=2" })},
		{"url-only-parameter-escaped", strEnc, u(func(v string) string { return "http://h/p?k=" + url.QueryEscape(v) })},
		{"url-value-pathescaped", strV, u(func(v string) string { return "http://h/p?k=" + url.PathEscape(v) })},
		{"url-whole-escaped", strEnc, u(func(v string) string { return url.QueryEscape("http://h/p?a=1&k=" + v) })},
	}
}

// violatedSet extracts the set of rule-instance messages from an error.
func violatedSet(err error, msgs []string) (string, bool) {
	if err == nil {
		return "", true
	}
	var got []string
	clean := true
	for _, c := range errparse.Parse(err.Error()) {
		found := false
		for _, m := range msgs {
			if c.HasInput && c.Text == m {
				got = append(got, m)
				found = true
				break
			}
		}
		if !found {
			clean = false
			got = append(got, "?"+c.Text)
		}
	}
	sort.Strings(got)
	return strings.Join(got, "+"), clean
}

func run(c *runner.Ctx) {
	rules := ruleMenu()
	vals := valueMenu()
	cars := carriers()
	tagRun := func(v reflect.Value, rl string) error {
		k := carrier.StructTag
		if !carrier.TagOK(rl) {
			k = carrier.StructRM
		}
		s, isNil := carrier.Validate(k, v, rl)
		if isNil {
			return nil
		}
		return fmt.Errorf("%s", s)
	}
	cars[1].run = tagRun
	for i := range cars {
		if cars[i].name == "struct-tag-field-70" {
			cars[i].run = func(v reflect.Value, rl string) error {
				if !carrier.TagOK(rl) {
					return tagRun(v, rl)
				}
				s, isNil := carrier.Validate(carrier.StructTagWide, v, rl)
				if isNil {
					return nil
				}
				return fmt.Errorf("%s", s)
			}
		}
	}
	// the same tagged type again, right after a call that overrode the field's rule for that call only
	cars = append(cars, carrierFn{"struct-tag-after-override", anyV, func(v reflect.Value, rl string) error {
		if !carrier.TagOK(rl) {
			return tagRun(v, rl)
		}
		st := carrier.TagType(v.Type(), rl)
		p := reflect.New(st)
		p.Elem().Field(0).Set(v)
		_ = valid.Struct(p.Interface(), valid.RM{"F": "ge=100|zz,le=-100|zz"})
		return valid.Struct(p.Interface())
	}})

	// a second caller right after the type's cache entry became visible (round 12): the tagged type meets a fresh cache
	// whose Store - after the entry is in - makes the same call once more, the way a second goroutine would that finds
	// the entry the moment it is published; both callers get the verdict every other carrier gets
	// (the library takes a struct-type cache once per process: a delegating cache is installed, its inner cache exchanged)
	baseCache := valid.NewLRU()
	swap := &reentryCache{inner: baseCache}
	valid.SetStructTypeCache(swap)
	cars = append(cars, carrierFn{"struct-tag-second-caller-right-after-the-cache-store", anyV, func(v reflect.Value, rl string) error {
		if !carrier.TagOK(rl) {
			return tagRun(v, rl)
		}
		st := carrier.TagType(v.Type(), rl)
		p := reflect.New(st)
		p.Elem().Field(0).Set(v)
		var second error
		ran := false
		rc := &reentryCache{inner: valid.NewLRU(4)}
		rc.hook = func() { ran, second = true, valid.Struct(p.Interface()) }
		swap.inner = rc
		defer func() { swap.inner = baseCache }()
		first := valid.Struct(p.Interface())
		if ran && fmt.Sprint(first) != fmt.Sprint(second) {
			// (a text that names no rule, so that it matches no expectation)
			return fmt.Errorf("the second caller, right after the store, and the storing caller disagree: %d and %d bytes of error text", len(fmt.Sprint(second)), len(fmt.Sprint(first)))
		}
		return first
	}})

	// every public spelling of each entry point (function forms, deprecated aliases, validator objects, forms that take
	// functions and get none or one under an unused name, pointer to the source) must give the same result
	cars = append(cars, carrierFn{string(carrier.StructWrappers), anyV, func(v reflect.Value, rl string) error {
		if !carrier.TagOK(rl) {
			return tagRun(v, rl)
		}
		s, isNil := carrier.Validate(carrier.StructWrappers, v, rl)
		if isNil {
			return nil
		}
		return fmt.Errorf("%s", s)
	}})
	for _, fk := range []carrier.Kind{carrier.StructFirstLocalFn, carrier.StructFirstOverride, carrier.StructFirstOtherTag, carrier.StructFirstNested} {
		fk := fk
		cars = append(cars, carrierFn{string(fk), anyV, func(v reflect.Value, rl string) error {
			if !carrier.TagOK(rl) {
				return tagRun(v, rl)
			}
			return viaCarrierFn(fk)(v, rl)
		}})
	}
	cars = append(cars,
		carrierFn{string(carrier.MapRMEdited), anyV, viaCarrierFn(carrier.MapRMEdited)},
		carrierFn{string(carrier.MapLocalFn), anyV, viaCarrierFn(carrier.MapLocalFn)},
		carrierFn{string(carrier.UrlLocalFn), strEnc, viaCarrierFn(carrier.UrlLocalFn)},
		carrierFn{string(carrier.VarLocalFn), anyV, viaCarrierFn(carrier.VarLocalFn)},
		carrierFn{string(carrier.StructAfterAbandoned), anyV, func(v reflect.Value, rl string) error {
			if !carrier.TagOK(rl) {
				return tagRun(v, rl)
			}
			return viaCarrierFn(carrier.StructAfterAbandoned)(v, rl)
		}},
		carrierFn{string(carrier.StructRMEdited), anyV, viaCarrierFn(carrier.StructRMEdited)},
		carrierFn{string(carrier.UrlRMEdited), strEnc, viaCarrierFn(carrier.UrlRMEdited)},
		carrierFn{string(carrier.VarWrappers), anyV, viaCarrierFn(carrier.VarWrappers)},
		carrierFn{string(carrier.MapWrappers), anyV, viaCarrierFn(carrier.MapWrappers)},
		carrierFn{string(carrier.UrlWrappers), strEnc, viaCarrierFn(carrier.UrlWrappers)},
	)
	// Var right after a Var call that was rejected before validation (unsupported source, other rules)
	cars = append(cars, carrierFn{"var-after-rejected-var", anyV, func(v reflect.Value, rl string) error {
		_ = valid.Var(map[string]int{"a": 1}, "phone|zz", "le=-9|zz")
		_ = valid.Var(nil, "email|zz")
		return valid.Var(v.Interface(), rl)
	}})
	// the rules handed over one by one, the way callers collect them: Var's variadic rules, RM.Set per rule
	cars = append(cars, carrierFn{"var-rules-one-by-one", anyV, func(v reflect.Value, rl string) error {
		return valid.Var(v.Interface(), lang.SplitOutsideQuotes(rl, ',')...)
	}})
	cars = append(cars, carrierFn{"map-rm-set-per-rule", anyV, func(v reflect.Value, rl string) error {
		rm := valid.NewRule()
		for _, part := range lang.SplitOutsideQuotes(rl, ',') {
			rm.Set("k", part)
		}
		m := reflect.MakeMap(reflect.MapOf(reflect.TypeOf(""), v.Type()))
		m.SetMapIndex(reflect.ValueOf("k"), v)
		return valid.Map(m.Interface(), rm)
	}})
	// an empty value written as a bare key (no '=') behind parameters that do have values
	emptyV := func(v reflect.Value) bool { return v.Kind() == reflect.String && v.String() == "" }
	cars = append(cars,
		carrierFn{"url-bare-key-middle", emptyV, func(v reflect.Value, rl string) error {
			return valid.Url("http://h/p?a=12345&k&z=zz", valid.RM{"k": rl})
		}},
		carrierFn{"url-bare-key-last", emptyV, func(v reflect.Value, rl string) error {
			return valid.Url("http://h/p?a=12345&z=2021-09-28&k", valid.RM{"k": rl})
		}},
		carrierFn{"url-bare-key-escaped", emptyV, func(v reflect.Value, rl string) error {
			return valid.Url(url.QueryEscape("http://h/p?a=13800138000&k&z=1"), valid.RM{"k": rl})
		}})
	// rules with a significant leading / trailing space in their argument survive only when nothing trims the rule text
	// rule lists: every single rule, and every ordered pair from a reduced menu (quick) / larger menu (thorough)
	type rlist struct {
		text string
		msgs []string
		name string
	}
	var lists []rlist
	for _, r := range rules {
		lists = append(lists, rlist{r.text + "|m1", []string{"m1"}, r.name})
	}
	// the bare rule text as well (default wording; the rule text is then the last thing in a tag / rule string)
	for _, r := range rules {
		if strings.HasSuffix(r.text, "|") || strings.Contains(r.text, "PAI") || strings.HasSuffix(r.text, " ") || strings.Contains(r.text, "= ") || r.name == "ints" || r.name == "in" || r.name == "prefix" || r.name == "suffix" || r.name == "include" {
			lists = append(lists, rlist{r.text, nil, r.name + "-bare"})
		}
	}
	pairMenu := []string{"required", "to=1~3", "gt=2", "eq=2", "in=(a/1/中)", "phone", "int", "re='^a+$'", "date", "prefix=a", "unique", "json"}
	if true { // the larger pair menu on both tiers
		pairMenu = append(pairMenu, "in=(0/1/2)", "in=(false/0/-0)", "le=1", "noeq=1", "include=(a)", "email", "ip", "float", "ints", "suffix=1", "datetime", "oto=0~4")
	}
	for i, a := range pairMenu {
		for j, b := range pairMenu {
			if i != j {
				lists = append(lists, rlist{a + "|m1," + b + "|m2", []string{"m1", "m2"}, "pair"})
			}
		}
	}
	// bare pairs in which the text of one rule occurs inside the text of the other, both orders
	for _, pr := range [][2]string{{"ipv4", "ip"}, {"ints", "int"}, {"datetime", "date"}, {"year2month", "year"}, {"noeq=13", "eq=1"}, {"oto=1~3", "to=1~3"}, {"include=(a)", "in=(a)"}, {"le=10", "le=1"}, {"prefix=ab", "prefix=a"}} {
		lists = append(lists, rlist{pr[0] + "," + pr[1], nil, "pair-bare"}, rlist{pr[1] + "," + pr[0], nil, "pair-bare"},
			rlist{pr[0] + "|m1," + pr[1] + "|m1", []string{"m1"}, "pair-same-message"})
	}
	// a globally registered rule function that is replaced by another registration: every entry point resolves the name
	// at call time (the tagged type was validated under the first registration already)
	c.Space("re-registered-global-function")
	for k := 0; k < 40; k++ {
		if !c.Take() {
			continue
		}
		name := fmt.Sprintf("rr%dw%d", k, c.Worker)
		mk := func(text string) valid.CommonValidFn {
			return func(errBuf *strings.Builder, validName, objName, fieldName string, tv reflect.Value) {
				errBuf.WriteString(valid.GetJoinValidErrStr(objName, fieldName, valid.ToStr(tv.Interface()), valid.ExplainEn, text))
			}
		}
		v := vals[(k*7)%len(vals)]
		if v.v.IsZero() {
			v = vals[1]
		}
		rules := name + "|m1"
		expect := func(stage, text string) {
			for _, car := range cars {
				if !car.ok(v.v) || strings.HasPrefix(car.name, "url-bare") || car.name == "map-iface" {
					continue
				}
				if car.name == "struct-rm" && !carrier.Supports(carrier.StructRM, v.v) {
					continue
				}
				var err error
				pan, msg, site := runner.Guard(func() { err = car.run(v.v, rules) })
				c.AddTransitions(1)
				if pan {
					c.Violation("panic@"+site+"/"+car.name, map[string]interface{}{"rules": rules, "value": v.name, "carrier": car.name, "panic": msg})
					continue
				}
				got := ""
				if err != nil {
					got = err.Error()
				}
				if !strings.Contains(got, "explain: "+text) || strings.Count(got, "explain:") != 1 {
					c.Violation("re-registration/"+car.name+"/"+stage, map[string]interface{}{"rule_name": name, "value": v.name, "carrier": car.name, "stage": stage, "expected_explanation": text, "error": got})
				}
			}
		}
		valid.SetCustomerValidFn(name, mk("first-"+name))
		expect("first-registration", "first-"+name)
		valid.SetCustomerValidFn(name, mk("second-"+name))
		expect("second-registration", "second-"+name)
		c.Done(true, 0)
	}
	c.Space("rules x values x carriers")
	for _, rl := range lists {
		for _, v := range vals {
			if !c.Take() {
				continue
			}
			type res struct {
				car string
				set string
				err string
			}
			var results []res
			var ref *res
			nonEmpty := false
			for _, car := range cars {
				if !car.ok(v.v) || !carrier.Supports(carrier.Kind(car.name), v.v) && (car.name == "struct-rm") {
					continue
				}
				if car.name == "url-parameter-given-twice" && (strings.Contains(rl.text, "required") || ref != nil && strings.Contains(ref.err, "is not exist")) {
					continue // the first, empty occurrence is an empty value of its own: required (and an unknown rule name) is reported for it too
				}
				var err error
				pan, msg, site := runner.Guard(func() { err = car.run(v.v, rl.text) })
				c.AddTransitions(1)
				if pan {
					c.Violation("panic@"+site+"/"+car.name, map[string]interface{}{"rules": rl.text, "value": v.name, "carrier": car.name, "panic": msg})
					continue
				}
				set, _ := violatedSet(err, rl.msgs)
				es := ""
				if err != nil {
					es = err.Error()
				}
				results = append(results, res{car.name, set, es})
				if car.name == "var" {
					ref = &results[len(results)-1]
				}
				if set != "" {
					nonEmpty = true
				}
			}
			c.Done(nonEmpty, 0)
			if ref == nil && len(results) > 0 {
				ref = &results[0]
			}
			for i := range results {
				r := &results[i]
				if r.set == ref.set {
					continue
				}
				fam := r.car
				if strings.HasPrefix(fam, "url-") {
					// keep the URL form in the signature
				}
				sig := fmt.Sprintf("%s/%s/%s-differs-from-%s", rl.name, v.v.Kind(), fam, ref.car)
				if r.car == "map-iface" {
					sig = "map[string]interface{}/differs-from-other-carriers"
				}
				c.Outcome("differs:" + fam)
				c.Violation(sig, map[string]interface{}{"rules": rl.text, "value": v.name, "carrier": r.car, "violated": r.set, "error": r.err,
					"reference_carrier": ref.car, "reference_violated": ref.set, "reference_error": ref.err})
			}
			if len(results) > 0 {
				c.Outcome("agree")
			}
			c.Sample(func() interface{} {
				return map[string]interface{}{"rules": rl.text, "value": v.name, "carriers": len(results), "violated": ref.set}
			})
		}
	}
}

func main() {
	runner.Main(runner.Config{
		Property:  "C18",
		Technique: "relational bounded-exhaustive enumeration: same rule list and value through every carrier, violated-rule sets compared",
		Rule: "(round 12: pairs with in-lists that name the zero value, bool values, and the carrier second-caller-right-after-the-cache-store) rule lists = every single rule of a 140-entry menu (size rules with bounds [0..4]^2, every format rule with arguments) + ordered pairs of a reduced menu, each rule instance tagged by a unique message; " +
			"values = numeric window [-6..9] in 8 kinds + all strings of length<=3 over {a,1,中,space,/,-,.} + format witnesses; carriers = Var, struct tag, struct per-call rule, map[string]T, map[string]interface{}, []map, " +
			"URL (single/first/middle/last parameter raw, per-value QueryEscape (+ for space), PathEscape, whole-URL escaped); case = (rule list, value); transitions = calls; non-trivial = non-empty violated set",
		Assumptions: []string{"URL values containing & or = are excluded; values containing + % # ? are carried in the percent-encoded URL forms only (DESIGN §7)", "map iteration order irrelevant: one rule key per call"},
		Run:         run,
	})
}
