// C02 — every violated rule is reported exactly once, in order; nil iff none.
// E-enum over programs: struct types synthesised at run time (1..3 fields x kinds x rule lists incl. repeated rules
// and empty items) x values, tag-declared and per-call rules, message and default mode; compared with the walk model
// (exact clause strings, order, separators; group clauses last as a multiset).
package main

import (
	"fmt"
	"reflect"
	"sort"
	"strings"

	"gitee.com/xuesongtao/protoc-go-valid/valid"
	"verif/internal/errparse"
	"verif/internal/lang"
	"verif/internal/runner"
	"verif/internal/walk"
)

var ruleMenu = []string{"required", "to=2~3", "eq=2", "in=(a/b)", "phone", "zz", "either=1", "botheq=1", "in=('a,b'/'ab')"}

type kindSpec struct {
	name string
	t    reflect.Type
	vals []interface{}
}

var kinds = []kindSpec{
	{"string", reflect.TypeOf(""), []interface{}{"", "a", "ab", "abcd", "13800138000"}},
	{"int32", reflect.TypeOf(int32(0)), []interface{}{int32(0), int32(2), int32(9)}},
	{"[]int32", reflect.TypeOf([]int32(nil)), []interface{}{[]int32(nil), []int32{1, 2}, []int32{1, 2, 3, 4}}},
	{"uint64", reflect.TypeOf(uint64(0)), []interface{}{uint64(0), uint64(2), uint64(1) << 63}},
	// a 32-bit float whose decimal text is short only at its own precision (2.1 widened to 64 bits prints 17 digits)
	{"float32", reflect.TypeOf(float32(0)), []interface{}{float32(0), float32(2), float32(2.1)}},
}

// lists returns all rule lists (as item slices) of length 0..n over the menu.
func lists(n int) [][]string {
	out := [][]string{{}}
	prev := [][]string{{}}
	for l := 1; l <= n; l++ {
		var cur [][]string
		for _, p := range prev {
			for _, r := range ruleMenu {
				cur = append(cur, append(append([]string{}, p...), r))
			}
		}
		out = append(out, cur...)
		prev = cur
	}
	return out
}

// render joins items; mode adds unique messages; variant adds empty items.
func render(items []string, msgMode bool, fieldIdx int, variant int) string {
	var parts []string
	for i, it := range items {
		if msgMode && !strings.HasPrefix(it, "either") && !strings.HasPrefix(it, "botheq") && it != "zz" {
			if (fieldIdx+i)%2 == 0 {
				it += fmt.Sprintf("|m%d%d", fieldIdx, i)
			} else {
				it += fmt.Sprintf("|说%d%d", fieldIdx, i)
			}
		}
		parts = append(parts, it)
	}
	s := strings.Join(parts, ",")
	switch variant {
	case 1:
		if len(parts) > 0 {
			s = "," + strings.Join(parts, ",,") + ","
		}
	case 2:
		if len(parts) > 1 {
			s = parts[0] + ",," + strings.Join(parts[1:], ",")
		}
	}
	return s
}

type fieldSpec struct {
	kind  int
	items []string
	val   interface{}
}

func compare(c *runner.Ctx, exp walk.Result, err error, det func() map[string]interface{}, multi bool) {
	actual := ""
	if err != nil {
		actual = err.Error()
	}
	expStr := exp.Error()
	if exp.Whole != "" {
		if actual != exp.Whole {
			d := det()
			d["expected"], d["actual"] = exp.Whole, actual
			c.Violation("entry-error-mismatch", d)
		}
		return
	}
	if len(exp.Fields)+len(exp.Groups) == 0 {
		if err != nil {
			d := det()
			d["expected"], d["actual"] = "<nil>", actual
			c.Outcome("spurious")
			c.Violation("clause-mismatch/expected-nil-got-error", d)
		} else {
			c.Outcome("nil")
		}
		return
	}
	if err == nil {
		d := det()
		d["expected"], d["actual"] = expStr, "<nil>"
		c.Outcome("missed")
		c.Violation("clause-mismatch/expected-error-got-nil", d)
		return
	}
	if strings.HasSuffix(actual, errparse.Sep) || strings.HasPrefix(actual, errparse.Sep) || strings.Contains(actual, errparse.Sep+errparse.Sep) {
		d := det()
		d["actual"] = actual
		c.Violation("separator", d)
		return
	}
	got := errparse.Split(actual)
	nf := len(exp.Fields)
	ok := len(got) == nf+len(exp.Groups)
	if ok && !exp.Unordered {
		for i := 0; i < nf; i++ {
			if got[i] != exp.Fields[i] {
				ok = false
			}
		}
		if ok {
			tail := append([]string{}, got[nf:]...)
			sort.Strings(tail)
			want := append([]string{}, exp.Groups...)
			sort.Strings(want)
			for i := range want {
				if tail[i] != want[i] {
					ok = false
				}
			}
		}
	} else if ok {
		g := append([]string{}, got...)
		sort.Strings(g)
		w := exp.Multiset()
		for i := range w {
			if g[i] != w[i] {
				ok = false
			}
		}
	}
	if ok {
		c.Outcome(fmt.Sprintf("clauses=%d", len(got)))
		return
	}
	// classify
	g := append([]string{}, got...)
	sort.Strings(g)
	w := exp.Multiset()
	kind := "order"
	if strings.Join(g, "\x00") != strings.Join(w, "\x00") {
		switch {
		case len(g) < len(w):
			kind = "missing-clause"
		case len(g) > len(w):
			kind = "extra-clause"
		default:
			kind = "different-clause"
		}
	}
	d := det()
	d["expected"], d["actual"] = expStr, actual
	c.Outcome("mismatch:" + kind)
	c.Violation("clause-mismatch/"+kind, d)
}

func build(fs []fieldSpec, msgMode bool, variant int, tagMode bool) (reflect.Value, walk.Opts, string) {
	var sf []reflect.StructField
	rm := map[string]string{}
	var desc []string
	for i, f := range fs {
		rules := render(f.items, msgMode, i, variant)
		name := fmt.Sprintf("F%d", i)
		fld := reflect.StructField{Name: name, Type: kinds[f.kind].t}
		if tagMode {
			fld.Tag = reflect.StructTag(`valid:"` + rules + `"`)
		} else if rules != "" {
			rm[name] = rules
		}
		sf = append(sf, fld)
		desc = append(desc, fmt.Sprintf("%s %s `%s` = %v", name, kinds[f.kind].name, rules, f.val))
	}
	st := reflect.StructOf(sf)
	p := reflect.New(st)
	for i, f := range fs {
		p.Elem().Field(i).Set(reflect.ValueOf(f.val))
	}
	o := walk.Opts{}
	if !tagMode {
		o.Unscoped = rm
	}
	return p, o, strings.Join(desc, "; ")
}

// altSep, when set, is installed as the library's clause separator (the exported ErrEndFlag) for the duration of one
// call; the result is read back with the default separator substituted, so the same oracle applies.
var altSep string

type sepErr struct{ s string }

func (e sepErr) Error() string { return e.s }

func withSep(f func() error) error {
	if altSep == "" {
		return f()
	}
	old := valid.ErrEndFlag
	valid.ErrEndFlag = altSep
	defer func() { valid.ErrEndFlag = old }()
	err := f()
	if err == nil {
		return nil
	}
	return sepErr{strings.ReplaceAll(err.Error(), altSep, old)}
}

func evalCase(c *runner.Ctx, fs []fieldSpec, msgMode bool, variant int, tagMode bool) {
	viaSet := variant == 3 // per-call rules collected with RM.Set, one call with all rules or one call per rule
	if viaSet {
		if tagMode {
			return
		}
		variant = 0
	}
	p, o, desc := build(fs, msgMode, variant, tagMode)
	callRM := valid.RM(o.Unscoped)
	if viaSet {
		callRM = valid.NewRule()
		for i := range fs {
			name := fmt.Sprintf("F%d", i)
			text, ok := o.Unscoped[name]
			if !ok {
				continue
			}
			parts := lang.SplitOutsideQuotes(text, ',')
			if (i+len(parts))%2 == 0 {
				callRM.Set(name, parts...)
			} else {
				for _, part := range parts {
					callRM.Set(name, part)
				}
			}
		}
		desc += " (rules collected with RM.Set)"
	}
	var err error
	pan, msg, site := runner.Guard(func() {
		// two calls the library rejects (nil, typed nil pointer of the same type), each carrying per-call rules for
		// every field: what a rejected call was given plays no part in the call that follows
		leak := valid.RM{}
		for i := range fs {
			leak[fmt.Sprintf("F%d", i)] = "required|left behind by a rejected call"
		}
		_ = valid.Struct(nil, leak)
		_ = valid.Struct(reflect.Zero(p.Type()).Interface(), leak)
		// and a completed call on another, group-less type that brought silent functions of its own under every rule
		// name the main call may use (round 13): they belonged to that call
		lv := valid.NewVStruct()
		for _, n := range shadowNames {
			lv.SetValidFn(n, func(*strings.Builder, string, string, string, reflect.Value) {})
		}
		_ = lv.Valid(&struct {
			A string `valid:"required,to=1~3"`
		}{A: "abcdef"})
		if tagMode {
			err = withSep(func() error { return valid.Struct(p.Interface()) })
		} else {
			err = withSep(func() error { return valid.Struct(p.Interface(), callRM) })
		}
	})
	exp := walk.Struct(p.Interface(), o)
	c.Done(len(exp.Fields)+len(exp.Groups) >= 2, 1)
	det := func() map[string]interface{} {
		return map[string]interface{}{"struct": desc, "tag_mode": tagMode, "message_mode": msgMode}
	}
	if pan {
		d := det()
		d["panic"] = msg
		c.Violation("panic@"+site, d)
		return
	}
	compare(c, exp, err, det, false)
	c.Sample(func() interface{} { return det() })
}

// evalContainers validates two objects of one synthesised type (same rules, different values) as elements of a
// slice, as map entries held by value and by pointer, and as nested collections under a parent: one clause per
// violated rule instance *per object*, group clauses judged on each object's own values.
func evalContainers(c *runner.Ctx, fs, other []fieldSpec, msgMode bool) {
	p1, _, desc := build(fs, msgMode, 0, true)
	st := p1.Elem().Type()
	p2 := reflect.New(st)
	var od []string
	for i, f := range other {
		p2.Elem().Field(i).Set(reflect.ValueOf(f.val))
		od = append(od, fmt.Sprint(f.val))
	}
	sl := reflect.MakeSlice(reflect.SliceOf(st), 2, 2)
	sl.Index(0).Set(p1.Elem())
	sl.Index(1).Set(p2.Elem())
	mv := reflect.MakeMap(reflect.MapOf(reflect.TypeOf(""), st))
	mv.SetMapIndex(reflect.ValueOf("a"), p1.Elem())
	mv.SetMapIndex(reflect.ValueOf("50%d"), p2.Elem()) // (a key that reads like a format verb is still just a key)
	mp := reflect.MakeMap(reflect.MapOf(reflect.TypeOf(0), reflect.PtrTo(st)))
	mp.SetMapIndex(reflect.ValueOf(1), p2)
	mp.SetMapIndex(reflect.ValueOf(2), p1)
	parent := reflect.New(reflect.StructOf([]reflect.StructField{
		{Name: "Kids", Type: mv.Type(), Tag: `valid:"required"`},
		{Name: "L", Type: sl.Type(), Tag: `valid:"exist,le=1|at most one"`}, // (a rule of the field itself behind the marker: judged after the elements)
		{Name: "One", Type: st, Tag: `valid:"required,exist"`}, // (both markers: the object is met once; round 14)
		{Name: "PP", Type: reflect.PtrTo(reflect.PtrTo(st)), Tag: `valid:"exist,required"`},
		{Name: "LPP", Type: reflect.SliceOf(reflect.PtrTo(reflect.PtrTo(st))), Tag: `valid:"ge=1,required,le=2"`},
		{Name: "MP", Type: reflect.MapOf(reflect.TypeOf(""), reflect.PtrTo(reflect.PtrTo(st))), Tag: `valid:"exist"`},
	}))
	parent.Elem().Field(0).Set(mv)
	parent.Elem().Field(1).Set(sl)
	parent.Elem().Field(2).Set(p2.Elem())
	pp := func(p reflect.Value) reflect.Value { // **T
		x := reflect.New(p.Type())
		x.Elem().Set(p)
		return x
	}
	parent.Elem().Field(3).Set(pp(p1))
	lpp := reflect.MakeSlice(parent.Elem().Field(4).Type(), 2, 2)
	lpp.Index(0).Set(pp(p2))
	lpp.Index(1).Set(pp(p1))
	parent.Elem().Field(4).Set(lpp)
	mpp := reflect.MakeMap(parent.Elem().Field(5).Type())
	mpp.SetMapIndex(reflect.ValueOf("k%v 100%"), pp(p1))
	parent.Elem().Field(5).Set(mpp)
	for _, in := range []struct {
		place string
		src   interface{}
	}{{"[]T", sl.Interface()}, {"map[string]T", mv.Interface()}, {"map[int]*T", mp.Interface()}, {"parent{Kids map[string]T; L []T; One T; PP **T; LPP []**T; MP map[string]**T}", parent.Interface()}} {
		var err error
		pan, msg, site := runner.Guard(func() { err = valid.Struct(in.src) })
		exp := walk.Struct(in.src, walk.Opts{})
		c.Done(len(exp.Fields)+len(exp.Groups) >= 2, 1)
		det := func() map[string]interface{} {
			return map[string]interface{}{"struct": desc, "other_values": od, "placement": in.place, "message_mode": msgMode}
		}
		if pan {
			d := det()
			d["panic"] = msg
			c.Violation("panic@"+site, d)
			continue
		}
		// the name of an unnamed struct type contains the clause separator: substitute it before clauses are split
		if n := st.String(); strings.Contains(n, errparse.Sep) {
			for i := range exp.Fields {
				exp.Fields[i] = strings.ReplaceAll(exp.Fields[i], n, "T")
			}
			for i := range exp.Groups {
				exp.Groups[i] = strings.ReplaceAll(exp.Groups[i], n, "T")
			}
			if err != nil {
				err = fmt.Errorf("%s", strings.ReplaceAll(err.Error(), n, "T"))
			}
		}
		compare(c, exp, err, det, true)
	}
}

func run(c *runner.Ctx) {
	// F1: one field, lists up to length 3, all empty-item renderings, all kinds and values, both modes, tag and per-call
	l3 := lists(3)
	if c.Thorough() {
		l3 = lists(4) // one field: every rule list up to length 4
	}
	l2 := lists(2)
	l1 := lists(1)
	c.Space("one-field")
	for k := range kinds {
		for _, items := range l3 {
			for _, v := range kinds[k].vals {
				for variant := 0; variant < 4; variant++ {
					if !c.Take() {
						continue
					}
					for _, mm := range []bool{false, true} {
						for _, tm := range []bool{true, false} {
							evalCase(c, []fieldSpec{{k, items, v}}, mm, variant, tm)
						}
					}
				}
			}
		}
	}
	// F2: two fields
	c.Space("two-fields")
	second := l2
	for k0 := 0; k0 < 2; k0++ {
		for _, it0 := range l2 {
			for vi0, v0 := range kinds[k0].vals {
				if k0 == 0 && vi0 == 4 && !c.Thorough() {
					continue
				}
				for k1 := 0; k1 < len(kinds); k1++ {
					for _, it1 := range second {
						for vi1, v1 := range kinds[k1].vals {
							if vi1 > 2 {
								continue
							}
							if !c.Take() {
								continue
							}
							mm := (len(it0)+len(it1)+vi0+vi1)%2 == 0
							evalCase(c, []fieldSpec{{k0, it0, v0}, {k1, it1, v1}}, mm, 0, true)
							evalCase(c, []fieldSpec{{k0, it0, v0}, {k1, it1, v1}}, !mm, 0, false)
							evalCase(c, []fieldSpec{{k0, it0, v0}, {k1, it1, v1}}, mm, 3, false)
							if len(it0)+len(it1) > 0 && (c.Thorough() || len(it0) <= 1) {
								o0 := kinds[k0].vals[(vi0+1)%len(kinds[k0].vals)]
								o1 := kinds[k1].vals[(vi1+1)%3]
								evalContainers(c, []fieldSpec{{k0, it0, v0}, {k1, it1, v1}}, []fieldSpec{{k0, it0, o0}, {k1, it1, o1}}, mm)
							}
						}
					}
				}
			}
		}
	}
	recursive(c)
	wideStructs(c)
	// the caller chose another clause separator: every clause ends with it, none trails
	for _, sp := range []string{"\t", " ## ", "§§"} {
		altSep = sp
		c.Space(fmt.Sprintf("one-field/separator=%q", sp))
		for k := range kinds {
			for _, items := range l2 {
				for _, v := range kinds[k].vals {
					if !c.Take() {
						continue
					}
					for _, mm := range []bool{false, true} {
						evalCase(c, []fieldSpec{{k, items, v}}, mm, 0, true)
						evalCase(c, []fieldSpec{{k, items, v}, {0, l1[len(l1)-1], ""}}, mm, 0, false)
					}
				}
			}
		}
	}
	altSep = ""
	// F3: three fields, lists up to length 1
	c.Space("three-fields")
	for k0 := 0; k0 < 2; k0++ {
		for _, it0 := range l1 {
			for _, v0 := range kinds[k0].vals[:3] {
				for k1 := 0; k1 < 3; k1++ {
					for _, it1 := range l1 {
						for _, v1 := range kinds[k1].vals[:2] {
							for _, it2 := range l1 {
								for _, v2 := range kinds[0].vals[:2] {
									if !c.Take() {
										continue
									}
									evalCase(c, []fieldSpec{{k0, it0, v0}, {k1, it1, v1}, {0, it2, v2}}, false, 0, true)
								}
							}
						}
					}
				}
			}
		}
	}
}

// Tree is a self-referential type: per-call rules given without a target belong to the outermost node only, every
// node below it is judged by its tags.
type Tree struct {
	Sort     int     `valid:"to=1~9"`
	Name     string  `valid:"required|need-name"`
	Children []*Tree `valid:"exist"`
	Next     *Tree   `valid:"exist"`
	Memo     string
}

// wideStructs: every field's rules are evaluated whatever the field's index (63..130 fields, rules on all of them,
// violations at every seventh index plus the last three).
func wideStructs(c *runner.Ctx) {
	c.Space("wide-structs")
	for _, n := range []int{63, 64, 65, 66, 72, 130} {
		for variant := 0; variant < 3; variant++ {
			if !c.Take() {
				continue
			}
			var sf []reflect.StructField
			for i := 0; i < n; i++ {
				tag := fmt.Sprintf(`valid:"required|need-%d,to=2~3|size-%d"`, i, i)
				if variant == 1 && i%2 == 0 {
					tag = "" // untagged fields in between
				}
				sf = append(sf, reflect.StructField{Name: fmt.Sprintf("F%03d", i), Type: reflect.TypeOf(""), Tag: reflect.StructTag(tag)})
			}
			st := reflect.StructOf(sf)
			p := reflect.New(st)
			for i := 0; i < n; i++ {
				switch {
				case i%7 == 3 || i >= n-3:
					p.Elem().Field(i).SetString("toolong")
				case i%7 == 5:
					// empty: required
				default:
					p.Elem().Field(i).SetString("ok")
				}
			}
			var err error
			o := walk.Opts{}
			pan, msg, site := runner.Guard(func() {
				if variant == 2 {
					o.Unscoped = map[string]string{"F001": "eq=9|call-1"}
					err = valid.Struct(p.Interface(), valid.RM{"F001": "eq=9|call-1"})
				} else {
					err = valid.Struct(p.Interface())
				}
			})
			exp := walk.Struct(p.Interface(), o)
			c.Done(true, 1)
			det := func() map[string]interface{} {
				return map[string]interface{}{"fields": n, "variant": []string{"all fields tagged", "every second field tagged", "all tagged + a per-call rule for F001"}[variant]}
			}
			if pan {
				d := det()
				d["panic"] = msg
				c.Violation("panic@"+site, d)
				continue
			}
			got := ""
			if err != nil {
				got = err.Error()
			}
			if a, b := explains(got), explains(exp.Error()); a != b {
				d := det()
				d["got_explanations"], d["want_explanations"] = a, b
				c.Violation("wide-struct/clauses-differ", d)
			} else {
				c.Outcome("wide-ok")
			}
		}
	}
}

// explains keeps the explanation parts of an error in order (the name of a wide unnamed struct type is itself long
// and full of separators).
func explains(e string) string {
	var out []string
	for _, p := range strings.Split(e, "explain: ")[1:] {
		if k := strings.Index(p, ";"); k >= 0 {
			p = p[:k]
		}
		out = append(out, p)
	}
	return strings.Join(out, "|")
}

func recursive(c *runner.Ctx) {
	c.Space("self-referential-type-with-outer-rules")
	leaf := func(sort int, name string) *Tree { return &Tree{Sort: sort, Name: name} }
	trees := []func() *Tree{
		func() *Tree { return leaf(0, "") },
		func() *Tree {
			return &Tree{Sort: 12, Name: "r", Children: []*Tree{leaf(12, ""), leaf(3, "ok"), leaf(0, "")}}
		},
		func() *Tree { return &Tree{Sort: 3, Name: "", Next: &Tree{Sort: 0, Name: "", Next: leaf(44, "")}} },
		func() *Tree {
			return &Tree{Sort: 5, Name: "root", Children: []*Tree{{Sort: 10, Name: "", Children: []*Tree{leaf(11, "x"), leaf(0, "")}}}, Next: leaf(10, "")}
		},
	}
	rms := []map[string]string{nil, {"Sort": "required|outer-sort"}, {"Name": "to=2~3|outer-name"}, {"Sort": "eq=5|outer-eq", "Memo": "required|outer-memo"}, {"Children": "required", "Next": "le=1"},
		{"Sort": "to=10~20"}}
	for ti, mk := range trees {
		for ri, rm := range rms {
			for top := 0; top < 3; top++ {
				if !c.Take() {
					continue
				}
				var src interface{} = mk()
				switch top {
				case 1:
					src = []*Tree{mk(), mk()}
				case 2:
					src = map[string]*Tree{"a": mk()}
				}
				if top != 0 && rm != nil {
					continue // what an untargeted rule set means for a collection of outermost objects is not stated
				}
				o := walk.Opts{Unscoped: rm}
				var err error
				pan, msg, site := runner.Guard(func() {
					if rm == nil {
						err = valid.Struct(src)
					} else {
						err = valid.Struct(src, valid.RM(rm))
					}
				})
				exp := walk.Struct(src, o)
				c.Done(len(exp.Fields) >= 2, 1)
				det := func() map[string]interface{} {
					return map[string]interface{}{"tree": ti, "outer_rules": rm, "rules_index": ri, "top": []string{"*Tree", "[]*Tree", "map[string]*Tree"}[top]}
				}
				if pan {
					d := det()
					d["panic"] = msg
					c.Violation("panic@"+site, d)
					continue
				}
				compare(c, exp, err, det, top == 2)
			}
		}
	}
}

var shadowNames = []string{"required", "exist", "to", "ge", "le", "oto", "gt", "lt", "eq", "noeq", "in", "include", "phone", "email", "idcard", "year", "year2month", "date", "datetime", "int", "ints", "float", "re", "ip", "ipv4", "ipv6", "unique", "json", "prefix", "suffix", "file", "dir"}

func main() {
	runner.Main(runner.Config{
		Property:  "C02",
		Technique: "bounded-exhaustive enumeration of synthesised struct types x rule lists x values vs walk reference model (exact clause strings, order, separators)",
		Rule: "struct types from reflect.StructOf: 1 field (all rule lists of length<=3, thorough <=4, over {required,to=2~3,eq=2,in=(a/b),phone,zz(unknown),either=1,botheq=1}, rendered plainly and with empty items, kinds string/int32/[]int32/uint64 (incl. 1<<63)/float32 (incl. 2.1, which prints 17 digits when widened), 3-5 values), " +
			"2 fields (lists<=2 x lists<=1|2), 3 fields (lists<=1); rules declared in tags and supplied per call; every 2-field type additionally as two objects with different values in []T, map[string]T (entries by value), map[int]*T and nested under a parent (map, slice, value, **T, []**T and map[string]**T fields); unique custom messages (message mode) and default wording; " +
			"expected = ordered field clauses then group clauses (multiset); non-trivial = cases with >=2 expected clauses",
		Assumptions: []string{"walk model internal/walk is the statement of C02/C04/C16/C17", "group clauses compared as a multiset (Go map order)"},
		Run:         run,
	})
}
