// C04 — nested validation reaches exactly the marked sub-objects and names them by path.
// E-enum over object graphs: types from a container grammar (values, pointers, multi-level pointers, slices, arrays,
// maps with string/int/bool keys) x marks {required, exist, none} x node values {nil, zero, valid, violating}, nested
// to depth 3, with unexported / time.Time / unmarked fields; top-level input struct, pointers, slice/array/map of
// structs; synthesised (unnamed) and named type families; expected path set from the walk model.
package main

import (
	"fmt"
	"math"
	"reflect"
	"sort"
	"strings"
	"time"

	"gitee.com/xuesongtao/protoc-go-valid/valid"
	"verif/internal/errparse"
	"verif/internal/runner"
	"verif/internal/walk"
)

// Leaf carries two immediate rules and one either group: the group clause is produced after the whole walk, so the
// path it is reported under must have been kept per sub-object.
type Leaf struct {
	V  string `valid:"required,to=1~4"`
	W  int    `valid:"to=1~3,noeq=7"`
	G1 string `valid:"either=7"`
	G2 string `valid:"either=7"`
}

var (
	leafZ   = Leaf{}
	leafOK  = Leaf{"x", 2, "", "g"}
	leafBAD = Leaf{"", 9, "", ""}
	leafT   = reflect.TypeOf(Leaf{})
)

type KeyS struct{ A int }

type KeyS2 struct{ A, B string }

type dv struct {
	v    reflect.Value
	desc string
}

func ptrTo(v reflect.Value) reflect.Value {
	p := reflect.New(v.Type())
	p.Elem().Set(v)
	return p
}

func reduce(in []dv, n int) []dv {
	if len(in) <= n {
		return in
	}
	out := []dv{in[0]}
	out = append(out, in[len(in)-(n-1):]...)
	return out
}

// vals enumerates the value menu of a type built from Leaf by the container grammar.
func vals(t reflect.Type, structMenu map[reflect.Type][]dv) []dv {
	if m, ok := structMenu[t]; ok {
		return m
	}
	switch t.Kind() {
	case reflect.Ptr:
		out := []dv{{reflect.Zero(t), "nil"}}
		for _, e := range reduce(vals(t.Elem(), structMenu), 3) {
			out = append(out, dv{ptrTo(e.v), "&" + e.desc})
		}
		return out
	case reflect.Slice:
		el := reduce(vals(t.Elem(), structMenu), 3)
		out := []dv{{reflect.Zero(t), "nil"}, {reflect.MakeSlice(t, 0, 0), "[]"}}
		for _, a := range el {
			s := reflect.MakeSlice(t, 1, 1)
			s.Index(0).Set(a.v)
			out = append(out, dv{s, "[" + a.desc + "]"})
		}
		for _, a := range el {
			for _, b := range el {
				s := reflect.MakeSlice(t, 2, 2)
				s.Index(0).Set(a.v)
				s.Index(1).Set(b.v)
				out = append(out, dv{s, "[" + a.desc + " " + b.desc + "]"})
			}
		}
		return out
	case reflect.Array:
		el := reduce(vals(t.Elem(), structMenu), 3)
		var out []dv
		for _, a := range el {
			for _, b := range el {
				s := reflect.New(t).Elem()
				s.Index(0).Set(a.v)
				s.Index(1).Set(b.v)
				out = append(out, dv{s, "[2]{" + a.desc + " " + b.desc + "}"})
			}
		}
		return out
	case reflect.Map:
		el := reduce(vals(t.Elem(), structMenu), 3)
		var k1, k2 reflect.Value
		switch t.Key().Kind() {
		case reflect.String:
			k1, k2 = reflect.ValueOf("a"), reflect.ValueOf("b")
		case reflect.Int:
			k1, k2 = reflect.ValueOf(1), reflect.ValueOf(22)
		case reflect.Bool:
			k1, k2 = reflect.ValueOf(true), reflect.ValueOf(false)
		case reflect.Int32:
			k1, k2 = reflect.ValueOf(int32(7)), reflect.ValueOf(int32(-8))
		case reflect.Float64:
			// a NaN key cannot be looked up again: every entry is still one element, reached once
			k1, k2 = reflect.ValueOf(math.NaN()), reflect.ValueOf(-2.25)
		case reflect.Struct:
			k1, k2 = reflect.ValueOf(KeyS{1}), reflect.ValueOf(KeyS{2})
			if t.Key() == reflect.TypeOf(KeyS2{}) {
				// two different keys that print the same
				k1, k2 = reflect.ValueOf(KeyS2{"a b", "c"}), reflect.ValueOf(KeyS2{"a", "b c"})
			}
		case reflect.Interface:
			// two different keys that print the same
			k1, k2 = reflect.ValueOf("7"), reflect.ValueOf(7)
			k1, k2 = k1.Convert(t.Key()), k2.Convert(t.Key())
		case reflect.Array:
			k1, k2 = reflect.ValueOf([2]int{1, 2}), reflect.ValueOf([2]int{0, 0})
		case reflect.Uint8:
			k1, k2 = reflect.ValueOf(uint8(200)), reflect.ValueOf(uint8(0))
		}
		out := []dv{{reflect.Zero(t), "nil"}, {reflect.MakeMap(t), "{}"}}
		for _, a := range el {
			m := reflect.MakeMap(t)
			m.SetMapIndex(k1, a.v)
			out = append(out, dv{m, fmt.Sprintf("{%v:%s}", k1, a.desc)})
		}
		for _, a := range el {
			for _, b := range el {
				m := reflect.MakeMap(t)
				m.SetMapIndex(k1, a.v)
				m.SetMapIndex(k2, b.v)
				out = append(out, dv{m, fmt.Sprintf("{%v:%s %v:%s}", k1, a.desc, k2, b.desc)})
			}
		}
		return out
	}
	panic("vals: " + t.String())
}

func containers(elem reflect.Type) []reflect.Type {
	p := reflect.PtrTo(elem)
	pp := reflect.PtrTo(p)
	return []reflect.Type{
		elem, p, pp,
		reflect.SliceOf(elem), reflect.SliceOf(p), reflect.SliceOf(pp),
		reflect.ArrayOf(2, elem), reflect.ArrayOf(2, p),
		reflect.MapOf(reflect.TypeOf(""), elem), reflect.MapOf(reflect.TypeOf(""), p), reflect.MapOf(reflect.TypeOf(0), p), reflect.MapOf(reflect.TypeOf(true), elem),
		reflect.MapOf(reflect.TypeOf(int32(0)), pp),
		// keys of less usual kinds: the element path shows the key itself
		reflect.MapOf(reflect.TypeOf(float64(0)), p), reflect.MapOf(reflect.TypeOf(KeyS{}), elem), reflect.MapOf(reflect.TypeOf((*interface{})(nil)).Elem(), p), reflect.MapOf(reflect.TypeOf([2]int{}), elem),
		reflect.MapOf(reflect.TypeOf(uint8(0)), elem), reflect.MapOf(reflect.TypeOf(KeyS2{}), p),
	}
}

// both markers on one field (either order, or one of them twice) still mean: the sub-objects are validated once
var marks = []string{"required", "exist", "", "required,exist", "exist,required", "exist,exist"}

func tagOf(mark string) reflect.StructTag {
	if mark == "" {
		return ""
	}
	return reflect.StructTag(`valid:"` + mark + `"`)
}

// extras: fields that must never be validated
func extraFields(variant int) []reflect.StructField {
	switch variant {
	case 1:
		return []reflect.StructField{{Name: "priv", PkgPath: "main", Type: leafT, Tag: `valid:"required"`}}
	case 2:
		return []reflect.StructField{{Name: "T", Type: reflect.TypeOf(time.Time{}), Tag: `valid:"required"`}}
	case 3:
		return []reflect.StructField{{Name: "U", Type: leafT}, {Name: "UP", Type: reflect.PtrTo(leafT)}}
	case 4:
		// unexported names that do not start with a lower-case ASCII letter
		return []reflect.StructField{{Name: "_shadow", PkgPath: "main", Type: leafT, Tag: `valid:"required"`}, {Name: "内部", PkgPath: "main", Type: reflect.SliceOf(leafT), Tag: `valid:"required"`},
			{Name: "ünter", PkgPath: "main", Type: reflect.PtrTo(leafT), Tag: `valid:"exist"`}}
	case 5:
		// exported names that start with a non-ASCII upper-case letter: marked sub-objects like any other
		return []reflect.StructField{{Name: "Ärger", Type: leafT, Tag: `valid:"required"`}, {Name: "Дата", Type: reflect.SliceOf(reflect.PtrTo(leafT)), Tag: `valid:"exist"`},
			{Name: "Ωmega", Type: reflect.PtrTo(leafT)}}
	}
	return nil
}

func setExtras(v reflect.Value, variant int) {
	switch variant {
	case 5:
		v.FieldByName("Ärger").Set(reflect.ValueOf(leafBAD))
		s := reflect.MakeSlice(reflect.SliceOf(reflect.PtrTo(leafT)), 2, 2)
		s.Index(1).Set(ptrTo(reflect.ValueOf(leafBAD)))
		v.FieldByName("Дата").Set(s)
		v.FieldByName("Ωmega").Set(ptrTo(reflect.ValueOf(leafBAD))) // unmarked
	case 3:
		v.FieldByName("U").Set(reflect.ValueOf(leafBAD))
		v.FieldByName("UP").Set(ptrTo(reflect.ValueOf(leafBAD)))
	case 2:
		// zero time.Time under required: must not be reported
	}
}

func compare(c *runner.Ctx, src interface{}, desc string, nt *bool, outer ...map[string]string) {
	var err error
	o := walk.Opts{}
	pan, msg, site := runner.Guard(func() {
		if len(outer) > 0 && outer[0] != nil {
			// rules given per call without a target type belong to the outermost object only
			o.Unscoped = outer[0]
			err = valid.Struct(src, valid.RM(outer[0]))
		} else {
			err = valid.Struct(src)
			// the same object once more (round 14): validating an object leaves no trace on it or about it
			if c.Index()%2 == 0 {
				err2 := valid.Struct(src)
				a, b := errparse.Split(fmt.Sprint(err)), errparse.Split(fmt.Sprint(err2))
				sort.Strings(a)
				sort.Strings(b)
				if strings.Join(a, "; ") != strings.Join(b, "; ") {
					c.Violation("same-object-validated-again/different-result", map[string]interface{}{"graph": desc, "first": fmt.Sprint(err), "second": fmt.Sprint(err2)})
				}
			}
		}
	})
	exp := walk.Struct(src, o)
	det := func() map[string]interface{} {
		a := "<nil>"
		if err != nil {
			a = err.Error()
		}
		return map[string]interface{}{"graph": desc, "expected": exp.Error(), "actual": a}
	}
	deep := false
	for _, f := range exp.Fields {
		cl := errparse.ParseClause(f)
		if strings.Count(cl.Path, ".")+strings.Count(cl.Path, "[") >= 2 {
			deep = true
		}
	}
	c.Done(deep, 1)
	if pan {
		d := det()
		d["panic"] = msg
		c.Violation("panic@"+site, d)
		return
	}
	actual := ""
	if err != nil {
		actual = err.Error()
	}
	if exp.Whole != "" {
		if actual != exp.Whole {
			c.Violation("entry-error", det())
		}
		return
	}
	// unnamed struct types render with "; " inside their name: replace the name before splitting
	fieldsW := append([]string{}, exp.Fields...)
	groupsW := append([]string{}, exp.Groups...)
	if ty := reflect.TypeOf(src); ty != nil {
		for ty.Kind() == reflect.Ptr || ty.Kind() == reflect.Slice || ty.Kind() == reflect.Array || ty.Kind() == reflect.Map {
			ty = ty.Elem()
		}
		if n := ty.String(); strings.Contains(n, "; ") {
			actual = strings.ReplaceAll(actual, n, "T")
			for i := range fieldsW {
				fieldsW[i] = strings.ReplaceAll(fieldsW[i], n, "T")
			}
			for i := range groupsW {
				groupsW[i] = strings.ReplaceAll(groupsW[i], n, "T")
			}
		}
	}
	got := errparse.Split(actual)
	want := append(append([]string{}, fieldsW...), groupsW...)
	sameSet := func(a, b []string) bool {
		if len(a) != len(b) {
			return false
		}
		x := append([]string{}, a...)
		y := append([]string{}, b...)
		sort.Strings(x)
		sort.Strings(y)
		for i := range x {
			if x[i] != y[i] {
				return false
			}
		}
		return true
	}
	// field clauses in walk order (a multiset when a map with >= 2 entries is iterated), group clauses after all of
	// them, in unspecified order among themselves
	ok := false
	if len(got) == len(want) {
		gf, gg := got[:len(fieldsW)], got[len(fieldsW):]
		if exp.Unordered {
			ok = sameSet(gf, fieldsW) && sameSet(gg, groupsW)
		} else {
			ok = strings.Join(gf, "; ") == strings.Join(fieldsW, "; ") && sameSet(gg, groupsW)
		}
	}
	if ok {
		c.Outcome(fmt.Sprintf("clauses=%d", len(got)))
		return
	}
	// classify by path sets
	ps := func(cls []string) map[string]int {
		m := map[string]int{}
		for _, s := range cls {
			m[errparse.ParseClause(s).Path]++
		}
		return m
	}
	gp, wp := ps(got), ps(want)
	kind := "text-or-order"
	for p := range wp {
		if gp[p] < wp[p] {
			kind = "missing-path"
		}
	}
	for p := range gp {
		if gp[p] > wp[p] {
			if kind == "missing-path" {
				kind = "wrong-path"
			} else {
				kind = "unexpected-path"
			}
		}
	}
	// one call site: the field clauses are all there, only group clauses differ, and the graph holds a map whose keys
	// print the same (two objects named alike: their groups are judged as one)
	if strings.Contains(desc, "map[interface {}]") || strings.Contains(desc, "KeyS2") {
		var gotF, gotG []string
		for _, s := range got {
			if errparse.ParseClause(s).Group {
				gotG = append(gotG, s)
			} else {
				gotF = append(gotF, s)
			}
		}
		if sameSet(gotF, fieldsW) && !sameSet(gotG, groupsW) {
			kind = "keys-that-print-the-same/groups-merged"
		}
	}
	c.Outcome("mismatch:" + kind)
	c.Violation(kind, det())
}

func wrapTop(v reflect.Value, other reflect.Value, mode int) (interface{}, string) {
	t := v.Type()
	switch mode {
	case 0:
		return ptrTo(v).Interface(), "*T"
	case 1:
		return v.Interface(), "T"
	case 2:
		return ptrTo(ptrTo(v)).Interface(), "**T"
	case 3:
		s := reflect.MakeSlice(reflect.SliceOf(t), 2, 2)
		s.Index(0).Set(v)
		s.Index(1).Set(other)
		return s.Interface(), "[]T"
	case 4:
		s := reflect.MakeSlice(reflect.SliceOf(reflect.PtrTo(t)), 3, 3)
		s.Index(0).Set(ptrTo(other))
		s.Index(2).Set(ptrTo(v))
		return s.Interface(), "[]*T{o,nil,v}"
	case 5:
		a := reflect.New(reflect.ArrayOf(2, t)).Elem()
		a.Index(0).Set(v)
		a.Index(1).Set(other)
		return a.Interface(), "[2]T"
	case 6:
		m := reflect.MakeMap(reflect.MapOf(reflect.TypeOf(""), reflect.PtrTo(t)))
		m.SetMapIndex(reflect.ValueOf("k"), ptrTo(v))
		return m.Interface(), "map[string]*T"
	case 7:
		m := reflect.MakeMap(reflect.MapOf(reflect.TypeOf(0), t))
		m.SetMapIndex(reflect.ValueOf(5), v)
		return m.Interface(), "map[int]T"
	}
	panic(mode)
}

const nTop = 8

func run(c *runner.Ctx) {
	// worker mode lru1: the library's own one-entry LRU is the struct-type cache for the whole process, so the entry of
	// the object being walked is evicted (and whatever the library does on eviction happens) while the walk goes on
	pfx := ""
	if c.Mode == "lru1" {
		pfx = "lru1:"
		valid.SetStructTypeCache(valid.NewLRU(1))
	}
	leafMenu := map[reflect.Type][]dv{leafT: {{reflect.ValueOf(leafZ), "Z"}, {reflect.ValueOf(leafOK), "OK"}, {reflect.ValueOf(leafBAD), "BAD"}}}
	nt := false
	// depth 2, one field: every container x mark x value x extras x every top-level wrapper
	c.Space(pfx + "depth2/one-field")
	for _, ct := range containers(leafT) {
		mks := marks
		if ct.Kind() == reflect.Slice {
			// the marker is one rule of several: the rules after (and before) it are judged on the field itself, after the
			// sub-objects - whose fields have rule lists of their own - have been walked
			mks = append(append([]string{}, marks...), "required,le=1", "exist,le=1,ge=1", "le=1,required", "required,ge=3|m3,le=1|m1", "ge=3,exist,le=1")
		}
		for _, mk := range mks {
			for ex := 0; ex < 6; ex++ {
				fields := append([]reflect.StructField{{Name: "F0", Type: ct, Tag: tagOf(mk)}}, extraFields(ex)...)
				st := reflect.StructOf(fields)
				vs := vals(ct, leafMenu)
				for vi, v := range vs {
					if !c.Take() {
						continue
					}
					node := reflect.New(st).Elem()
					node.Field(0).Set(v.v)
					setExtras(node, ex)
					other := reflect.New(st).Elem()
					other.Field(0).Set(vs[(vi+1)%len(vs)].v)
					for mode := 0; mode < nTop; mode++ {
						src, wn := wrapTop(node, other, mode)
						compare(c, src, fmt.Sprintf("%s of struct{F0 %s `%s`; extras=%d} F0=%s", wn, ct, mk, ex, v.desc), &nt)
					}
					c.Sample(func() interface{} { return fmt.Sprintf("struct{F0 %s `%s`} F0=%s", ct, mk, v.desc) })
				}
			}
		}
	}
	// depth 2, two fields
	c.Space(pfx + "depth2/two-fields")
	cts := containers(leafT)
	for i0, c0 := range cts {
		for _, m0 := range marks {
			for i1, c1 := range cts {
				if !c.Thorough() && (i0+i1)%2 != 0 {
					continue
				}
				for _, m1 := range marks {
					st := reflect.StructOf([]reflect.StructField{{Name: "F0", Type: c0, Tag: tagOf(m0)}, {Name: "F1", Type: c1, Tag: tagOf(m1)}})
					v0s := reduce(vals(c0, leafMenu), 4)
					v1s := reduce(vals(c1, leafMenu), 4)
					if c.Thorough() {
						v0s = vals(c0, leafMenu)
						v1s = reduce(vals(c1, leafMenu), 7)
					}
					for _, a := range v0s {
						for _, b := range v1s {
							if !c.Take() {
								continue
							}
							node := reflect.New(st).Elem()
							node.Field(0).Set(a.v)
							node.Field(1).Set(b.v)
							compare(c, node.Addr().Interface(), fmt.Sprintf("*struct{F0 %s `%s`; F1 %s `%s`} F0=%s F1=%s", c0, m0, c1, m1, a.desc, b.desc), &nt)
						}
					}
				}
			}
		}
	}
	// depth 3: outer container(Mid) x mark, Mid = struct{A inner-container(Leaf) `mark`}
	c.Space(pfx + "depth3")
	inner := containers(leafT)
	for ii, ic := range inner {
		for _, im := range marks {
			mid := reflect.StructOf([]reflect.StructField{{Name: "A", Type: ic, Tag: tagOf(im)}, {Name: "N", Type: reflect.TypeOf(0), Tag: `valid:"le=5"`}})
			var midMenu []dv
			nInner := 4
			if c.Thorough() {
				nInner = 8
			}
			for _, iv := range reduce(vals(ic, leafMenu), nInner) {
				m := reflect.New(mid).Elem()
				m.Field(0).Set(iv.v)
				midMenu = append(midMenu, dv{m, "{A:" + iv.desc + "}"})
				if iv.desc == "nil" || iv.desc == "Z" {
					m2 := reflect.New(mid).Elem()
					m2.Field(0).Set(iv.v)
					m2.Field(1).SetInt(9)
					midMenu = append(midMenu, dv{m2, "{A:" + iv.desc + ",N:9}"})
				}
			}
			menu := map[reflect.Type][]dv{mid: midMenu}
			for oi, oc := range containers(mid) {
				if ii+oi < 0 {
					continue
				}
				oms := marks[:2]
				if c.Thorough() {
					oms = marks // also unmarked: nothing below may be reported
				}
				for _, om := range oms {
					top := reflect.StructOf([]reflect.StructField{{Name: "M", Type: oc, Tag: tagOf(om)}})
					for _, ov := range vals(oc, menu) {
						if !c.Take() {
							continue
						}
						node := reflect.New(top).Elem()
						node.Field(0).Set(ov.v)
						compare(c, node.Addr().Interface(), fmt.Sprintf("*struct{M %s `%s`} with Mid=struct{A %s `%s`; N int `le=5`} M=%s", shortT(oc), om, ic, im, ov.desc), &nt)
					}
				}
			}
		}
	}
	// depth 4 (thorough): Top{M oc(Mid)} nested once more through a reduced container set, Mid{A ic(Leaf)}
	if c.Thorough() {
		c.Space(pfx + "depth4")
		pick := func(all []reflect.Type) []reflect.Type { // T, *T, []T, []*T, [2]*T, map[string]T, map[int]*T, []**T
			return []reflect.Type{all[0], all[1], all[3], all[4], all[7], all[8], all[10], all[5]}
		}
		for _, ic := range pick(containers(leafT)) {
			for _, im := range marks[:2] {
				mid := reflect.StructOf([]reflect.StructField{{Name: "A", Type: ic, Tag: tagOf(im)}, {Name: "N", Type: reflect.TypeOf(0), Tag: `valid:"le=5"`}})
				var midMenu []dv
				for _, iv := range reduce(vals(ic, leafMenu), 4) {
					m := reflect.New(mid).Elem()
					m.Field(0).Set(iv.v)
					midMenu = append(midMenu, dv{m, "{A:" + iv.desc + "}"})
				}
				m9 := reflect.New(mid).Elem()
				m9.Field(1).SetInt(9)
				midMenu = append(midMenu, dv{m9, "{N:9}"})
				for _, oc := range pick(containers(mid)) {
					for _, om := range marks[:2] {
						top := reflect.StructOf([]reflect.StructField{{Name: "M", Type: oc, Tag: tagOf(om)}, {Name: "S", Type: reflect.TypeOf(""), Tag: `valid:"required"`}})
						var topMenu []dv
						for _, ov := range reduce(vals(oc, map[reflect.Type][]dv{mid: midMenu}), 5) {
							t := reflect.New(top).Elem()
							t.Field(0).Set(ov.v)
							topMenu = append(topMenu, dv{t, "{M:" + ov.desc + "}"})
						}
						for _, xc := range pick(containers(top)) {
							for _, xm := range marks[:2] {
								root := reflect.StructOf([]reflect.StructField{{Name: "R", Type: xc, Tag: tagOf(xm)}})
								for _, xv := range vals(xc, map[reflect.Type][]dv{top: topMenu}) {
									if !c.Take() {
										continue
									}
									node := reflect.New(root).Elem()
									node.Field(0).Set(xv.v)
									compare(c, node.Addr().Interface(), fmt.Sprintf("*struct{R %s `%s`} Top=struct{M %s `%s`; S string `required`} Mid=struct{A %s `%s`; N int `le=5`} R=%s",
										shortT(xc), xm, shortT(oc), om, ic, im, xv.desc), &nt)
								}
							}
						}
					}
				}
			}
		}
	}
	// named family
	c.Space(pfx + "named")
	markerLookAlikes(c)
	twoTagNames(c)
	c.Space(pfx + "named")
	for i, cs := range namedCases() {
		if !c.Take() {
			continue
		}
		compare(c, cs.v, fmt.Sprintf("named#%d %s", i, cs.desc), &nt, cs.outer)
	}
	// a caller-supplied function that panics *during* the walk (round 13). The panic may reach the caller - nothing is
	// then claimed - but a call that returns normally has reached every marked sub-object: every clause the model
	// expects (with the panicking function taken as silent) is in the result.
	c.Space(pfx + "named/a-caller-supplied-function-panics-during-the-walk")
	boom0 := func(errBuf *strings.Builder, validName, objName, fieldName string, tv reflect.Value) {
		var m map[string]int
		m[fieldName] = 1
	}
	for i, cs := range namedCases() {
		if cs.outer != nil {
			continue
		}
		for _, where := range []struct {
			field string
			typed interface{}
		}{{"Name", nil}, {"N", Mid{}}, {"V", Chain{}}, {"V", Leaf{}}} {
			if !c.Take() {
				continue
			}
			vs := valid.NewVStruct().SetValidFn("boom", boom0)
			o := walk.Opts{CallFns: map[string]walk.Fn{"boom": func(rule, objName, fieldName string, v reflect.Value) string { return "" }}}
			if where.typed == nil {
				vs.SetRule(valid.RM{where.field: "boom"})
				o.Unscoped = map[string]string{where.field: "boom"}
			} else {
				vs.SetRule(valid.RM{where.field: "boom"}, where.typed)
				o.Typed = map[reflect.Type]map[string]string{reflect.TypeOf(where.typed): {where.field: "boom"}}
			}
			var err error
			pan, _, _ := runner.Guard(func() { err = vs.Valid(cs.v) })
			c.Done(true, 1)
			if pan {
				c.Outcome("panic-reached-the-caller")
				continue
			}
			got := ""
			if err != nil {
				got = err.Error()
			}
			exp := walk.Struct(cs.v, o)
			if exp.Whole != "" {
				continue
			}
			have := map[string]int{}
			for _, cl := range strings.Split(got, "; ") {
				have[cl]++
			}
			for _, cl := range exp.Multiset() {
				if have[cl] == 0 {
					c.Violation("returned-normally-without-reaching-a-marked-sub-object", map[string]interface{}{"object": fmt.Sprintf("named#%d %s", i, cs.desc), "panicking_function_on": where.field, "missing_clause": cl, "actual": got})
					break
				}
				have[cl]--
			}
			c.Outcome("returned")
		}
	}
	// the same objects, each right after a call whose walk was abandoned *behind a marker* by a caller-supplied function
	// that panics (the caller recovers), and after a call that was refused before any walk: the next call starts afresh
	c.Space(pfx + "named/after-an-abandoned-walk")
	boom := func(errBuf *strings.Builder, validName, objName, fieldName string, tv reflect.Value) {
		var m map[string]int
		m[fieldName] = 1
	}
	for i, cs := range namedCases() {
		if !c.Take() {
			continue
		}
		for _, how := range []string{"marker then function", "function inside a sub-object", "refused"} {
			func() {
				defer func() { _ = recover() }()
				switch how {
				case "marker then function":
					_ = valid.StructForFns(&Parent{Name: "n", M: Mid{L: leafOK}, PM: &Mid{}}, valid.RM{"M": "required,boom", "PM": "exist,boom"}, valid.Name2FnMap{"boom": boom})
				case "function inside a sub-object":
					_ = valid.NewVStruct().SetValidFn("boom", boom).SetRule(valid.RM{"N": "boom"}, Mid{}).Valid(&Parent{Name: "n", M: Mid{L: leafOK, N: 1}})
				default:
					n := 5
					_ = valid.Struct(&n)
					_ = valid.Struct("abc", valid.RM{"M": "exist"})
				}
			}()
			compare(c, cs.v, fmt.Sprintf("named#%d %s [right after: %s]", i, cs.desc, how), &nt, cs.outer)
		}
	}
}

// Cart: fields whose rule is a call-supplied function with a name that merely starts like one of the two markers.
// Such a field is not marked: its function runs on it (when it is not empty), and its sub-objects are not entered.
type Cart struct {
	Gifts  []Leaf          `valid:"required_with=Coupon"`
	Bonus  *Leaf           `valid:"exists_in_book"`
	Extra  Leaf            `valid:"requiredx|m"`
	Plain  *Leaf           `valid:"existing,exist_"`
	ByKey  map[string]Leaf `valid:"required2"`
	Empty  []Leaf          `valid:"required_with=Coupon"`
	Real   *Leaf           `valid:"exist"`
	Must   []Leaf          `valid:"required"`
	Coupon string
}

func markerLookAlikes(c *runner.Ctx) {
	c.Space("rule-names-that-start-like-a-marker")
	names := []string{"required_with", "exists_in_book", "requiredx", "existing", "exist_", "required2"}
	mk := func(text string) valid.CommonValidFn {
		return func(errBuf *strings.Builder, validName, objName, fieldName string, tv reflect.Value) {
			errBuf.WriteString(valid.GetJoinValidErrStr(objName, fieldName, "", valid.ExplainEn, text))
		}
	}
	for _, leaf := range []Leaf{leafBAD, leafOK} {
		for _, silent := range []bool{true, false} {
			for _, top := range []int{0, 1, 2} {
				if !c.Take() {
					continue
				}
				leaf := leaf
				fns := valid.Name2FnMap{}
				mfns := map[string]walk.Fn{}
				for _, n := range names {
					n := n
					if silent {
						fns[n] = func(errBuf *strings.Builder, validName, objName, fieldName string, tv reflect.Value) {}
						mfns[n] = func(rule, obj, field string, v reflect.Value) string { return "" }
					} else {
						fns[n] = mk("ran-" + n)
						mfns[n] = func(rule, obj, field string, v reflect.Value) string {
							return walk.ValueClause(obj, field, "", "ran-"+n)
						}
					}
				}
				cart := Cart{Gifts: []Leaf{leaf}, Bonus: &leaf, Extra: leaf, Plain: &leaf, ByKey: map[string]Leaf{"k": leaf}, Real: &leaf, Must: []Leaf{leaf, leafOK}}
				var src interface{} = &cart
				switch top {
				case 1:
					src = []Cart{cart, {}}
				case 2:
					src = map[string]*Cart{"x": &cart}
				}
				var err error
				pan, msg, site := runner.Guard(func() { err = valid.StructForFns(src, nil, fns) })
				exp := walk.Struct(src, walk.Opts{CallFns: mfns})
				c.Done(true, 1)
				got := ""
				if err != nil {
					got = err.Error()
				}
				det := map[string]interface{}{"graph": fmt.Sprintf("Cart (top-level form %d) holding Leaf%+v; functions silent=%v", top, leaf, silent), "expected": exp.Error(), "actual": got}
				if pan {
					det["panic"] = msg
					c.Violation("panic@"+site+"/marker-look-alike", det)
					continue
				}
				a, b := errparse.Split(got), exp.Multiset()
				sort.Strings(a)
				sort.Strings(b)
				if strings.Join(a, "\x00") != strings.Join(b, "\x00") {
					kind := "marker-look-alike/different"
					if len(a) > len(b) {
						kind = "marker-look-alike/unmarked-sub-object-entered-or-reported"
					} else if len(a) < len(b) {
						kind = "marker-look-alike/clause-missing"
					}
					c.Violation(kind, det)
					continue
				}
				c.Outcome("ok")
			}
		}
	}
}

func shortT(t reflect.Type) string {
	s := t.String()
	if k := strings.Index(s, "struct {"); k >= 0 {
		return s[:k] + "Mid"
	}
	return s
}

type Mid struct {
	L       Leaf            `valid:"required"`
	PL      *Leaf           `valid:"exist"`
	SL      []*Leaf         `valid:"required"`
	ML      map[string]Leaf `valid:"exist"`
	U       Leaf            // unmarked: never validated
	T       time.Time       `valid:"required"`
	priv    Leaf            `valid:"required"`
	_shadow Leaf            `valid:"required"`
	内部      *Leaf           `valid:"required"`
	N       int             `valid:"ge=2"`
}

type Embedded struct {
	E string `valid:"required"`
}

type Parent struct {
	Name     string          `valid:"required|名字"`
	M        Mid             `valid:"required"`
	PM       *Mid            `valid:"exist"`
	PPM      **Mid           `valid:"exist"`
	SM       []Mid           `valid:"exist"`
	AM       [2]*Mid         `valid:"required"`
	MM       map[string]*Mid `valid:"required"`
	MI       map[int]*Mid    `valid:"exist"`
	UM       *Mid            // unmarked
	Embedded `valid:"required"`
	When     time.Time  `valid:"required"`
	PW       *time.Time `valid:"exist"`
}

// Chain: self-referential type, for sub-objects far below the top ("to any depth").
type Chain struct {
	V    string         `valid:"required"`
	Next *Chain         `valid:"exist"`
	Kids []*Chain       `valid:"exist"`
	ByID map[int]*Chain `valid:"exist"`
	Skip *Chain         // unmarked: never validated
}

func chain(depth int, via string) *Chain {
	root := &Chain{V: "ok"}
	cur := root
	for i := 0; i < depth; i++ {
		n := &Chain{V: "ok"}
		if i == depth-1 {
			n.V = "" // only the deepest node violates
		}
		switch via {
		case "next":
			cur.Next = n
		case "kids":
			cur.Kids = []*Chain{nil, n}
		case "map":
			cur.ByID = map[int]*Chain{i: n}
		default:
			switch i % 3 {
			case 0:
				cur.Next = n
			case 1:
				cur.Kids = []*Chain{n}
			default:
				cur.ByID = map[int]*Chain{-i: n}
			}
		}
		cur.Skip = &Chain{} // violating, but unmarked
		cur = n
	}
	return root
}

// Batch: collections that can hold thousands of sub-objects, followed by more fields that hold sub-objects.
type Batch struct {
	ByID map[int]*Chain    `valid:"exist"`
	Rows []*Chain          `valid:"exist"`
	Tail map[string]*Chain `valid:"exist"`
	Last *Chain            `valid:"exist"`
	Arr  [3]Chain          `valid:"required"`
}

// EmbU / EmbP / WithEmb (round 14): embedded structs without a marker are fields without a marker.
type EmbU struct {
	E string `valid:"required"`
	X int    `valid:"le=3"`
}

type EmbP struct {
	Q string `valid:"required"`
	Y int
}

type WithEmb struct {
	EmbU
	*EmbP
	Name string `valid:"required"`
	Leaf `valid:"exist"`
}

type namedCase struct {
	v     interface{}
	desc  string
	outer map[string]string // per-call rules for the outermost object (nil = none)
}

func namedCases() []namedCase {
	okMid := Mid{L: leafOK, SL: []*Leaf{&leafOK}, N: 3}
	badMid := Mid{L: leafBAD, PL: &leafBAD, SL: []*Leaf{nil, &leafBAD, &leafOK}, ML: map[string]Leaf{"k": leafBAD}, U: leafBAD, priv: leafBAD, N: 1}
	emptyMid := Mid{}
	pbad := &badMid
	now := time.Now()
	var out []namedCase
	add := func(desc string, p Parent) {
		out = append(out, namedCase{v: p, desc: "Parent " + desc}, namedCase{v: &p, desc: "*Parent " + desc}, namedCase{v: []Parent{p, {}}, desc: "[]Parent " + desc},
			namedCase{v: []*Parent{nil, &p}, desc: "[]*Parent " + desc}, namedCase{v: map[string]*Parent{"x": &p}, desc: "map[string]*Parent " + desc}, namedCase{v: [1]Parent{p}, desc: "[1]Parent " + desc})
	}
	add("zero", Parent{})
	add("ok", Parent{Name: "n", M: okMid, AM: [2]*Mid{&okMid, nil}, MM: map[string]*Mid{"a": &okMid}, Embedded: Embedded{"e"}, When: now})
	add("bad everywhere", Parent{M: badMid, PM: pbad, PPM: &pbad, SM: []Mid{badMid, okMid, emptyMid}, AM: [2]*Mid{nil, &badMid}, MM: map[string]*Mid{"a": &badMid},
		MI: map[int]*Mid{7: &badMid}, UM: &badMid, PW: &now})
	add("nil inner pointers", Parent{Name: "n", M: okMid, PPM: new(*Mid), AM: [2]*Mid{nil, nil}, MM: map[string]*Mid{"a": nil}, MI: map[int]*Mid{1: nil, 2: nil}, Embedded: Embedded{"e"}})
	add("slices", Parent{Name: "n", M: okMid, SM: []Mid{emptyMid, emptyMid}, AM: [2]*Mid{&emptyMid, &okMid}, MM: map[string]*Mid{"z": &emptyMid}, Embedded: Embedded{"e"}})
	for _, via := range []string{"next", "kids", "map", "mixed"} {
		for _, d := range []int{1, 4, 31, 32, 33, 64, 200} {
			out = append(out, namedCase{v: chain(d, via), desc: fmt.Sprintf("*Chain depth %d via %s", d, via)}, namedCase{v: []*Chain{chain(d, via), nil, chain(2, via)}, desc: fmt.Sprintf("[]*Chain depth %d via %s", d, via)})
			if d <= 33 {
				// the outermost node alone gets a per-call mark on Skip (and a per-call message on V): the nodes below
				// it have the same type and keep their own marks
				out = append(out, namedCase{chain(d, via), fmt.Sprintf("*Chain depth %d via %s, per-call Skip=exist on the outermost node", d, via), map[string]string{"Skip": "exist"}},
					namedCase{chain(d, via), fmt.Sprintf("*Chain depth %d via %s, per-call Skip=required, Next unmarked, on the outermost node", d, via), map[string]string{"Skip": "required", "Next": "le=3"}})
			}
		}
	}
	// wide structs: marked fields at every index up to 130 (nothing about a field depends on its position)
	for _, n := range []int{63, 64, 65, 70, 130} {
		var sf []reflect.StructField
		for i := 0; i < n; i++ {
			switch i % 5 {
			case 0:
				sf = append(sf, reflect.StructField{Name: fmt.Sprintf("P%03d", i), Type: reflect.PtrTo(leafT), Tag: `valid:"exist"`})
			case 1:
				sf = append(sf, reflect.StructField{Name: fmt.Sprintf("S%03d", i), Type: reflect.SliceOf(leafT), Tag: `valid:"required"`})
			case 2:
				sf = append(sf, reflect.StructField{Name: fmt.Sprintf("N%03d", i), Type: reflect.TypeOf(0)})
			case 3:
				sf = append(sf, reflect.StructField{Name: fmt.Sprintf("M%03d", i), Type: reflect.MapOf(reflect.TypeOf(""), reflect.PtrTo(leafT)), Tag: `valid:"exist"`})
			default:
				sf = append(sf, reflect.StructField{Name: fmt.Sprintf("U%03d", i), Type: reflect.PtrTo(leafT)}) // unmarked
			}
		}
		wt := reflect.StructOf(sf)
		w := reflect.New(wt).Elem()
		for i := 0; i < n; i++ {
			switch i % 5 {
			case 0, 4:
				w.Field(i).Set(ptrTo(reflect.ValueOf(leafBAD)))
			case 1:
				if i%2 == 0 {
					w.Field(i).Set(reflect.ValueOf([]Leaf{leafOK, leafBAD}))
				}
			case 3:
				m := reflect.MakeMap(wt.Field(i).Type)
				m.SetMapIndex(reflect.ValueOf("k"), ptrTo(reflect.ValueOf(leafBAD)))
				w.Field(i).Set(m)
			}
		}
		out = append(out, namedCase{v: w.Addr().Interface(), desc: fmt.Sprintf("struct with %d fields, marked sub-objects at every fifth index", n)})
	}
	// large volumes of violations (round 12): thousands of violating sub-objects - 4 KB to 1 MB of clauses - followed by
	// further collections and single sub-objects; how much has been reported already changes nothing about what is reached
	for _, n := range []int{100, 1000, 1500, 3000, 25000} {
		rows := make([]*Chain, n)
		for i := range rows {
			rows[i] = &Chain{}
		}
		byID := map[int]*Chain{}
		for i := 0; i < n; i += 7 {
			byID[i] = &Chain{Kids: []*Chain{{}}}
		}
		b := &Batch{Rows: rows, Tail: map[string]*Chain{"last": {}}, Last: &Chain{}, Arr: [3]Chain{{V: "ok"}, {}, {}}}
		out = append(out, namedCase{v: b, desc: fmt.Sprintf("Batch with %d violating rows, then a one-entry map, a pointer and an array", n)},
			namedCase{v: rows, desc: fmt.Sprintf("[]*Chain with %d violating elements", n)},
			namedCase{v: []*Batch{b, {Last: &Chain{}}, nil, {Tail: map[string]*Chain{"k": {}}}}, desc: fmt.Sprintf("[]*Batch whose first element has %d violating rows", n)},
			namedCase{v: &Batch{ByID: byID, Rows: rows[:3], Last: &Chain{}}, desc: fmt.Sprintf("Batch with a map of %d violating entries first", len(byID))},
			namedCase{v: map[string]*Batch{"only": b}, desc: fmt.Sprintf("map[string]*Batch, %d violating rows", n)})
	}
	out = append(out, namedCase{v: &WithEmb{EmbU: EmbU{X: 9}, EmbP: &EmbP{Y: 1}, Name: "n", Leaf: leafBAD}, desc: "WithEmb: violating untagged embedded struct and pointer, marked embedded Leaf"},
		namedCase{v: []WithEmb{{EmbU: EmbU{E: "e", X: 9}, Leaf: leafOK}, {EmbP: &EmbP{Q: "", Y: 2}}}, desc: "[]WithEmb"},
		namedCase{v: map[string]*WithEmb{"k": {EmbU: EmbU{X: 5}, EmbP: &EmbP{Y: 3}}}, desc: "map[string]*WithEmb"})
	add("unmarked only", Parent{Name: "n", M: okMid, UM: &badMid, AM: [2]*Mid{&okMid, &okMid}, MM: map[string]*Mid{"a": &okMid}, Embedded: Embedded{"e"}})
	return out
}

func main() {
	runner.Main(runner.Config{
		Property:  "C04",
		Technique: "bounded-exhaustive enumeration of acyclic object graphs (container grammar, depth<=3) vs walk reference model (expected clause/path list)",
		Rule: "(round 12: named objects with 100 ... 25 000 violating sub-objects - up to 1 MB of clauses - followed by further collections, pointers and arrays; every named object again right after a walk abandoned behind a marker by a panicking caller-supplied function, after one abandoned inside a sub-object, and after calls refused before any walk) types: 19 containers of Leaf {T,*T,**T,[]T,[]*T,[]**T,[2]T,[2]*T,map[string]T,map[string]*T,map[int]*T,map[bool]T,map[int32]**T,map[float64]*T,map[struct]T,map[interface{}]*T,map[[2]int]T,map[uint8]T,map[struct{A,B string}]*T; NaN keys, distinct keys that print the same} x marks {required, exist, none, 'required,exist', 'exist,required', 'exist,exist'} as one or two fields, on slices also with size rules before / after the marker ('required,le=1', 'exist,le=1,ge=1', 'le=1,required', 'required,ge=3|m3,le=1|m1', 'ge=3,exist,le=1'; Leaf's own fields carry two rules each) (+unexported incl. names starting with '_' / a CJK or non-ASCII lower-case letter, time.Time, unmarked extras), " +
			"nested once more through every container of Mid (depth 3; thorough: unmarked outer fields too, and a depth-4 space over 8 container kinds per level); values: nil / zero / valid / violating nodes, collections of length 0..2 with every mix; top-level input T,*T,**T,[]T,[]*T,[2]T,map[string]*T,map[int]T; " +
			"plus a named Parent/Mid/Leaf family structs with up to 130 fields, and self-referential chains to depth 200 through pointers, slices and maps; a Cart type whose slice / pointer / value / map fields carry call-supplied functions under names that merely start like a marker (required_with, exists_in_book, requiredx, existing, exist_, required2) next to real markers; Leaf = {required, to=1~3, either group of two}; expected clauses from the walk model: field clauses compared in order (as a multiset when a map with >=2 entries is iterated), group clauses (reported after the walk, path-qualified per sub-object) after them as a multiset; non-trivial = a violation at depth>=2",
		Assumptions: []string{"acyclic graphs only (statement)", "walk model internal/walk"},
		Run:         run,
		Modes:       []runner.Mode{{Name: "plain"}, {Name: "lru1", Workers: 6}},
	})
}

// TL / TwoTags (round 14): two tag names that mark different fields of one type.
type TL struct {
	V string `valid:"required" alt:"required|alt-v"`
	W int    `valid:"le=3" alt:"ge=100|alt-w"`
}

type TwoTags struct {
	A *TL           `valid:"exist"`
	B *TL           `alt:"exist"`
	C []TL          `valid:"required" alt:"required"`
	D map[string]TL `alt:"required"`
	E [1]*TL        `valid:"exist"`
}

// twoTagNames: every 3-call history over {default tag, "valid" given explicitly, "alt"} on one object: each call reaches
// exactly the sub-objects marked under the tag name it asked for.
func twoTagNames(c *runner.Ctx) {
	c.Space("markers-under-two-tag-names")
	bad := TL{V: "", W: 9}
	mk := func(k int) *TwoTags {
		t := &TwoTags{A: &TL{V: "", W: 9}, B: &TL{V: "", W: 9}, C: []TL{bad, {V: "x", W: 1}}, D: map[string]TL{"k": bad}, E: [1]*TL{{V: "", W: 200}}}
		switch k {
		case 1:
			t.A, t.C = nil, nil
		case 2:
			t.B, t.D = nil, nil
		}
		return t
	}
	call := func(tag string, v interface{}) error {
		switch tag {
		case "":
			return valid.Struct(v)
		default:
			return valid.ValidateStruct(v, tag)
		}
	}
	tags := []string{"", "valid", "alt"}
	for k := 0; k < 3; k++ {
		for a := range tags {
			for b := range tags {
				for d := range tags {
					if !c.Take() {
						continue
					}
					for step, ti := range []int{a, b, d} {
						v := mk(k)
						var err error
						pan, msg, site := runner.Guard(func() { err = call(tags[ti], v) })
						got := "<nil>"
						if err != nil {
							got = err.Error()
						}
						want := walk.Struct(v, walk.Opts{Tag: tags[ti]}).Error()
						if want == "" {
							want = "<nil>"
						}
						det := map[string]interface{}{"history": []string{tags[a], tags[b], tags[d]}, "step": step, "object": k, "expected": want, "actual": got}
						if pan {
							det["panic"] = msg
							c.Violation("panic@"+site, det)
							break
						}
						if got != want {
							c.Violation("two-tag-names/sub-objects-of-the-other-tag-name-reached-or-missed", det)
							break
						}
					}
					c.Done(true, 3)
				}
			}
		}
	}
}
