#!/bin/bash
# seedtest.sh <patch> <Cxx> [tier]  — apply a seeded change to /repo, run the check, undo. Prints exit code.
patch="$1"; id="$2"; tier="${3:-quick}"
if [ -n "$(git -C /repo status --porcelain --untracked-files=no)" ]; then echo "/repo dirty"; exit 9; fi
git -C /repo apply "$patch" || git -C /repo apply --3way "$patch" || { echo "PATCH-DOES-NOT-APPLY"; git -C /repo reset -q --hard HEAD; exit 8; }
/verif/check "$id" "$tier" > /tmp/seedtest.out 2>&1; rc=$?
git -C /repo reset -q --hard HEAD
grep -E "^VIOLATION|KNOWN-FINDING|^C[0-9]+ " /tmp/seedtest.out | cut -c1-300 | head -8
echo "exit=$rc"
