module verifshim
