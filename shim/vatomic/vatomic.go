// Package vatomic replaces sync/atomic inside the repository under test (build overlay): every operation is a
// scheduling point of the controlled scheduler (a yield that is always enabled) followed by the real atomic operation,
// so interleavings between lock-free accesses are explored; the real operation keeps the race detector's view intact.
// No generics: the package is compiled as part of the repository's module (go 1.16 language level).
package vatomic

import (
	"sync/atomic"
	"unsafe"

	"gitee.com/xuesongtao/protoc-go-valid/verifshim/vsched"
)

func y() { vsched.Yield() }

func AddInt32(addr *int32, delta int32) int32 { y(); return atomic.AddInt32(addr, delta) }
func LoadInt32(addr *int32) int32             { y(); return atomic.LoadInt32(addr) }
func StoreInt32(addr *int32, val int32)       { y(); atomic.StoreInt32(addr, val) }
func SwapInt32(addr *int32, new int32) int32  { y(); return atomic.SwapInt32(addr, new) }
func CompareAndSwapInt32(addr *int32, old, new int32) bool {
	y()
	return atomic.CompareAndSwapInt32(addr, old, new)
}

// Int32 mirrors atomic.Int32.
type Int32 struct{ v atomic.Int32 }

func (x *Int32) Load() int32                        { y(); return x.v.Load() }
func (x *Int32) Store(val int32)                    { y(); x.v.Store(val) }
func (x *Int32) Swap(new int32) int32               { y(); return x.v.Swap(new) }
func (x *Int32) CompareAndSwap(old, new int32) bool { y(); return x.v.CompareAndSwap(old, new) }
func (x *Int32) Add(delta int32) int32              { y(); return x.v.Add(delta) }

func AddInt64(addr *int64, delta int64) int64 { y(); return atomic.AddInt64(addr, delta) }
func LoadInt64(addr *int64) int64             { y(); return atomic.LoadInt64(addr) }
func StoreInt64(addr *int64, val int64)       { y(); atomic.StoreInt64(addr, val) }
func SwapInt64(addr *int64, new int64) int64  { y(); return atomic.SwapInt64(addr, new) }
func CompareAndSwapInt64(addr *int64, old, new int64) bool {
	y()
	return atomic.CompareAndSwapInt64(addr, old, new)
}

// Int64 mirrors atomic.Int64.
type Int64 struct{ v atomic.Int64 }

func (x *Int64) Load() int64                        { y(); return x.v.Load() }
func (x *Int64) Store(val int64)                    { y(); x.v.Store(val) }
func (x *Int64) Swap(new int64) int64               { y(); return x.v.Swap(new) }
func (x *Int64) CompareAndSwap(old, new int64) bool { y(); return x.v.CompareAndSwap(old, new) }
func (x *Int64) Add(delta int64) int64              { y(); return x.v.Add(delta) }

func AddUint32(addr *uint32, delta uint32) uint32 { y(); return atomic.AddUint32(addr, delta) }
func LoadUint32(addr *uint32) uint32              { y(); return atomic.LoadUint32(addr) }
func StoreUint32(addr *uint32, val uint32)        { y(); atomic.StoreUint32(addr, val) }
func SwapUint32(addr *uint32, new uint32) uint32  { y(); return atomic.SwapUint32(addr, new) }
func CompareAndSwapUint32(addr *uint32, old, new uint32) bool {
	y()
	return atomic.CompareAndSwapUint32(addr, old, new)
}

// Uint32 mirrors atomic.Uint32.
type Uint32 struct{ v atomic.Uint32 }

func (x *Uint32) Load() uint32                        { y(); return x.v.Load() }
func (x *Uint32) Store(val uint32)                    { y(); x.v.Store(val) }
func (x *Uint32) Swap(new uint32) uint32              { y(); return x.v.Swap(new) }
func (x *Uint32) CompareAndSwap(old, new uint32) bool { y(); return x.v.CompareAndSwap(old, new) }
func (x *Uint32) Add(delta uint32) uint32             { y(); return x.v.Add(delta) }

func AddUint64(addr *uint64, delta uint64) uint64 { y(); return atomic.AddUint64(addr, delta) }
func LoadUint64(addr *uint64) uint64              { y(); return atomic.LoadUint64(addr) }
func StoreUint64(addr *uint64, val uint64)        { y(); atomic.StoreUint64(addr, val) }
func SwapUint64(addr *uint64, new uint64) uint64  { y(); return atomic.SwapUint64(addr, new) }
func CompareAndSwapUint64(addr *uint64, old, new uint64) bool {
	y()
	return atomic.CompareAndSwapUint64(addr, old, new)
}

// Uint64 mirrors atomic.Uint64.
type Uint64 struct{ v atomic.Uint64 }

func (x *Uint64) Load() uint64                        { y(); return x.v.Load() }
func (x *Uint64) Store(val uint64)                    { y(); x.v.Store(val) }
func (x *Uint64) Swap(new uint64) uint64              { y(); return x.v.Swap(new) }
func (x *Uint64) CompareAndSwap(old, new uint64) bool { y(); return x.v.CompareAndSwap(old, new) }
func (x *Uint64) Add(delta uint64) uint64             { y(); return x.v.Add(delta) }

func AddUintptr(addr *uintptr, delta uintptr) uintptr { y(); return atomic.AddUintptr(addr, delta) }
func LoadUintptr(addr *uintptr) uintptr               { y(); return atomic.LoadUintptr(addr) }
func StoreUintptr(addr *uintptr, val uintptr)         { y(); atomic.StoreUintptr(addr, val) }
func SwapUintptr(addr *uintptr, new uintptr) uintptr  { y(); return atomic.SwapUintptr(addr, new) }
func CompareAndSwapUintptr(addr *uintptr, old, new uintptr) bool {
	y()
	return atomic.CompareAndSwapUintptr(addr, old, new)
}

// Uintptr mirrors atomic.Uintptr.
type Uintptr struct{ v atomic.Uintptr }

func (x *Uintptr) Load() uintptr                        { y(); return x.v.Load() }
func (x *Uintptr) Store(val uintptr)                    { y(); x.v.Store(val) }
func (x *Uintptr) Swap(new uintptr) uintptr             { y(); return x.v.Swap(new) }
func (x *Uintptr) CompareAndSwap(old, new uintptr) bool { y(); return x.v.CompareAndSwap(old, new) }
func (x *Uintptr) Add(delta uintptr) uintptr            { y(); return x.v.Add(delta) }

func LoadPointer(addr *unsafe.Pointer) unsafe.Pointer       { y(); return atomic.LoadPointer(addr) }
func StorePointer(addr *unsafe.Pointer, val unsafe.Pointer) { y(); atomic.StorePointer(addr, val) }
func SwapPointer(addr *unsafe.Pointer, new unsafe.Pointer) unsafe.Pointer {
	y()
	return atomic.SwapPointer(addr, new)
}
func CompareAndSwapPointer(addr *unsafe.Pointer, old, new unsafe.Pointer) bool {
	y()
	return atomic.CompareAndSwapPointer(addr, old, new)
}

// Bool mirrors atomic.Bool.
type Bool struct{ v atomic.Bool }

func (x *Bool) Load() bool                        { y(); return x.v.Load() }
func (x *Bool) Store(val bool)                    { y(); x.v.Store(val) }
func (x *Bool) Swap(new bool) bool                { y(); return x.v.Swap(new) }
func (x *Bool) CompareAndSwap(old, new bool) bool { y(); return x.v.CompareAndSwap(old, new) }

// Value mirrors atomic.Value.
type Value struct{ v atomic.Value }

func (x *Value) Load() interface{}                        { y(); return x.v.Load() }
func (x *Value) Store(val interface{})                    { y(); x.v.Store(val) }
func (x *Value) Swap(new interface{}) interface{}         { y(); return x.v.Swap(new) }
func (x *Value) CompareAndSwap(old, new interface{}) bool { y(); return x.v.CompareAndSwap(old, new) }
