package vsched

// One process per execution: the fallback exploration mode for code under test that keeps process-global state
// (package variables, memo tables) from one execution to the next, which makes prefix replay diverge.

import (
	"encoding/json"
	"os"
)

// ChildChoices reports whether this process is the child of an isolated exploration and, if so, the one schedule it
// has to run (VERIF_ONE_EXEC).
func ChildChoices() ([]int, bool) {
	one := os.Getenv("VERIF_ONE_EXEC")
	if one == "" {
		return nil, false
	}
	var choices []int
	json.Unmarshal([]byte(one), &choices)
	return choices, true
}

// WriteChildResult hands the execution and the verdict of its Check back to the parent (VERIF_ONE_OUT).
func WriteChildResult(x *Exec, ok bool) {
	b, _ := json.Marshal(map[string]interface{}{"exec": x, "ok": ok})
	os.WriteFile(os.Getenv("VERIF_ONE_OUT"), b, 0644)
}

// WriteChildDiverged tells the parent that the schedule could not be replayed even in a fresh process (the code under
// test is not deterministic under a fixed schedule: Go map iteration order, say).
func WriteChildDiverged(dv string) {
	b, _ := json.Marshal(map[string]interface{}{"diverged": dv})
	os.WriteFile(os.Getenv("VERIF_ONE_OUT"), b, 0644)
}

// Unreplayable counts schedules skipped because replaying their prefix diverged in several fresh processes in a row.
var Unreplayable int

// RemoteVia builds an Explorer.Remote: runChild re-runs the current case of the harness in a fresh process with the
// given extra environment (the harness runner provides it) and returns the child's stderr and exit error. budget is
// decremented per child execution; at zero the exploration stops (Capped). crashed is told about children that died.
func RemoteVia(runChild func(env []string) (string, error), scratch string, budget *int, crashed func(prefix []int, stderr string, err error)) func(prefix []int) (*Exec, bool) {
	return func(prefix []int) (*Exec, bool) {
		if *budget <= 0 {
			return nil, false
		}
		of, err := os.CreateTemp(scratch, "exec-*.json")
		if err != nil {
			return nil, false
		}
		of.Close()
		defer os.Remove(of.Name())
		pj, _ := json.Marshal(prefix)
		for attempt := 0; attempt < 4 && *budget > 0; attempt++ {
			*budget--
			stderr, err := runChild([]string{"VERIF_ONE_EXEC=" + string(pj), "VERIF_ONE_OUT=" + of.Name()})
			if err != nil {
				crashed(prefix, stderr, err)
				return nil, false
			}
			var r struct {
				Exec     *Exec  `json:"exec"`
				OK       bool   `json:"ok"`
				Diverged string `json:"diverged"`
			}
			b, _ := os.ReadFile(of.Name())
			if json.Unmarshal(b, &r) != nil {
				return nil, false
			}
			if r.Diverged != "" {
				continue // not deterministic under this schedule: try again
			}
			if r.Exec == nil {
				return nil, false
			}
			return r.Exec, r.OK
		}
		Unreplayable++
		return nil, true
	}
}

// ExploreIsolating is Explore with the fallback built in. In the child of an isolated exploration it runs the one
// schedule it was given. Otherwise it explores in-process and, if prefix replay diverged (process-global state of the
// code under test survived from one execution to the next) and budget allows, explores again with one process per
// execution. isolated tells which. A result that still has Diverged set means the budget was used up.
func (e *Explorer) ExploreIsolating(runChild func(env []string) (string, error), scratch string, budget *int, crashed func(prefix []int, stderr string, err error)) (res Result, isolated bool) {
	if choices, child := ChildChoices(); child {
		x := e.Replay(choices)
		if dv := e.Diverged(); dv != "" {
			WriteChildDiverged(dv)
			return Result{Execs: 1}, false
		}
		WriteChildResult(x, e.Check(x))
		return Result{Execs: 1, Steps: int64(len(x.Trace))}, false
	}
	res = e.Explore()
	if res.Diverged == "" || *budget <= 0 {
		return res, false
	}
	e.Remote = RemoteVia(runChild, scratch, budget, crashed)
	e.Opt.StopAtFirst = true
	res = e.Explore()
	e.Remote = nil
	return res, true
}
