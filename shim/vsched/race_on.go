//go:build race

package vsched

import (
	"runtime"
	"unsafe"
)

const RaceEnabled = true

func raceDisable()                 { runtime.RaceDisable() }
func raceEnable()                  { runtime.RaceEnable() }
func RaceAcquire(p unsafe.Pointer) { runtime.RaceAcquire(p) }
func RaceRelease(p unsafe.Pointer) { runtime.RaceRelease(p) }
func RaceReleaseMerge(p unsafe.Pointer) {
	runtime.RaceReleaseMerge(p)
}
