// Package vsched is a hand-written stateless model checker for Go code: a cooperative
// controlled scheduler (exactly one thread runs at a time; every hooked sync operation is a
// scheduling point) plus a depth-first explorer with iterative preemption / deviation
// bounding.  It is injected into the repository module as a virtual package through
// `go build -overlay`; the repository's "sync" import is redirected to vsync, whose
// operations call Point.
package vsched

import (
	"fmt"
	"os"
	"runtime/debug"
	"strings"
	"sync"
	"time"
	"unsafe"
)

type Kind uint8

const (
	KStart Kind = iota
	KLock
	KUnlock
	KRLock
	KRUnlock
	KGet
	KPut
	KOnce     // Once.Do entry
	KOnceDone // Once.Do's f returned
	KYield
	KTryLock
	KTryRLock
	KEnd
	KLockWait // trace only: Lock found readers, announced itself (new readers now block) and waits for them to drain
	KSpawn    // a go statement of the code under test (rewritten by the build overlay to vsched.Go)
	KWGAdd    // WaitGroup.Add / Done (val: *int64 counter, already updated by the caller)
	KWGWait   // WaitGroup.Wait: enabled once the counter (val: *int64) is zero
)

var kindNames = [...]string{"Start", "Lock", "Unlock", "RLock", "RUnlock", "Get", "Put", "Once", "OnceDone", "Yield", "TryLock", "TryRLock", "End", "LockWait", "Spawn", "WGAdd", "WGWait"}

func (k Kind) String() string { return kindNames[k] }

// Answer is what the explorer tells a thread when it resumes it.
type Answer struct {
	New   bool        // Pool.Get: call New
	Obj   interface{} // Pool.Get: recycled object
	RunF  bool        // Once.Do: this caller runs f
	OK    bool        // TryLock / TryRLock result
	Abort bool        // execution abandoned (deadlock / violation): the thread must park forever
}

type request struct {
	kind  Kind
	obj   uintptr
	val   interface{}
	reply chan Answer
	pan   string // KEnd: recovered panic text ("" = none)
	site  string
}

var (
	active bool
	reqCh  = make(chan request)
	clock  int64
)

//go:norace
func isActive() bool { return active }

//go:norace
func setActive(b bool) { active = b }

// Active reports whether an exploration is running (the shim delegates to the real primitives otherwise).
func Active() bool { return isActive() }

// Tick returns a fresh logical timestamp (only meaningful while exactly one thread runs).
//
//go:norace
func Tick() int64 { clock++; return clock }

//go:norace
func resetClock() { clock = 0 }

// Point is called by the sync shim before every hooked operation.
func Point(kind Kind, obj uintptr, val interface{}) Answer {
	raceDisable()
	reply := make(chan Answer)
	reqCh <- request{kind: kind, obj: obj, val: val, reply: reply}
	a := <-reply
	raceEnable()
	if a.Abort {
		select {} // abandoned execution: park forever
	}
	return a
}

//go:norace
func wgZero(p *int64) bool { return *p <= 0 }

// Go replaces a go statement of the code under test (cmd/mkoverlay rewrites `go f(x)` to a call of Go). Outside an
// exploration it is a plain go statement; inside, the new goroutine becomes a thread of the controlled scheduler: the
// spawn is a scheduling point of the spawning thread and the new thread first stops at its own start point.
func Go(body func()) {
	if !isActive() {
		// started outside an exploration (set-up, warm-up, checks at quiescence): a real goroutine, joined before the
		// next execution starts so that it cannot issue hooked operations in the middle of it
		outside.Add(1)
		go func() {
			defer outside.Done()
			body()
		}()
		return
	}
	tok := new(byte)
	RaceRelease(unsafe.Pointer(tok)) // what the spawner did so far happens before the new thread
	Point(KSpawn, 0, spawnReq{body, tok})
}

var outside sync.WaitGroup

// joinOutside waits (bounded) for goroutines the code under test started while no exploration was active.
func joinOutside() {
	done := make(chan struct{})
	go func() { outside.Wait(); close(done) }()
	select {
	case <-done:
	case <-time.After(20 * time.Second):
		os.Stderr.WriteString("HARNESS-ERROR: a goroutine started by the code under test outside an exploration did not finish within 20 s\n")
		os.Exit(3)
	}
}

type spawnReq struct {
	body func()
	tok  *byte
}

// Yield is an explicit scheduling point with no effect (used by harnesses between operations).
func Yield() {
	if isActive() {
		Point(KYield, 0, nil)
	}
}

// ---------------------------------------------------------------------------------------------

type thread struct {
	id      int
	pending request
	hasPend bool
	done    bool
	pan     string
	site    string
	tok     byte
}

// rw models sync.RWMutex (and Mutex, which never has readers) including writer preference: a Lock that finds readers
// announces itself (pend) and from then on new RLock calls block until that writer has come and gone - which is what
// makes a recursive read lock deadlock-prone in Go.
type rw struct {
	writer  int // -1 none
	pend    int // writer that announced itself and waits for the readers to drain, -1 none
	readers map[int]int
}

type onceSt struct {
	done    bool
	running int // thread id running f, -1 none
}

// Step is one executed scheduling decision.
type Step struct {
	Tid  int
	Kind Kind
	Obj  int // small index of the object in order of first appearance
	Alt  int // answer alternative for Get (0 = default)
}

func (s Step) String() string {
	if s.Kind == KGet && s.Alt != 0 {
		return fmt.Sprintf("T%d.%s#%d/alt%d", s.Tid, s.Kind, s.Obj, s.Alt)
	}
	return fmt.Sprintf("T%d.%s#%d", s.Tid, s.Kind, s.Obj)
}

// ChoicePoint is one choice point of an execution.
type ChoicePoint struct {
	N         int // number of alternatives
	CostAlt   int // cost of taking a non-zero alternative (1 if it is a preemption/deviation, 0 if free)
	CostSoFar int
}

// Exec is one complete execution.
type Exec struct {
	Choices   []int
	Points    []ChoicePoint
	Trace     []Step
	Deadlock  bool
	Blocked   []string // description of blocked threads on deadlock
	Panics    []string // per thread ("" none)
	Sites     []string
	Misuse    string // e.g. unlock of unlocked mutex
	Hang      bool
	Cost      int // preemptions + deviations taken
	CrossPool int // Get answers that returned an object last Put by another thread
}

func (x *Exec) TraceString() string {
	var p []string
	for _, s := range x.Trace {
		p = append(p, s.String())
	}
	return strings.Join(p, " ")
}

// Options configure an exploration.
type Options struct {
	Bound       int  // max preemptions+deviations; <0 = unbounded
	PoolChoices bool // explore Pool.Get answers (recycled top / other / New) as deviations
	MaxExecs    int64
	Deadline    time.Time
	StopAtFirst bool // stop exploring after the first execution for which Check returned false
	HangTimeout time.Duration
}

// Result summarises an exploration.
type Result struct {
	Execs     int64
	Steps     int64
	MaxCost   int
	Capped    bool
	Diverged  string // non-empty: replay divergence (hard error)
	ChoicePts int64
}

// Explorer runs bodies under all schedules.
type Explorer struct {
	Opt Options
	// Setup is run (scheduler inactive) before each execution and returns the thread bodies.
	Setup func() []func()
	// Check is called after each complete execution (scheduler inactive); return false to flag it.
	Check func(x *Exec) bool
	// Remote, if set, replaces run+Check: it executes exactly the schedule "prefix, then default choices" somewhere
	// else (a fresh process, so that process-global state of the code under test cannot survive from one execution to
	// the next) and returns the execution and the verdict of its Check; nil means it could not be run.
	Remote func(prefix []int) (*Exec, bool)
	res    Result
	stop   bool
}

// run executes one schedule: replays prefix, then default choices.
func (e *Explorer) run(prefix []int) *Exec {
	bodies := e.Setup()
	x := &Exec{}
	n := len(bodies)
	threads := make([]*thread, n)
	locks := map[uintptr]*rw{}
	pools := map[uintptr][]poolItem{}
	onces := map[uintptr]*onceSt{}
	objIdx := map[uintptr]int{}
	oidx := func(o uintptr) int {
		if o == 0 {
			return 0
		}
		if i, ok := objIdx[o]; ok {
			return i
		}
		objIdx[o] = len(objIdx) + 1
		return len(objIdx)
	}
	hang := e.Opt.HangTimeout
	if hang == 0 {
		hang = 60 * time.Second
	}
	timer := time.NewTimer(hang)
	defer timer.Stop()
	recv := func() (request, bool) {
		raceDisable()
		defer raceEnable()
		select {
		case r := <-reqCh:
			return r, true
		default:
		}
		timer.Reset(hang)
		select {
		case r := <-reqCh:
			return r, true
		case <-timer.C:
			return request{}, false
		}
	}
	resetClock()
	joinOutside()
	setActive(true)
	var launchErr bool
	launch := func(i int, body func(), startTok *byte) *thread {
		t := &thread{id: i}
		go func() {
			Point(KStart, 0, nil)
			if startTok != nil {
				RaceAcquire(unsafe.Pointer(startTok))
			}
			pan, site := "", ""
			func() {
				defer func() {
					if r := recover(); r != nil {
						pan = fmt.Sprint(r)
						site = panicSite(string(debug.Stack()))
					}
				}()
				body()
			}()
			RaceRelease(unsafe.Pointer(&t.tok))
			raceDisable()
			reqCh <- request{kind: KEnd, pan: pan, site: site}
			raceEnable()
		}()
		r, ok := recv()
		if !ok {
			launchErr = true
			return t
		}
		t.pending, t.hasPend = r, true
		return t
	}
	for i := 0; i < n; i++ {
		threads[i] = launch(i, bodies[i], nil)
		if launchErr {
			x.Hang = true
			setActive(false)
			return x
		}
	}

	enabledOp := func(t *thread) bool {
		r := &t.pending
		switch r.kind {
		case KLock:
			l := locks[r.obj]
			if l == nil {
				return true
			}
			if l.writer >= 0 {
				return false
			}
			if l.pend >= 0 { // writers queue behind the announced one
				return l.pend == t.id && len(l.readers) == 0
			}
			return true // acquires, or announces itself when there are readers
		case KRLock:
			l := locks[r.obj]
			return l == nil || (l.writer < 0 && l.pend < 0)
		case KOnce:
			o := onces[r.obj]
			return o == nil || o.done || o.running < 0
		case KWGWait:
			if p, ok := r.val.(*int64); ok {
				return wgZero(p)
			}
		}
		return true
	}
	getLock := func(o uintptr) *rw {
		l := locks[o]
		if l == nil {
			l = &rw{writer: -1, pend: -1, readers: map[int]int{}}
			locks[o] = l
		}
		return l
	}

	running := -1
	cost := 0
	pi := 0 // index into prefix / choices
	choose := func(nAlt int, costAlt int) int {
		c := 0
		if pi < len(prefix) {
			c = prefix[pi]
			if c < 0 || c >= nAlt {
				e.res.Diverged = fmt.Sprintf("replay divergence at choice %d: prefix wants %d, only %d alternatives (trace %s)", pi, c, nAlt, x.TraceString())
				c = 0
			}
		}
		x.Points = append(x.Points, ChoicePoint{N: nAlt, CostAlt: costAlt, CostSoFar: cost})
		x.Choices = append(x.Choices, c)
		pi++
		if c != 0 {
			cost += costAlt
		}
		return c
	}
	enabled := make([]*thread, 0, n)
	for {
		enabled = enabled[:0]
		runningEnabled := false
		if running >= 0 && !threads[running].done && enabledOp(threads[running]) {
			enabled = append(enabled, threads[running])
			runningEnabled = true
		}
		alive := 0
		for _, t := range threads {
			if t.done {
				continue
			}
			alive++
			if t.id == running && runningEnabled {
				continue
			}
			if enabledOp(t) {
				enabled = append(enabled, t)
			}
		}
		if alive == 0 {
			break
		}
		if len(enabled) == 0 {
			x.Deadlock = true
			for _, t := range threads {
				if !t.done {
					x.Blocked = append(x.Blocked, fmt.Sprintf("T%d blocked at %s#%d", t.id, t.pending.kind, oidx(t.pending.obj)))
				}
			}
			break
		}
		var t *thread
		if len(enabled) == 1 {
			t = enabled[0]
		} else if k := enabled[0].pending.kind; runningEnabled && (k == KUnlock || k == KRUnlock || k == KOnceDone) {
			// A release is never preempted: delaying it only keeps others blocked, so every behaviour of the other
			// threads reachable with the release delayed is also reachable with it performed first.
			t = enabled[0]
		} else {
			ca := 0
			if runningEnabled {
				ca = 1
			}
			t = enabled[choose(len(enabled), ca)]
		}
		running = t.id
		r := t.pending
		ans := Answer{}
		st := Step{Tid: t.id, Kind: r.kind, Obj: oidx(r.obj)}
		switch r.kind {
		case KLock:
			l := getLock(r.obj)
			if len(l.readers) > 0 {
				// not acquired: the thread stays at this operation, but readers arriving from now on block
				l.pend = t.id
				st.Kind = KLockWait
				x.Trace = append(x.Trace, st)
				e.res.Steps++
				continue
			}
			l.writer, l.pend = t.id, -1
		case KUnlock:
			l := getLock(r.obj)
			if l.writer != t.id {
				x.Misuse = fmt.Sprintf("T%d: Unlock of a mutex it does not hold (obj#%d)", t.id, oidx(r.obj))
			}
			l.writer = -1
		case KRLock:
			getLock(r.obj).readers[t.id]++
		case KTryLock:
			if l := getLock(r.obj); l.writer < 0 && l.pend < 0 && len(l.readers) == 0 {
				l.writer = t.id
				ans.OK = true
			}
		case KTryRLock:
			if l := getLock(r.obj); l.writer < 0 && l.pend < 0 {
				l.readers[t.id]++
				ans.OK = true
			}
		case KRUnlock:
			l := getLock(r.obj)
			if l.readers[t.id] == 0 {
				x.Misuse = fmt.Sprintf("T%d: RUnlock without RLock (obj#%d)", t.id, oidx(r.obj))
			} else {
				l.readers[t.id]--
				if l.readers[t.id] == 0 {
					delete(l.readers, t.id)
				}
			}
		case KGet:
			items := pools[r.obj]
			// alternatives: 0 = top of stack (or New when empty), 1..k-1 = other pooled objects, k = New
			alt := 0
			if e.Opt.PoolChoices && len(items) > 0 {
				alt = choose(len(items)+1, 1)
			}
			st.Alt = alt
			if len(items) == 0 || alt == len(items) {
				ans.New = true
			} else {
				idx := len(items) - 1 - alt
				it := items[idx]
				pools[r.obj] = append(items[:idx:idx], items[idx+1:]...)
				ans.Obj = it.v
				if it.by != t.id {
					x.CrossPool++
				}
			}
		case KPut:
			pools[r.obj] = append(pools[r.obj], poolItem{r.val, t.id})
		case KOnce:
			o := onces[r.obj]
			if o == nil {
				o = &onceSt{running: -1}
				onces[r.obj] = o
			}
			if !o.done {
				o.running = t.id
				ans.RunF = true
			}
		case KSpawn:
			sp := r.val.(spawnReq)
			nt := launch(len(threads), sp.body, sp.tok)
			threads = append(threads, nt)
			if launchErr {
				x.Hang = true
			}
		case KOnceDone:
			o := onces[r.obj]
			if o != nil {
				o.done = true
				o.running = -1
			}
		}
		x.Trace = append(x.Trace, st)
		e.res.Steps++
		if x.Hang { // a spawned thread did not reach its start point
			break
		}
		if r.reply == nil {
			fmt.Fprintf(os.Stderr, "HARNESS-ERROR: scheduler picked T%d without a pending request (kind=%v done=%v hasPend=%v); trace %s\n", t.id, r.kind, t.done, t.hasPend, x.TraceString())
			os.Exit(3)
		}
		raceDisable()
		r.reply <- ans
		raceEnable()
		nr, got := recv()
		if !got {
			x.Hang = true
			t.hasPend = false
			break
		}
		if nr.kind == KEnd {
			t.done = true
			t.pan, t.site = nr.pan, nr.site
			t.hasPend = false
		} else {
			t.pending = nr
		}
	}
	setActive(false)
	if x.Deadlock || x.Hang {
		// abandon the blocked threads: tell them to park forever
		for _, t := range threads {
			if !t.done && t.hasPend {
				raceDisable()
				select {
				case t.pending.reply <- Answer{Abort: true}:
				default:
					go func(ch chan Answer) { ch <- Answer{Abort: true} }(t.pending.reply)
				}
				raceEnable()
			}
		}
	}
	for _, t := range threads {
		if t.done {
			RaceAcquire(unsafe.Pointer(&t.tok))
		}
		x.Panics = append(x.Panics, t.pan)
		x.Sites = append(x.Sites, t.site)
	}
	x.Cost = cost
	return x
}

type poolItem struct {
	v  interface{}
	by int
}

// Explore enumerates all executions within the bound, depth-first.
func (e *Explorer) Explore() Result {
	e.res = Result{}
	e.stop = false
	e.explore(nil)
	return e.res
}

func (e *Explorer) explore(prefix []int) {
	if e.stop {
		return
	}
	if e.Opt.MaxExecs > 0 && e.res.Execs >= e.Opt.MaxExecs {
		e.res.Capped = true
		e.stop = true
		return
	}
	if !e.Opt.Deadline.IsZero() && e.res.Execs&63 == 0 && time.Now().After(e.Opt.Deadline) {
		e.res.Capped = true
		e.stop = true
		return
	}
	var x *Exec
	var ok bool
	if e.Remote != nil {
		x, ok = e.Remote(prefix)
		if x == nil {
			// (nil, false): no budget left - stop; (nil, true): this one schedule could not be replayed - skip it
			e.res.Capped = true
			if !ok {
				e.stop = true
			}
			return
		}
		e.res.Execs++
		e.res.Steps += int64(len(x.Trace))
	} else {
		x = e.run(prefix)
		e.res.Execs++
		if e.res.Diverged != "" {
			e.stop = true
			return
		}
		ok = e.Check(x)
	}
	if x.Cost > e.res.MaxCost {
		e.res.MaxCost = x.Cost
	}
	if !ok && e.Opt.StopAtFirst {
		e.stop = true
		return
	}
	for i := len(prefix); i < len(x.Points); i++ {
		p := x.Points[i]
		e.res.ChoicePts++
		if e.Opt.Bound >= 0 && p.CostSoFar+p.CostAlt > e.Opt.Bound {
			continue
		}
		for alt := 1; alt < p.N; alt++ {
			np := make([]int, i+1)
			copy(np, x.Choices[:i])
			np[i] = alt
			e.explore(np)
			if e.stop {
				return
			}
		}
	}
}

// Replay runs exactly one schedule (choices beyond the list default to 0).
func (e *Explorer) Replay(choices []int) *Exec {
	e.res = Result{}
	return e.run(choices)
}

// Diverged reports a replay divergence of the last Replay/Explore.
func (e *Explorer) Diverged() string { return e.res.Diverged }

func panicSite(stack string) string {
	lines := strings.Split(stack, "\n")
	seenPanic := false
	for _, l := range lines {
		if strings.HasPrefix(l, "panic(") {
			seenPanic = true
			continue
		}
		if !seenPanic {
			continue
		}
		if strings.HasPrefix(l, "gitee.com/xuesongtao/protoc-go-valid/") && !strings.Contains(l, "/verifshim/") {
			fn := strings.TrimPrefix(l, "gitee.com/xuesongtao/protoc-go-valid/")
			if k := strings.LastIndex(fn, "("); k > 0 {
				fn = fn[:k]
			}
			return fn
		}
	}
	return "unknown"
}
