//go:build !race

package vsched

import "unsafe"

const RaceEnabled = false

func raceDisable()                      {}
func raceEnable()                       {}
func RaceAcquire(p unsafe.Pointer)      {}
func RaceRelease(p unsafe.Pointer)      {}
func RaceReleaseMerge(p unsafe.Pointer) {}
