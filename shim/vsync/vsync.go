// Package vsync replaces "sync" inside the repository under test (import rewritten by
// cmd/mkoverlay).  While an exploration is active every operation is a scheduling point of
// vsched and the happens-before edges of the real primitive are re-created for the race
// detector; otherwise the embedded real primitive is used.
package vsync

import (
	"sync"
	"unsafe"

	"gitee.com/xuesongtao/protoc-go-valid/verifshim/vsched"
)

type (
	Locker = sync.Locker
	Cond   = sync.Cond
)

// WaitGroup: while an exploration is active the counter is modelled (Add/Done are scheduling points, Wait is a
// blocking point that becomes enabled when the counter reaches zero); otherwise the real WaitGroup is used. A wait
// group is used either inside or outside an exploration, not across its start.
type WaitGroup struct {
	real sync.WaitGroup
	n    int64 // modelled counter (only touched by the one running thread)
	tok  byte
}

func (w *WaitGroup) Add(d int) {
	if !vsched.Active() {
		w.real.Add(d)
		return
	}
	w.n += int64(d)
	if d < 0 {
		vsched.RaceRelease(unsafe.Pointer(&w.tok))
	}
	vsched.Point(vsched.KWGAdd, uintptr(unsafe.Pointer(w)), &w.n)
}

func (w *WaitGroup) Done() { w.Add(-1) }

func (w *WaitGroup) Wait() {
	if !vsched.Active() {
		w.real.Wait()
		return
	}
	vsched.Point(vsched.KWGWait, uintptr(unsafe.Pointer(w)), &w.n)
	vsched.RaceAcquire(unsafe.Pointer(&w.tok))
}

// Map is sync.Map with a scheduling point (an always-enabled yield) before every operation, so that interleavings
// between two users of a lock-free map are explored; the real operations keep the race detector's view intact.
type Map struct{ m sync.Map }

func (m *Map) Load(k interface{}) (interface{}, bool) { vsched.Yield(); return m.m.Load(k) }
func (m *Map) Store(k, v interface{})                 { vsched.Yield(); m.m.Store(k, v) }
func (m *Map) LoadOrStore(k, v interface{}) (interface{}, bool) {
	vsched.Yield()
	return m.m.LoadOrStore(k, v)
}
func (m *Map) LoadAndDelete(k interface{}) (interface{}, bool) {
	vsched.Yield()
	return m.m.LoadAndDelete(k)
}
func (m *Map) Delete(k interface{})                      { vsched.Yield(); m.m.Delete(k) }
func (m *Map) Swap(k, v interface{}) (interface{}, bool) { vsched.Yield(); return m.m.Swap(k, v) }
func (m *Map) CompareAndSwap(k, old, new interface{}) bool {
	vsched.Yield()
	return m.m.CompareAndSwap(k, old, new)
}
func (m *Map) CompareAndDelete(k, old interface{}) bool {
	vsched.Yield()
	return m.m.CompareAndDelete(k, old)
}
func (m *Map) Range(f func(k, v interface{}) bool) { vsched.Yield(); m.m.Range(f) }
func (m *Map) Clear()                              { vsched.Yield(); m.m.Clear() }

func NewCond(l Locker) *Cond { return sync.NewCond(l) }

func OnceFunc(f func()) func() { var o Once; return func() { o.Do(f) } }

// Mutex ---------------------------------------------------------------------------------------

type Mutex struct {
	real sync.Mutex
	tok  byte
}

func (m *Mutex) Lock() {
	if !vsched.Active() {
		m.real.Lock()
		return
	}
	vsched.Point(vsched.KLock, uintptr(unsafe.Pointer(m)), nil)
	vsched.RaceAcquire(unsafe.Pointer(&m.tok))
}

func (m *Mutex) Unlock() {
	if !vsched.Active() {
		m.real.Unlock()
		return
	}
	vsched.RaceRelease(unsafe.Pointer(&m.tok))
	vsched.Point(vsched.KUnlock, uintptr(unsafe.Pointer(m)), nil)
}

func (m *Mutex) TryLock() bool {
	if !vsched.Active() {
		return m.real.TryLock()
	}
	a := vsched.Point(vsched.KTryLock, uintptr(unsafe.Pointer(m)), nil)
	if a.OK {
		vsched.RaceAcquire(unsafe.Pointer(&m.tok))
	}
	return a.OK
}

// RWMutex -------------------------------------------------------------------------------------

type RWMutex struct {
	real sync.RWMutex
	rtok byte // readerSem analogue
	wtok byte // writerSem analogue
}

func (m *RWMutex) Lock() {
	if !vsched.Active() {
		m.real.Lock()
		return
	}
	vsched.Point(vsched.KLock, uintptr(unsafe.Pointer(m)), nil)
	vsched.RaceAcquire(unsafe.Pointer(&m.rtok))
	vsched.RaceAcquire(unsafe.Pointer(&m.wtok))
}

func (m *RWMutex) Unlock() {
	if !vsched.Active() {
		m.real.Unlock()
		return
	}
	vsched.RaceRelease(unsafe.Pointer(&m.rtok))
	vsched.Point(vsched.KUnlock, uintptr(unsafe.Pointer(m)), nil)
}

func (m *RWMutex) TryLock() bool {
	if !vsched.Active() {
		return m.real.TryLock()
	}
	a := vsched.Point(vsched.KTryLock, uintptr(unsafe.Pointer(m)), nil)
	if a.OK {
		vsched.RaceAcquire(unsafe.Pointer(&m.rtok))
		vsched.RaceAcquire(unsafe.Pointer(&m.wtok))
	}
	return a.OK
}

func (m *RWMutex) RLock() {
	if !vsched.Active() {
		m.real.RLock()
		return
	}
	vsched.Point(vsched.KRLock, uintptr(unsafe.Pointer(m)), nil)
	vsched.RaceAcquire(unsafe.Pointer(&m.rtok))
}

func (m *RWMutex) TryRLock() bool {
	if !vsched.Active() {
		return m.real.TryRLock()
	}
	a := vsched.Point(vsched.KTryRLock, uintptr(unsafe.Pointer(m)), nil)
	if a.OK {
		vsched.RaceAcquire(unsafe.Pointer(&m.rtok))
	}
	return a.OK
}

func (m *RWMutex) RUnlock() {
	if !vsched.Active() {
		m.real.RUnlock()
		return
	}
	vsched.RaceReleaseMerge(unsafe.Pointer(&m.wtok))
	vsched.Point(vsched.KRUnlock, uintptr(unsafe.Pointer(m)), nil)
}

func (m *RWMutex) RLocker() Locker { return (*rlocker)(m) }

type rlocker RWMutex

func (r *rlocker) Lock()   { (*RWMutex)(r).RLock() }
func (r *rlocker) Unlock() { (*RWMutex)(r).RUnlock() }

// Pool ----------------------------------------------------------------------------------------

type Pool struct {
	real sync.Pool
	init sync.Once
	New  func() interface{}
}

// token used for the Put -> Get happens-before edge of one pooled object
func tokOf(x interface{}) unsafe.Pointer {
	// data word of the interface (pointer-shaped values as stored in pools)
	return (*[2]unsafe.Pointer)(unsafe.Pointer(&x))[1]
}

func (p *Pool) Get() interface{} {
	if !vsched.Active() {
		p.init.Do(func() { p.real.New = p.New })
		return p.real.Get()
	}
	a := vsched.Point(vsched.KGet, uintptr(unsafe.Pointer(p)), nil)
	if a.New {
		if p.New == nil {
			return nil
		}
		return p.New()
	}
	if t := tokOf(a.Obj); t != nil {
		vsched.RaceAcquire(t)
	}
	return a.Obj
}

func (p *Pool) Put(x interface{}) {
	if x == nil {
		return
	}
	if !vsched.Active() {
		p.real.Put(x)
		return
	}
	// The object is in the pool from the moment the explorer schedules this operation; until then this thread may be
	// parked here while others run, and what it wrote to x is not yet published: the release edge is created after
	// the point (nothing else runs between the point's return and the release). Releasing before the point would hide,
	// from the race detector, another thread that holds the same object because it was put twice.
	vsched.Point(vsched.KPut, uintptr(unsafe.Pointer(p)), x)
	if t := tokOf(x); t != nil {
		vsched.RaceReleaseMerge(t)
	}
}

// Once ----------------------------------------------------------------------------------------

type Once struct {
	real sync.Once
	tok  byte
}

func (o *Once) Do(f func()) {
	if !vsched.Active() {
		o.real.Do(f)
		return
	}
	a := vsched.Point(vsched.KOnce, uintptr(unsafe.Pointer(o)), nil)
	if a.RunF {
		defer func() {
			vsched.RaceRelease(unsafe.Pointer(&o.tok))
			vsched.Point(vsched.KOnceDone, uintptr(unsafe.Pointer(o)), nil)
		}()
		// the real Once is marked done as well, so inactive-mode callers agree
		o.real.Do(f)
		return
	}
	vsched.RaceAcquire(unsafe.Pointer(&o.tok))
}
