module verif

go 1.23

require (
	gitee.com/xuesongtao/protoc-go-valid v0.0.0
	github.com/anishathalye/porcupine v1.3.0
)

replace gitee.com/xuesongtao/protoc-go-valid => /repo
