// Package enum provides deterministic enumerators (nothing is drawn at random).
package enum

// Strings calls emit for every string of length 1..maxLen over the alphabet (shortest first).
func Strings(alpha []string, maxLen int, emit func(string)) {
	var rec func(prefix string, left int)
	for n := 1; n <= maxLen; n++ {
		rec = func(prefix string, left int) {
			if left == 0 {
				emit(prefix)
				return
			}
			for _, a := range alpha {
				rec(prefix+a, left-1)
			}
		}
		rec("", n)
	}
}

// Edits1 calls emit for the seed and every string at edit distance one from it: all single
// deletions, substitutions and insertions over the alphabet (rune-wise).
func Edits1(seed string, alpha []string, emit func(string)) {
	r := []rune(seed)
	emit(seed)
	for i := range r {
		emit(string(r[:i]) + string(r[i+1:]))
	}
	for i := range r {
		for _, a := range alpha {
			if a != string(r[i]) {
				emit(string(r[:i]) + a + string(r[i+1:]))
			}
		}
	}
	for i := 0; i <= len(r); i++ {
		for _, a := range alpha {
			emit(string(r[:i]) + a + string(r[i:]))
		}
	}
}

// EditAlphabet is the 40-symbol alphabet used for one-edit neighbourhoods: digits, letters, CJK,
// punctuation, separators, both quotes, NUL/TAB/LF.
var EditAlphabet = []string{"0", "1", "2", "5", "9", "a", "b", "x", "X", "f", "e", "z", "中", "文",
	".", ",", "-", "+", "_", "@", "/", ":", ";", " ", "(", ")", "[", "]", "{", "}", "\"", "'", "`", "\\", "|", "~", "=",
	"\x00", "\t", "\n"}

// Seqs calls emit for every sequence of length exactly n over [0,k).
func Seqs(k, n int, emit func([]int)) {
	seq := make([]int, n)
	var rec func(i int)
	rec = func(i int) {
		if i == n {
			emit(seq)
			return
		}
		for v := 0; v < k; v++ {
			seq[i] = v
			rec(i + 1)
		}
	}
	rec(0)
}
