// Package lrumodel is the boring reference model of a bounded LRU map.
package lrumodel

import (
	"fmt"
	"strings"
)

type Entry struct {
	K string
	V interface{}
}

type CB struct {
	K string
	V interface{}
}

// LRU keeps entries most-recent-first.
type LRU struct {
	Cap  int
	E    []Entry
	Log  []CB     // removal callbacks in order
	Fifo []string // insertion order of live keys (oldest first), for the non-triviality rule
	// LastEvictDiffers is set when the last eviction's victim differed from the FIFO victim.
	EvictDiffered bool
}

func New(c int) *LRU { return &LRU{Cap: c} }

func (l *LRU) Clone() *LRU {
	n := &LRU{Cap: l.Cap, EvictDiffered: l.EvictDiffered}
	n.E = append([]Entry(nil), l.E...)
	n.Log = append([]CB(nil), l.Log...)
	n.Fifo = append([]string(nil), l.Fifo...)
	return n
}

func (l *LRU) find(k string) int {
	for i, e := range l.E {
		if e.K == k {
			return i
		}
	}
	return -1
}

func (l *LRU) toFront(i int) {
	e := l.E[i]
	copy(l.E[1:i+1], l.E[:i])
	l.E[0] = e
}

func (l *LRU) fifoRemove(k string) {
	for i, x := range l.Fifo {
		if x == k {
			l.Fifo = append(l.Fifo[:i:i], l.Fifo[i+1:]...)
			return
		}
	}
}

func (l *LRU) Store(k string, v interface{}) {
	if i := l.find(k); i >= 0 {
		l.E[i].V = v
		l.toFront(i)
		return
	}
	l.E = append([]Entry{{k, v}}, l.E...)
	l.Fifo = append(l.Fifo, k)
	if len(l.E) > l.Cap {
		vic := l.E[len(l.E)-1]
		if len(l.Fifo) > 0 && l.Fifo[0] != vic.K {
			l.EvictDiffered = true
		}
		l.E = l.E[:len(l.E)-1]
		l.fifoRemove(vic.K)
		l.Log = append(l.Log, CB{vic.K, vic.V})
	}
}

func (l *LRU) Load(k string) (interface{}, bool) {
	i := l.find(k)
	if i < 0 {
		return nil, false
	}
	v := l.E[i].V
	l.toFront(i)
	return v, true
}

func (l *LRU) Delete(k string) {
	i := l.find(k)
	if i < 0 {
		return
	}
	e := l.E[i]
	l.E = append(l.E[:i:i], l.E[i+1:]...)
	l.fifoRemove(k)
	l.Log = append(l.Log, CB{e.K, e.V})
}

func (l *LRU) Len() int { return len(l.E) }

// Dump mirrors the documented dump format: values most-recent-first joined by newlines.
func (l *LRU) Dump() string {
	var p []string
	for _, e := range l.E {
		p = append(p, fmt.Sprint(e.V))
	}
	return strings.Join(p, "\n")
}

// Key is the canonical state (keys in recency order; values abstracted).
func (l *LRU) Key() string {
	var b strings.Builder
	for _, e := range l.E {
		b.WriteString(e.K)
		b.WriteByte(',')
	}
	return b.String()
}
