// Package walk is the reference model of struct validation as the properties state it (C02, C04, C16, C17):
// rule-list splitting, field order, zero-skip, required emptiness, descent through struct / pointers / slice /
// array / map under required/exist, path naming, unexported and time.Time exclusion, rule-set selection (typed, else
// unscoped for the outermost struct), function resolution (call -> global -> built-in -> unknown clause), and
// either/botheq groups judged per object.  Output: the expected clauses as exact strings.
package walk

import (
	"fmt"
	"reflect"
	"sort"
	"strconv"
	"strings"
	"time"

	"verif/internal/lang"
)

var timeType = reflect.TypeOf(time.Time{})

// Fn is a user function known to the model: it yields the clause text it writes (or "" for no clause).
type Fn func(rule, objName, fieldName string, v reflect.Value) string

type Opts struct {
	Tag       string                             // "" = "valid"
	Typed     map[reflect.Type]map[string]string // rule sets registered for a struct type (pointer-free type)
	Unscoped  map[string]string                  // rule set without a type (nil = absent)
	CallFns   map[string]Fn                      // per-call functions
	GlobalFns map[string]Fn                      // globally registered functions (override built-ins of the same name)
}

// Result of the model.
type Result struct {
	Fields    []string // field clauses in order
	Groups    []string // group clauses (unordered among themselves)
	Unordered bool     // a Go map was iterated: Fields must be compared as a multiset
	Whole     string   // non-empty: the call returns this whole error without validating (entry-point error)
}

// Error renders the expected error string ("" = nil) when the order is fully determined.
func (r Result) Error() string {
	if r.Whole != "" {
		return r.Whole
	}
	all := append(append([]string{}, r.Fields...), r.Groups...)
	return strings.Join(all, "; ")
}

func (r Result) Multiset() []string {
	all := append(append([]string{}, r.Fields...), r.Groups...)
	sort.Strings(all)
	return all
}

type member struct {
	obj, field string
	v          reflect.Value
}

type group struct {
	obj, rule string
	id        int // the object (one visit of one struct value) the group belongs to: two objects whose paths print the same are still two
	members   []member
}

type walker struct {
	o      Opts
	res    Result
	objSeq int // objects visited so far
	curObj int // the object being walked
	groups []*group
}

func deref(v reflect.Value) reflect.Value {
	for v.Kind() == reflect.Ptr {
		if v.IsNil() {
			return v
		}
		v = v.Elem()
	}
	return v
}

func derefType(t reflect.Type) reflect.Type {
	for t.Kind() == reflect.Ptr {
		t = t.Elem()
	}
	return t
}

// Struct is the model of Struct / StructForFn(s) / ValidateStruct / NestedStructForRule on src.
func Struct(src interface{}, o Opts) Result {
	w := &walker{o: o}
	if o.Tag == "" {
		w.o.Tag = "valid"
	}
	if src == nil {
		return Result{Whole: "src is nil"}
	}
	v := deref(reflect.ValueOf(src))
	switch v.Kind() {
	case reflect.Ptr: // nil pointer
		return Result{Whole: `src "` + v.Type().String() + `" is nil`}
	case reflect.Slice, reflect.Array:
		name := ""
		for i := 0; i < v.Len(); i++ {
			if i == 0 {
				name = v.Index(i).Type().String()
			}
			w.validate(name+"["+strconv.Itoa(i)+"]", v.Index(i), true, false)
		}
	case reflect.Map:
		w.res.Unordered = v.Len() > 1
		for it := v.MapRange(); it.Next(); { // entries, not key look-ups: a NaN key cannot be found again
			k := it.Key()
			w.validate("map["+toStr(k)+"]", it.Value(), true, false)
		}
	default:
		w.validate("", v, false, true)
	}
	w.finishGroups()
	return w.res
}

func toStr(v reflect.Value) string {
	switch v.Kind() {
	case reflect.String:
		return v.String()
	case reflect.Int, reflect.Int8, reflect.Int16, reflect.Int32, reflect.Int64:
		return strconv.FormatInt(v.Int(), 10)
	case reflect.Uint, reflect.Uint8, reflect.Uint16, reflect.Uint32, reflect.Uint64:
		return strconv.FormatUint(v.Uint(), 10)
	case reflect.Float32:
		return strconv.FormatFloat(v.Float(), 'f', -1, 32)
	case reflect.Float64:
		return strconv.FormatFloat(v.Float(), 'f', -1, 64)
	case reflect.Bool:
		return strconv.FormatBool(v.Bool())
	}
	if v.CanInterface() {
		return fmt.Sprintf("%v", v.Interface())
	}
	return fmt.Sprintf("%v", v)
}

func pathOf(obj, field string) string {
	if obj != "" && field != "" {
		return `"` + obj + "." + field + `" `
	}
	if obj == "" && field != "" {
		return `"` + field + `" `
	}
	return ""
}

// ValueClause renders: ["P" ]input "V"[, L text]
func ValueClause(obj, field, input, text string) string {
	s := pathOf(obj, field) + `input "` + input + `"`
	if text == "" {
		return s
	}
	if !strings.Contains(text, "explain:") && !strings.Contains(text, "说明:") {
		text = "explain: " + text
	}
	return s + ", " + text
}

// ConfigClause renders: ["obj.field" ]text   (the path needs both parts)
func ConfigClause(obj, field, text string) string {
	if obj != "" && field != "" {
		return `"` + obj + "." + field + `" ` + text
	}
	return text
}

func isZh(s string) bool {
	for _, r := range s {
		if r >= 0x4e00 && r <= 0x9fa5 {
			return true
		}
	}
	return false
}

// ParseRule splits one rule item into key, value and labelled message.
func ParseRule(item string) (key, value, msg string) {
	bar := strings.Index(item, "|")
	eq := strings.Index(item, "=")
	if bar >= 0 && eq > bar {
		eq = -1
	}
	head := item
	if eq >= 0 {
		key = item[:eq]
		head = item[eq+1:]
	}
	m := ""
	if b := strings.Index(head, "|"); b >= 0 && b+1 < len(head) {
		m = head[b+1:]
		head = head[:b]
	}
	if eq >= 0 {
		value = head
	} else {
		key = head
	}
	if m != "" {
		if isZh(m) {
			msg = "说明: " + m
		} else {
			msg = "explain: " + m
		}
	}
	return
}

func isEmpty(v reflect.Value) bool {
	switch v.Kind() {
	case reflect.Slice, reflect.Array, reflect.Map:
		if v.Len() == 0 {
			return true
		}
	}
	return v.IsZero()
}

func (w *walker) cus(ty reflect.Type, outermost bool) map[string]string {
	rm := w.o.Typed[ty]
	if outermost && len(rm) == 0 {
		return w.o.Unscoped
	}
	return rm
}

func (w *walker) emit(s string) { w.res.Fields = append(w.res.Fields, s) }

func (w *walker) validate(structName string, value reflect.Value, gather bool, outermost bool) {
	tv := deref(value)
	if !tv.IsValid() || (tv.Kind() == reflect.Ptr) {
		return // nil: nothing to validate
	}
	if tv.Kind() == reflect.Interface {
		// interface-typed elements are not descended into (not part of the properties' alphabets)
		if gather {
			return
		}
	}
	ty := tv.Type()
	if tv.Kind() != reflect.Struct {
		if gather {
			return
		}
		w.emit(ConfigClause(structName, ty.Name(), "is not struct"))
		return
	}
	cus := w.cus(ty, outermost)
	if outermost {
		structName = ty.Name()
	}
	w.objSeq++
	saved := w.curObj
	w.curObj = w.objSeq
	defer func() { w.curObj = saved }()
	for i := 0; i < ty.NumField(); i++ {
		sf := ty.Field(i)
		if sf.Type == timeType || !sf.IsExported() {
			continue
		}
		rules := sf.Tag.Get(w.o.Tag)
		if r := cus[sf.Name]; r != "" {
			rules = r
		}
		if rules == "" {
			continue
		}
		fv := tv.Field(i)
		// a field's sub-objects are validated once, however many of its rules (required, exist, both, either twice) ask for it:
		// every rule instance inside them is one rule instance
		descended := false
		for _, item := range lang.SplitOutsideQuotes(rules, ',') {
			if item == "" {
				continue
			}
			key, val, msg := ParseRule(item)
			if fn, ok := w.o.CallFns[key]; ok {
				w.callFn(fn, item, structName, sf.Name, fv)
				continue
			}
			if fn, ok := w.o.GlobalFns[key]; ok {
				w.callFn(fn, item, structName, sf.Name, fv)
				continue
			}
			switch key {
			case "required":
				if isEmpty(fv) {
					text := "it is required"
					if msg != "" {
						text = msg
					}
					w.emit(ValueClause(structName, sf.Name, "", text))
				} else {
					w.exist(false, structName, sf.Name, msg, fv, descended)
					descended = true
				}
			case "exist":
				w.exist(true, structName, sf.Name, msg, fv, descended)
				descended = true
			case "either", "botheq":
				w.addMember(structName, item, sf.Name, fv)
			default:
				if !Known(key) {
					w.emit(ConfigClause(structName, sf.Name, `valid "`+key+`" is not exist, You can call SetValidFn`))
					continue
				}
				if fv.IsZero() {
					continue
				}
				for _, cl := range EvalRule(key, val, msg, structName, sf.Name, fv) {
					w.emit(cl)
				}
			}
		}
	}
}

func (w *walker) callFn(fn Fn, item, obj, field string, fv reflect.Value) {
	if fn == nil { // nil function registered: behaves like the structural built-ins (nothing to call)
		return
	}
	if fv.IsZero() {
		return
	}
	if t := fn(item, obj, field, fv); t != "" {
		w.emit(t)
	}
}

func (w *walker) exist(isExistRule bool, obj, field, msg string, tv reflect.Value, descended bool) {
	if tv.IsZero() {
		return
	}
	kind := tv.Kind()
	if kind == reflect.Ptr && derefType(tv.Type()).Kind() != reflect.Struct {
		kind = reflect.Invalid
	}
	if descended {
		switch kind {
		case reflect.Ptr, reflect.Struct, reflect.Slice, reflect.Array, reflect.Map:
			return
		}
	}
	switch kind {
	case reflect.Ptr, reflect.Struct:
		if tv.Type() == timeType {
			return
		}
		w.validate(obj+"."+field, tv, false, false)
	case reflect.Slice, reflect.Array:
		for i := 0; i < tv.Len(); i++ {
			w.validate(obj+"."+field+"["+strconv.Itoa(i)+"]", tv.Index(i), true, false)
		}
	case reflect.Map:
		if tv.Len() > 1 {
			w.res.Unordered = true
		}
		for it := tv.MapRange(); it.Next(); {
			k := it.Key()
			w.validate(obj+"."+field+"["+toStr(k)+"]", it.Value(), true, false)
		}
	default:
		if isExistRule {
			text := "it is nonsupport exist"
			if msg != "" {
				text = msg
			}
			w.emit(ValueClause(obj, field, tv.String(), text))
		}
	}
}

func (w *walker) addMember(obj, rule, field string, v reflect.Value) {
	for _, g := range w.groups {
		if g.id == w.curObj && g.rule == rule {
			g.members = append(g.members, member{obj, field, v})
			return
		}
	}
	w.groups = append(w.groups, &group{obj: obj, rule: rule, id: w.curObj, members: []member{{obj, field, v}}})
}

const eitherErr = "valid \"either\" is not ok, eg: type Test struct {\n    OrderNo string `valid:\"either=1\"`\n    TradeNo sting `valid:\"either=1\"`\n}, errMsg: \"OrderNo\" either \"TradeNo\" they shouldn't all be empty"
const bothEqErr = "valid \"botheq\" is not ok, eg: type Test struct {\n    OrderNo string `valid:\"botheq=1\"`\n    TradeNo sting `valid:\"botheq=1\"`\n}, errMsg: \"OrderNo\" either \"TradeNo\" they shouldn't is no equal"

// GroupClauses judges the collected groups, one object at a time.
func GroupClauses(groups []*group) []string {
	var out []string
	for _, g := range groups {
		key, _, _ := ParseRule(g.rule)
		if len(g.members) == 1 {
			m := g.members[0]
			if key == "either" {
				out = append(out, ConfigClause(m.obj, m.field, eitherErr))
			} else {
				out = append(out, ConfigClause(m.obj, m.field, bothEqErr))
			}
			continue
		}
		var names []string
		for _, m := range g.members {
			if m.obj != "" {
				names = append(names, `"`+m.obj+"."+m.field+`"`)
			} else {
				names = append(names, `"`+m.field+`"`)
			}
		}
		list := strings.Join(names, ", ")
		if key == "either" {
			all := true
			for _, m := range g.members {
				if !m.v.IsZero() {
					all = false
				}
			}
			if all {
				out = append(out, list+" explain: they shouldn't all be empty")
			}
		} else {
			eq := true
			first := g.members[0].v.Interface()
			for _, m := range g.members[1:] {
				if !reflect.DeepEqual(first, m.v.Interface()) {
					eq = false
				}
			}
			if !eq {
				out = append(out, list+" explain: they should be equal")
			}
		}
	}
	return out
}

func (w *walker) finishGroups() { w.res.Groups = GroupClauses(w.groups) }

// Known says whether key is a built-in rule of the table.
func Known(key string) bool {
	switch key {
	case "required", "exist", "either", "botheq", "to", "ge", "le", "oto", "gt", "lt", "eq", "noeq", "in", "include", "phone", "email", "idcard", "year", "year2month",
		"date", "datetime", "int", "ints", "float", "re", "ip", "ipv4", "ipv6", "unique", "json", "prefix", "suffix", "file", "dir":
		return true
	}
	return false
}

type measure struct {
	kind byte
	i    int64
	u    uint64
	f    float64
	unit string
	str  string // echoed input for to..lt
}

func measureOf(v reflect.Value) (measure, bool) {
	switch v.Kind() {
	case reflect.String:
		return measure{kind: 'i', i: int64(len([]rune(v.String()))), unit: "str-length", str: v.String()}, true
	case reflect.Int, reflect.Int8, reflect.Int16, reflect.Int32, reflect.Int64:
		return measure{kind: 'i', i: v.Int(), unit: "num-size", str: strconv.FormatInt(v.Int(), 10)}, true
	case reflect.Uint, reflect.Uint8, reflect.Uint16, reflect.Uint32, reflect.Uint64:
		return measure{kind: 'u', u: v.Uint(), unit: "num-size", str: strconv.FormatUint(v.Uint(), 10)}, true
	case reflect.Float32, reflect.Float64:
		return measure{kind: 'f', f: v.Float(), unit: "num-size", str: strconv.FormatFloat(v.Float(), 'f', -1, 64)}, true
	case reflect.Slice:
		return measure{kind: 'i', i: int64(v.Len()), unit: "slice-len", str: strconv.Itoa(v.Len())}, true
	}
	return measure{unit: "num-size"}, false
}

func (m measure) cmp(b int) int {
	switch m.kind {
	case 'i':
		switch {
		case m.i < int64(b):
			return -1
		case m.i > int64(b):
			return 1
		}
		return 0
	case 'u':
		if b < 0 {
			return 1
		}
		switch {
		case m.u < uint64(b):
			return -1
		case m.u > uint64(b):
			return 1
		}
		return 0
	}
	switch {
	case m.f < float64(b):
		return -1
	case m.f > float64(b):
		return 1
	}
	return 0
}

// EvalRule evaluates a table rule of the modelled subset on a non-zero value and returns the expected clauses.
// It panics for rules outside the subset (harnesses only use the subset).
func EvalRule(key, val, msg, obj, field string, v reflect.Value) []string {
	one := func(input, deflt string) []string {
		if msg != "" {
			return []string{ValueClause(obj, field, input, msg)}
		}
		return []string{ValueClause(obj, field, input, deflt)}
	}
	atoi := func(s string) int { n, _ := strconv.Atoi(s); return n }
	switch key {
	case "to", "oto":
		parts := strings.Split(val, "~")
		if len(parts) != 2 {
			return []string{ConfigClause(obj, field, toErr(key))}
		}
		lo, e1 := strconv.Atoi(parts[0])
		hi, e2 := strconv.Atoi(parts[1])
		if e1 != nil {
			return []string{ConfigClause(obj, field, e1.Error())}
		}
		if e2 != nil {
			return []string{ConfigClause(obj, field, e2.Error())}
		}
		m, ok := measureOf(v)
		if !ok {
			return nil
		}
		if key == "to" {
			if m.cmp(lo) < 0 {
				return one(m.str, fmt.Sprintf("it is less than %d %s", lo, m.unit))
			}
			if m.cmp(hi) > 0 {
				return one(m.str, fmt.Sprintf("it is more than %d %s", hi, m.unit))
			}
			return nil
		}
		if m.cmp(lo) <= 0 {
			return one(m.str, fmt.Sprintf("it is less than or equal %d %s", lo, m.unit))
		}
		if m.cmp(hi) >= 0 {
			return one(m.str, fmt.Sprintf("it is more than or equal %d %s", hi, m.unit))
		}
		return nil
	case "ge", "le", "gt", "lt":
		b := atoi(val)
		m, ok := measureOf(v)
		if !ok {
			return nil
		}
		switch {
		case key == "ge" && m.cmp(b) < 0:
			return one(m.str, fmt.Sprintf("it is less than %d %s", b, m.unit))
		case key == "le" && m.cmp(b) > 0:
			return one(m.str, fmt.Sprintf("it is more than %d %s", b, m.unit))
		case key == "gt" && m.cmp(b) <= 0:
			return one(m.str, fmt.Sprintf("it is less than or equal %d %s", b, m.unit))
		case key == "lt" && m.cmp(b) >= 0:
			return one(m.str, fmt.Sprintf("it is more than or equal %d %s", b, m.unit))
		}
		return nil
	case "eq", "noeq":
		b := atoi(val)
		m, ok := measureOf(v)
		input := toStr(v)
		isEq := ok && m.cmp(b) == 0
		if key == "eq" && !isEq {
			return one(input, fmt.Sprintf("it should equal %s %s", val, m.unit))
		}
		if key == "noeq" && isEq {
			return one(input, fmt.Sprintf("it is not equal %s %s", val, m.unit))
		}
		return nil
	case "in":
		l, r := strings.Index(val, "("), strings.LastIndex(val, ")")
		if l < 0 || r < 0 || l > r {
			return []string{ConfigClause(obj, field, "valid \"in\" is not ok, eg: type Test struct {\n   hobby int `valid:\"in=(1/2/3)\"`\n}")}
		}
		inner := val[l+1 : r]
		s := toStr(v)
		if lang.In(s, lang.Options(inner)) {
			return nil
		}
		return one(s, "it should in ("+inner+")")
	case "phone":
		if v.Kind() != reflect.String {
			return []string{ValueClause(obj, field, v.String(), "explain: it must is string")}
		}
		if lang.Phone(v.String()) {
			return nil
		}
		return one(v.String(), "it is not phone")
	case "int":
		if v.Kind() == reflect.String {
			if lang.Int(v.String()) {
				return nil
			}
			return one(v.String(), "it is not integer")
		}
		return nil
	case "prefix":
		if v.Kind() != reflect.String {
			return []string{ValueClause(obj, field, v.String(), "explain: it must is string")}
		}
		if strings.HasPrefix(v.String(), val) {
			return nil
		}
		return one(v.String(), "prefix is not ok")
	}
	panic("walk: rule outside the modelled subset: " + key)
}

func toErr(key string) string {
	return "valid \"to\" is not ok, eg: type Test struct {\n    Name string `valid:\"" + key + "=1~10\"`\n}"
}
