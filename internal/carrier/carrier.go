// Package carrier presents one value under one rule list through each entry point of the library.
package carrier

import (
	"strconv"
	"net/url"
	"reflect"
	"strings"

	"gitee.com/xuesongtao/protoc-go-valid/valid"
)

type Kind string

const (
	StructTag Kind = "struct-tag" // reflect.StructOf type with a real `valid:"..."` tag (unnamed type)
	StructRM  Kind = "struct-rm"  // named generic type Box[T], rules supplied per call
	Var       Kind = "var"
	Map       Kind = "map"       // map[string]T
	MapIface  Kind = "map-iface" // map[string]interface{}
	SliceMap  Kind = "slice-map" // []map[string]T
	Url       Kind = "url"       // strings only, raw in the query string
	UrlEsc    Kind = "url-esc"   // strings only, the value percent-encoded (carries '%' and '+', which survive the library's whole-URL decoding)
	// StructTagHist is StructTag preceded, on another object of the same type, by a call that overrides the field's
	// rule per call (RM{"F": "required"}): the tag's own rule is what judges the later plain call.
	StructTagHist Kind = "struct-tag-after-override"
	// StructTagOtherTag: the tagged type is validated under another tag name (alt, which gives the field different
	// rules) immediately before the plain call: the valid tag's rule is what judges the plain call.
	StructTagOtherTag Kind = "struct-tag-after-other-tag"
	// StructTagLocalFn / VarLocalFn: preceded by a call that registered per-call functions under the names of the
	// built-in rules; those functions belong to that call.
	StructTagLocalFn Kind = "struct-tag-after-call-local-functions"
	VarLocalFn       Kind = "var-after-call-local-functions"
	// MapLocalFn / UrlLocalFn (round 12): the same for the map and URL validators; and StructAfterAbandoned: the tagged
	// type right after a call on it whose walk a panicking caller-supplied function abandoned (the caller recovered) and
	// which carried a rule set of its own for the field.
	MapLocalFn           Kind = "map-after-call-local-functions"
	UrlLocalFn           Kind = "url-after-call-local-functions"
	StructAfterAbandoned Kind = "struct-tag-after-a-call-abandoned-by-a-panicking-function"
	// VarAfterRefused (round 14): Var right after Var calls that were refused before validation (a struct, a map, nil)
	// although they carried rules no value satisfies.
	VarAfterRefused Kind = "var-after-refused-var-calls"
	// StructTagWide: the tagged field is the 70th field of its struct (66 untagged and 3 tagged fields before it).
	StructTagWide Kind = "struct-tag-field-70"
	// MapLarge: the entry stands among 24 other entries that no rule mentions.
	MapLarge Kind = "map-25-entries"
	// StructRMAfterPlain: the untagged type is validated without rules first, then with the per-call rule.
	StructRMAfterPlain Kind = "struct-rm-after-plain-call"
	// UrlMany: strings only; the parameter is the 151st of 200 (percent-encoded value).
	UrlMany Kind = "url-parameter-151-of-200"
	// UrlTwice: strings only; the parameter occurs twice, first without a value (k=&a=1&k=<value>&z=2): every occurrence
	// is judged, and an empty one is skipped like any empty value (so: not for rule lists that hold required).
	UrlTwice Kind = "url-parameter-given-twice"
	// UrlRMReused: strings only; one rule object serves two Url calls in a row: it is the caller's, and still complete.
	UrlRMReused Kind = "url-rule-object-used-twice"
	// StructWrappers / VarWrappers / MapWrappers / UrlWrappers: the value goes through every public spelling of the
	// entry point (function forms, deprecated aliases, the validator-object form, forms that take functions and are
	// given none or one under a name the rules do not use); all spellings must give the same result, which is then
	// judged like the plain form's. A disagreement is returned as a text no model expects.
	StructWrappers Kind = "struct-tag-every-spelling-of-the-entry-point"
	VarWrappers    Kind = "var-every-spelling-of-the-entry-point"
	MapWrappers    Kind = "map-every-spelling-of-the-entry-point"
	UrlWrappers    Kind = "url-every-spelling-of-the-entry-point"
	// First-seen histories: a tagged type of its own (no other carrier ever validates it) meets the library for the first
	// time in a call that is special - it brings functions of its own under the built-in names, it overrides the field's
	// rule, it asks for another tag name, or it reaches the type as a sub-object of a parent - and is then validated
	// plainly: the tag's own rule judges the plain call.
	StructFirstLocalFn  Kind = "struct-tag-first-seen-by-a-call-with-local-functions"
	StructFirstOverride Kind = "struct-tag-first-seen-by-a-call-that-overrides-the-rule"
	StructFirstOtherTag Kind = "struct-tag-first-seen-under-another-tag-name"
	StructFirstNested   Kind = "struct-tag-first-seen-as-a-sub-object"
	// Rule object edited in place between two calls (the key stays, its rules change; the number of keys does not):
	// the second call is judged by what the object holds when it is made.
	MapRMEdited    Kind = "map-rule-object-edited-between-calls"
	UrlRMEdited    Kind = "url-rule-object-edited-between-calls"
	StructRMEdited Kind = "struct-rule-object-edited-between-calls"
)

var All = []Kind{StructTag, StructRM, Var, Map, MapIface, SliceMap, Url, UrlEsc, StructTagHist, StructTagOtherTag, StructTagLocalFn, VarLocalFn, StructTagWide, MapLarge, StructRMAfterPlain, UrlMany, UrlTwice, UrlRMReused, StructWrappers, VarWrappers, MapWrappers, UrlWrappers,
	StructFirstLocalFn, StructFirstOverride, StructFirstOtherTag, StructFirstNested, MapRMEdited, UrlRMEdited, StructRMEdited, MapLocalFn, UrlLocalFn, StructAfterAbandoned, VarAfterRefused}

// Box is the named carrier type for per-call rules.
type Box[T any] struct{ F T }

// PathPrefix is the path under which the value is reported by each carrier ("" = no path).
func PathPrefix(k Kind, v reflect.Value) string {
	switch k {
	case StructTag, StructAfterAbandoned, StructTagHist, StructTagOtherTag, StructTagLocalFn, StructTagWide, StructRMAfterPlain, StructWrappers, StructFirstLocalFn, StructFirstOverride, StructFirstOtherTag, StructFirstNested, StructRMEdited:
		return "F"
	case MapLarge, MapWrappers, MapRMEdited, MapLocalFn:
		return "map[k]"
	case StructRM:
		return "Box[" + typeArgName(v.Type()) + "].F"
	case Map, MapIface:
		return "map[k]"
	case SliceMap:
		return "[0]map[k]"
	case Url, UrlEsc, UrlMany, UrlTwice, UrlRMReused, UrlWrappers, UrlRMEdited, UrlLocalFn:
		return "k"
	}
	return ""
}

func typeArgName(t reflect.Type) string { return t.String() }

type stKey struct {
	t     reflect.Type
	rules string
}

var stCache = map[stKey]reflect.Type{}

// TagType returns the synthesised struct type { F T `valid:"rules"` }.
func TagType(t reflect.Type, rules string) reflect.Type {
	k := stKey{t, rules}
	if st, ok := stCache[k]; ok {
		return st
	}
	if len(stCache) > 4096 {
		stCache = map[stKey]reflect.Type{}
	}
	st := reflect.StructOf([]reflect.StructField{{Name: "F", Type: t, Tag: reflect.StructTag(`valid:"` + rules + `"`)}})
	stCache[k] = st
	return st
}

var saltCache = map[stKey]reflect.Type{}

// TagTypeSalted is TagType with a further tag key that makes the type distinct from every other carrier's type (and,
// with alt, a second tag name whose rules no value satisfies).
func TagTypeSalted(t reflect.Type, rules, salt string, alt bool) reflect.Type {
	k := stKey{t, rules + "\x00" + salt}
	if st, ok := saltCache[k]; ok {
		return st
	}
	if len(saltCache) > 4096 {
		saltCache = map[stKey]reflect.Type{}
	}
	tag := `valid:"` + rules + `" salt:"` + salt + `"`
	if alt {
		tag += ` alt:"required|alt1,eq=-77|alt2"`
	}
	st := reflect.StructOf([]reflect.StructField{{Name: "F", Type: t, Tag: reflect.StructTag(tag)}})
	saltCache[k] = st
	return st
}

var st2Cache = map[stKey]reflect.Type{}

// TagType2 is TagType with a second tag name, alt, that gives the field rules no value satisfies.
func TagType2(t reflect.Type, rules string) reflect.Type {
	k := stKey{t, rules}
	if st, ok := st2Cache[k]; ok {
		return st
	}
	if len(st2Cache) > 4096 {
		st2Cache = map[stKey]reflect.Type{}
	}
	st := reflect.StructOf([]reflect.StructField{{Name: "F", Type: t, Tag: reflect.StructTag(`valid:"` + rules + `" alt:"required|alt1,eq=-77|alt2"`)}})
	st2Cache[k] = st
	return st
}

var wideCache = map[stKey]reflect.Type{}

// TagTypeWide: struct { P00..P65 int; Q0..Q2 string `valid:"le=100"`; F T `valid:"rules"` }.
func TagTypeWide(t reflect.Type, rules string) reflect.Type {
	k := stKey{t, rules}
	if st, ok := wideCache[k]; ok {
		return st
	}
	if len(wideCache) > 1024 {
		wideCache = map[stKey]reflect.Type{}
	}
	var sf []reflect.StructField
	for i := 0; i < 66; i++ {
		sf = append(sf, reflect.StructField{Name: "P" + string(rune('A'+i/26)) + string(rune('a'+i%26)), Type: reflect.TypeOf(0)})
	}
	for i := 0; i < 3; i++ {
		sf = append(sf, reflect.StructField{Name: "Q" + string(rune('a'+i)), Type: reflect.TypeOf(""), Tag: `valid:"le=100"`})
	}
	sf = append(sf, reflect.StructField{Name: "F", Type: t, Tag: reflect.StructTag(`valid:"` + rules + `"`)})
	st := reflect.StructOf(sf)
	wideCache[k] = st
	return st
}

// builtinNames: rule names a call may shadow with functions of its own.
var builtinNames = []string{"required", "exist", "either", "botheq", "to", "ge", "le", "oto", "gt", "lt", "eq", "noeq", "in", "include", "phone", "email", "idcard", "year", "year2month", "date", "datetime", "int", "ints", "float", "re", "ip", "ipv4", "ipv6", "unique", "json", "prefix", "suffix", "file", "dir"}

func quiet(errBuf *strings.Builder, validName, objName, fieldName string, tv reflect.Value) {}

// loud is registered under a name no rule list uses: it must never run.
func loud(errBuf *strings.Builder, validName, objName, fieldName string, tv reflect.Value) {
	errBuf.WriteString("WRAPPER-FUNCTION-RAN-UNDER-A-NAME-NO-RULE-USES; ")
}

type spelling struct {
	name string
	call func() error
}

// agree runs every spelling; the result is the first one's if all agree.
func agree(sp []spelling) (string, bool) {
	var first string
	var firstNil bool
	for i, s := range sp {
		err := s.call()
		txt, isNil := "", err == nil
		if err != nil {
			txt = err.Error()
		}
		if i == 0 {
			first, firstNil = txt, isNil
			continue
		}
		if txt != first || isNil != firstNil {
			return "SPELLINGS-DISAGREE: " + sp[0].name + " gives " + strconv.Quote(first) + " but " + s.name + " gives " + strconv.Quote(txt), false
		}
	}
	return first, firstNil
}

func localFns() valid.Name2FnMap {
	m := valid.Name2FnMap{}
	for _, n := range builtinNames {
		m[n] = quiet
	}
	return m
}

// TagOK reports whether the rule text can be carried in a conventional struct tag.
func TagOK(rules string) bool {
	for i := 0; i < len(rules); i++ {
		c := rules[i]
		if c == '"' || c == '`' || c == '\\' || c < 0x20 || c == 0x7f {
			return false
		}
	}
	return true
}

func boxOf(v reflect.Value) interface{} {
	switch x := v.Interface().(type) {
	case string:
		return &Box[string]{x}
	case bool:
		return &Box[bool]{x}
	case int:
		return &Box[int]{x}
	case int8:
		return &Box[int8]{x}
	case int16:
		return &Box[int16]{x}
	case int32:
		return &Box[int32]{x}
	case int64:
		return &Box[int64]{x}
	case uint:
		return &Box[uint]{x}
	case uint8:
		return &Box[uint8]{x}
	case uint16:
		return &Box[uint16]{x}
	case uint32:
		return &Box[uint32]{x}
	case uint64:
		return &Box[uint64]{x}
	case float32:
		return &Box[float32]{x}
	case float64:
		return &Box[float64]{x}
	case []int:
		return &Box[[]int]{x}
	case []int32:
		return &Box[[]int32]{x}
	case []string:
		return &Box[[]string]{x}
	case []float64:
		return &Box[[]float64]{x}
	case []bool:
		return &Box[[]bool]{x}
	case []uint8:
		return &Box[[]uint8]{x}
	case [2]int32:
		return &Box[[2]int32]{x}
	case [2]string:
		return &Box[[2]string]{x}
	case [2]int:
		return &Box[[2]int]{x}
	case [3]string:
		return &Box[[3]string]{x}
	}
	return nil
}

// Supports says whether carrier k can carry a value of this type at all.
func Supports(k Kind, v reflect.Value) bool {
	switch k {
	case Url:
		return v.Kind() == reflect.String && !strings.ContainsAny(v.String(), "&=?#%+") && !hasCtl(v.String())
	case UrlEsc, UrlMany, UrlTwice, UrlRMReused, UrlWrappers, UrlRMEdited, UrlLocalFn:
		return v.Kind() == reflect.String && !strings.ContainsAny(v.String(), "&=?#")
	case StructRM:
		return boxOf(v) != nil
	}
	return true
}

func hasCtl(s string) bool {
	for i := 0; i < len(s); i++ {
		if s[i] < 0x20 || s[i] == 0x7f {
			return true
		}
	}
	return false
}

// Validate runs the real entry point; it returns the error text and whether the result was nil.
func Validate(k Kind, v reflect.Value, rules string) (string, bool) {
	var err error
	switch k {
	case StructTag:
		st := TagType(v.Type(), rules)
		p := reflect.New(st)
		p.Elem().Field(0).Set(v)
		err = valid.Struct(p.Interface())
	case StructTagHist:
		st := TagType(v.Type(), rules)
		first := reflect.New(st)
		first.Elem().Field(0).Set(v)
		_ = valid.Struct(first.Interface(), valid.RM{"F": "required"})
		p := reflect.New(st)
		p.Elem().Field(0).Set(v)
		err = valid.Struct(p.Interface())
	case StructTagOtherTag:
		st := TagType2(v.Type(), rules)
		first := reflect.New(st)
		first.Elem().Field(0).Set(v)
		_ = valid.ValidateStruct(first.Interface(), "alt")
		p := reflect.New(st)
		p.Elem().Field(0).Set(v)
		err = valid.Struct(p.Interface())
	case UrlMany:
		var q []string
		for i := 0; i < 200; i++ {
			if i == 150 {
				q = append(q, "k="+url.QueryEscape(v.String()))
			} else {
				q = append(q, "p"+strconv.Itoa(i)+"=v"+strconv.Itoa(i))
			}
		}
		err = valid.Url("http://h/p?"+strings.Join(q, "&"), valid.RM{"k": rules, "p199": "required", "p127": "required", "p128": "to=1~9"})
	case StructTagWide:
		st := TagTypeWide(v.Type(), rules)
		p := reflect.New(st)
		p.Elem().Field(st.NumField() - 1).Set(v)
		err = valid.Struct(p.Interface())
	case MapLarge:
		m := reflect.MakeMap(reflect.MapOf(reflect.TypeOf(""), v.Type()))
		for i := 0; i < 24; i++ {
			m.SetMapIndex(reflect.ValueOf("filler"+string(rune('a'+i))), v)
		}
		m.SetMapIndex(reflect.ValueOf("k"), v)
		err = valid.Map(m.Interface(), valid.RM{"k": rules})
	case StructRMAfterPlain:
		st := TagType(v.Type(), "")
		first := reflect.New(st)
		first.Elem().Field(0).Set(v)
		_ = valid.Struct(first.Interface())
		p := reflect.New(st)
		p.Elem().Field(0).Set(v)
		err = valid.Struct(p.Interface(), valid.RM{"F": rules})
	case StructTagLocalFn:
		st := TagType(v.Type(), rules)
		first := reflect.New(st)
		first.Elem().Field(0).Set(v)
		_ = valid.StructForFns(first.Interface(), valid.RM{}, localFns())
		p := reflect.New(st)
		p.Elem().Field(0).Set(v)
		err = valid.Struct(p.Interface())
	case MapLocalFn:
		m := reflect.MakeMap(reflect.MapOf(reflect.TypeOf(""), v.Type()))
		m.SetMapIndex(reflect.ValueOf("k"), v)
		_ = valid.MapFn(m.Interface(), valid.RM{"k": rules}, localFns())
		vm := valid.NewVMap()
		for n, f := range localFns() {
			vm.SetValidFn(n, f)
		}
		_ = vm.SetRule(valid.RM{"k": rules}).Valid(m.Interface())
		err = valid.Map(m.Interface(), valid.RM{"k": rules})
	case UrlLocalFn:
		u := "http://h/p?a=1&k=" + url.QueryEscape(v.String()) + "&z=2"
		vu := valid.NewVUrl()
		for n, f := range localFns() {
			vu.SetValidFn(n, f)
		}
		_ = vu.SetRule(valid.RM{"k": rules}).Valid(u)
		err = valid.Url(u, valid.RM{"k": rules})
	case StructAfterAbandoned:
		st := TagType(v.Type(), rules)
		first := reflect.New(st)
		first.Elem().Field(0).Set(v)
		func() {
			defer func() { _ = recover() }()
			_ = valid.StructForFns(first.Interface(), valid.RM{"F": "abandon|zz,le=-9|zz"}, valid.Name2FnMap{"abandon": func(*strings.Builder, string, string, string, reflect.Value) { panic("caller-supplied function panics") }})
		}()
		func() {
			defer func() { _ = recover() }()
			_ = valid.NewVStruct().SetValidFn("abandon", func(*strings.Builder, string, string, string, reflect.Value) { panic("caller-supplied function panics") }).SetRule(valid.RM{"F": "required|zz,abandon"}, first.Interface()).Valid(first.Interface())
		}()
		p := reflect.New(st)
		p.Elem().Field(0).Set(v)
		err = valid.Struct(p.Interface())
	case VarAfterRefused:
		_ = valid.Var(struct{ A int }{1}, "ge=100|zz", "le=-100|zz", "required|zz")
		_ = valid.Var(map[string]int{"a": 1}, "in=(zz)|zz", "eq=-7|zz")
		_ = valid.Var(nil, "phone|zz")
		err = valid.Var(v.Interface(), rules)
	case VarLocalFn:
		vv := valid.NewVVar()
		for n, f := range localFns() {
			vv.SetValidFn(n, f)
		}
		_ = vv.SetRules(rules).Valid(v.Interface())
		err = valid.Var(v.Interface(), rules)
	case StructRM:
		b := boxOf(v)
		if b == nil {
			// no named Box instantiation for this type: an unnamed struct { F T } carries it (path "F")
			p := reflect.New(TagType(v.Type(), ""))
			p.Elem().Field(0).Set(v)
			b = p.Interface()
		}
		err = valid.Struct(b, valid.RM{"F": rules})
	case Var:
		err = valid.Var(v.Interface(), rules)
	case Map:
		m := reflect.MakeMap(reflect.MapOf(reflect.TypeOf(""), v.Type()))
		m.SetMapIndex(reflect.ValueOf("k"), v)
		err = valid.Map(m.Interface(), valid.RM{"k": rules})
	case MapIface:
		err = valid.Map(map[string]interface{}{"k": v.Interface()}, valid.RM{"k": rules})
	case SliceMap:
		mt := reflect.MapOf(reflect.TypeOf(""), v.Type())
		m := reflect.MakeMap(mt)
		m.SetMapIndex(reflect.ValueOf("k"), v)
		s := reflect.MakeSlice(reflect.SliceOf(mt), 1, 1)
		s.Index(0).Set(m)
		err = valid.Map(s.Interface(), valid.RM{"k": rules})
	case Url:
		err = valid.Url("http://h/p?k="+v.String(), valid.RM{"k": rules})
	case UrlEsc:
		err = valid.Url("http://h/p?a=1&k="+url.QueryEscape(v.String())+"&z=2", valid.RM{"k": rules})
	case UrlTwice:
		err = valid.Url("http://h/p?k=&a=1&k="+url.QueryEscape(v.String())+"&z=2", valid.RM{"k": rules})
	case StructWrappers:
		st := TagType(v.Type(), rules)
		mk := func() interface{} {
			p := reflect.New(st)
			p.Elem().Field(0).Set(v)
			return p.Interface()
		}
		return agree([]spelling{
			{"Struct(src)", func() error { return valid.Struct(mk()) }},
			{"ValidateStruct(src)", func() error { return valid.ValidateStruct(mk()) }},
			{"ValidateStruct(src, \"valid\")", func() error { return valid.ValidateStruct(mk(), "valid") }},
			{"NewVStruct().Valid(src)", func() error { return valid.NewVStruct().Valid(mk()) }},
			{"NewVStruct(\"valid\").Valid(src)", func() error { return valid.NewVStruct("valid").Valid(mk()) }},
			{"StructForFn(src, nil)", func() error { return valid.StructForFn(mk(), nil) }},
			{"StructForFns(src, nil, nil)", func() error { return valid.StructForFns(mk(), nil, nil) }},
			{"StructForFns(src, RM{}, {unused name})", func() error {
				return valid.StructForFns(mk(), valid.RM{}, valid.Name2FnMap{"wrapperunused": loud})
			}},
			{"ValidStructForRule(nil, src)", func() error { return valid.ValidStructForRule(nil, mk()) }},
			{"ValidStructForMyValidFn(src, unused name)", func() error { return valid.ValidStructForMyValidFn(mk(), "wrapperunused", loud) }},
			{"NestedStructForRule(src, nil)", func() error { return valid.NestedStructForRule(mk(), nil) }},
			{"Struct(src, RM{other field})", func() error { return valid.Struct(mk(), valid.RM{"NoSuchField": "required"}) }},
			{"Struct(value, not pointer)", func() error { return valid.Struct(reflect.ValueOf(mk()).Elem().Interface()) }},
		})
	case VarWrappers:
		return agree([]spelling{
			{"Var(src, rules)", func() error { return valid.Var(v.Interface(), rules) }},
			{"NewVVar().SetRules(rules).Valid(src)", func() error { return valid.NewVVar().SetRules(rules).Valid(v.Interface()) }},
			{"NewVVar().SetValidFn(unused).SetRules(rules).Valid(src)", func() error {
				return valid.NewVVar().SetValidFn("wrapperunused", loud).SetRules(rules).Valid(v.Interface())
			}},
			{"Var(pointer to src, rules)", func() error {
				p := reflect.New(v.Type())
				p.Elem().Set(v)
				return valid.Var(p.Interface(), rules)
			}},
		})
	case MapWrappers:
		mk := func() interface{} {
			m := reflect.MakeMap(reflect.MapOf(reflect.TypeOf(""), v.Type()))
			m.SetMapIndex(reflect.ValueOf("k"), v)
			return m.Interface()
		}
		return agree([]spelling{
			{"Map(src, rm)", func() error { return valid.Map(mk(), valid.RM{"k": rules}) }},
			{"MapFn(src, rm, nil)", func() error { return valid.MapFn(mk(), valid.RM{"k": rules}, nil) }},
			{"MapFn(src, rm, {unused name})", func() error {
				return valid.MapFn(mk(), valid.RM{"k": rules}, valid.Name2FnMap{"wrapperunused": loud})
			}},
			{"NewVMap().SetRule(rm).Valid(src)", func() error { return valid.NewVMap().SetRule(valid.RM{"k": rules}).Valid(mk()) }},
			{"NewVMap().SetValidFn(unused).SetRule(rm).Valid(src)", func() error {
				return valid.NewVMap().SetValidFn("wrapperunused", loud).SetRule(valid.RM{"k": rules}).Valid(mk())
			}},
			{"Map(pointer to src, rm)", func() error {
				m := mk()
				p := reflect.New(reflect.TypeOf(m))
				p.Elem().Set(reflect.ValueOf(m))
				return valid.Map(p.Interface(), valid.RM{"k": rules})
			}},
			{"Map(src, NewRule().Set(k, rules))", func() error { return valid.Map(mk(), valid.NewRule().Set("k", rules)) }},
		})
	case UrlWrappers:
		u := "http://h/p?a=1&k=" + url.QueryEscape(v.String()) + "&z=2"
		return agree([]spelling{
			{"Url(src, rm)", func() error { return valid.Url(u, valid.RM{"k": rules}) }},
			{"NewVUrl().SetRule(rm).Valid(src)", func() error { return valid.NewVUrl().SetRule(valid.RM{"k": rules}).Valid(u) }},
			{"NewVUrl().SetValidFn(unused).SetRule(rm).Valid(src)", func() error {
				return valid.NewVUrl().SetValidFn("wrapperunused", loud).SetRule(valid.RM{"k": rules}).Valid(u)
			}},
			{"Url(pointer to src, rm)", func() error { s := u; return valid.Url(&s, valid.RM{"k": rules}) }},
			{"Url(src without scheme and host, rm)", func() error {
				return valid.Url("/p?a=1&k="+url.QueryEscape(v.String())+"&z=2", valid.RM{"k": rules})
			}},
		})
	case StructFirstLocalFn, StructFirstOverride, StructFirstOtherTag, StructFirstNested:
		st := TagTypeSalted(v.Type(), rules, string(k), k == StructFirstOtherTag)
		first := reflect.New(st)
		first.Elem().Field(0).Set(v)
		switch k {
		case StructFirstLocalFn:
			_ = valid.StructForFns(first.Interface(), nil, localFns())
		case StructFirstOverride:
			_ = valid.Struct(first.Interface(), valid.RM{"F": "required|first,le=-9|first"})
		case StructFirstOtherTag:
			_ = valid.ValidateStruct(first.Interface(), "alt")
		case StructFirstNested:
			parent := reflect.New(reflect.StructOf([]reflect.StructField{
				{Name: "C", Type: st, Tag: `valid:"exist"`},
				{Name: "L", Type: reflect.SliceOf(reflect.PtrTo(st)), Tag: `valid:"required"`},
			}))
			parent.Elem().Field(0).Set(first.Elem())
			l := reflect.MakeSlice(parent.Elem().Field(1).Type(), 1, 1)
			l.Index(0).Set(first)
			parent.Elem().Field(1).Set(l)
			_ = valid.Struct(parent.Interface())
		}
		p := reflect.New(st)
		p.Elem().Field(0).Set(v)
		err = valid.Struct(p.Interface())
	case MapRMEdited:
		m := reflect.MakeMap(reflect.MapOf(reflect.TypeOf(""), v.Type()))
		m.SetMapIndex(reflect.ValueOf("k"), v)
		rm := valid.RM{"k": "required|first,le=-9|first", "other": "to=1~9"}
		_ = valid.Map(m.Interface(), rm)
		rm["k"] = rules
		err = valid.Map(m.Interface(), rm)
	case UrlRMEdited:
		u := "http://h/p?a=1&k=" + url.QueryEscape(v.String()) + "&z=2"
		rm := valid.RM{"k": "required|first,le=-9|first", "a": "to=1~9"}
		_ = valid.Url(u, rm)
		rm["k"] = rules
		err = valid.Url(u, rm)
	case StructRMEdited:
		mk := func() interface{} {
			p := reflect.New(TagType(v.Type(), ""))
			p.Elem().Field(0).Set(v)
			return p.Interface()
		}
		rm := valid.RM{"F": "required|first,le=-9|first", "Other": "to=1~9"}
		_ = valid.Struct(mk(), rm)
		rm["F"] = rules
		err = valid.Struct(mk(), rm)
	case UrlRMReused:
		rm := valid.RM{"k": rules, "a": "to=1~9"}
		_ = valid.Url("http://h/p?a=1&k=other&z=2", rm)
		err = valid.Url("http://h/p?a=1&k="+url.QueryEscape(v.String())+"&z=2", rm)
	}
	if err == nil {
		return "", true
	}
	return err.Error(), false
}
