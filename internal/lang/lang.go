// Package lang holds the independent recognisers of the languages the documentation gives for the
// format/content rules (C05).  Hand-written; none of them uses the library or the regular expressions of the
// library.  A recogniser returns (member, specified): specified=false means the documentation does not decide
// the input (DESIGN.md §7) and the case is skipped.
package lang

import (
	"strings"
	"unicode/utf8"
)

func isDigit(c byte) bool { return c >= '0' && c <= '9' }
func isWord(c byte) bool {
	return c == '_' || isDigit(c) || (c >= 'a' && c <= 'z') || (c >= 'A' && c <= 'Z')
}
func allDigits(s string) bool {
	if s == "" {
		return false
	}
	for i := 0; i < len(s); i++ {
		if !isDigit(s[i]) {
			return false
		}
	}
	return true
}

// Phone: 1, then 3..9, then nine digits.
func Phone(s string) bool {
	return len(s) == 11 && s[0] == '1' && s[1] >= '3' && s[1] <= '9' && allDigits(s)
}

// IDCard: 15 digits | 18 digits | 17 digits + X/x.
func IDCard(s string) bool {
	switch len(s) {
	case 15:
		return allDigits(s)
	case 18:
		return allDigits(s[:17]) && (isDigit(s[17]) || s[17] == 'X' || s[17] == 'x')
	}
	return false
}

// words parses word (sep word)* from s[i:], returns the end index and the separators used; ok=false if no word at i.
func words(s string, i int, seps string) (end int, used []byte, ok bool) {
	j := i
	for j < len(s) && isWord(s[j]) {
		j++
	}
	if j == i {
		return i, nil, false
	}
	for j < len(s) && strings.IndexByte(seps, s[j]) >= 0 {
		k := j + 1
		for k < len(s) && isWord(s[k]) {
			k++
		}
		if k == j+1 {
			break
		}
		used = append(used, s[j])
		j = k
	}
	return j, used, true
}

// Email: local = word ([-+.] word)* ; '@' ; domain = words separated by '-' or '.', at least one '.' .
func Email(s string) bool {
	at := strings.IndexByte(s, '@')
	if at <= 0 || strings.IndexByte(s[at+1:], '@') >= 0 {
		return false
	}
	if e, _, ok := words(s, 0, "-+."); !ok || e != at {
		return false
	}
	e, used, ok := words(s, at+1, "-.")
	if !ok || e != len(s) {
		return false
	}
	for _, c := range used {
		if c == '.' {
			return true
		}
	}
	return false
}

// Int (string): one or more ASCII digits.
func Int(s string) bool { return allDigits(s) }

// Float (string): digits '.' digits.
func Float(s string) bool {
	k := strings.IndexByte(s, '.')
	return k > 0 && allDigits(s[:k]) && allDigits(s[k+1:])
}

// Ints (string): every piece between separators is all digits.
func Ints(s, sep string) bool {
	for _, p := range strings.Split(s, sep) {
		if !allDigits(p) {
			return false
		}
	}
	return true
}

// IPv4 dotted quad. specified=false for octets with leading zeros (accepted by some parsers, rejected by others).
func IPv4(s string) (member, specified bool) {
	parts := strings.Split(s, ".")
	if len(parts) != 4 {
		return false, true
	}
	lead := false
	for _, p := range parts {
		if !allDigits(p) {
			return false, true
		}
		if len(p) > 1 && p[0] == '0' {
			lead = true
			p = strings.TrimLeft(p, "0")
		}
		if len(p) > 3 {
			return false, true
		}
		n := 0
		for i := 0; i < len(p); i++ {
			n = n*10 + int(p[i]-'0')
		}
		if n > 255 {
			return false, true
		}
	}
	if lead {
		return false, false
	}
	return true, true
}

func isHex(c byte) bool { return isDigit(c) || (c >= 'a' && c <= 'f') || (c >= 'A' && c <= 'F') }

// IPv6 per RFC 4291 text form, hexadecimal groups only. specified=false when the text mixes ':' and '.'
// (embedded IPv4) or denotes an IPv4-mapped address (::ffff:0:0/96).
func IPv6(s string) (member, specified bool) {
	if strings.Contains(s, "%") {
		// a zone suffix ("fe80::1%eth0", RFC 4007) is a scoped-address notation, not part of the address text form
		return false, true
	}
	if strings.Contains(s, ".") && strings.Contains(s, ":") {
		return false, false
	}
	if !strings.Contains(s, ":") {
		return false, true
	}
	var groups []string
	dbl := strings.Index(s, "::")
	if dbl >= 0 {
		if strings.Index(s[dbl+1:], "::") >= 0 {
			return false, true
		}
		left, right := s[:dbl], s[dbl+2:]
		var lg, rg []string
		if left != "" {
			lg = strings.Split(left, ":")
		}
		if right != "" {
			rg = strings.Split(right, ":")
		}
		if len(lg)+len(rg) > 7 {
			return false, true
		}
		for _, g := range append(append([]string{}, lg...), rg...) {
			if !hexGroup(g) {
				return false, true
			}
		}
		groups = append(groups, lg...)
		for i := 0; i < 8-len(lg)-len(rg); i++ {
			groups = append(groups, "0")
		}
		groups = append(groups, rg...)
	} else {
		groups = strings.Split(s, ":")
		if len(groups) != 8 {
			return false, true
		}
		for _, g := range groups {
			if !hexGroup(g) {
				return false, true
			}
		}
	}
	// IPv4-mapped?
	mapped := true
	for i := 0; i < 5; i++ {
		if strings.TrimLeft(groups[i], "0") != "" {
			mapped = false
		}
	}
	if mapped && strings.EqualFold(strings.TrimLeft(groups[5], "0"), "ffff") {
		return false, false
	}
	return true, true
}

func hexGroup(g string) bool {
	if len(g) < 1 || len(g) > 4 {
		return false
	}
	for i := 0; i < len(g); i++ {
		if !isHex(g[i]) {
			return false
		}
	}
	return true
}

// IP: IPv4 or IPv6.
func IP(s string) (member, specified bool) {
	m4, s4 := IPv4(s)
	m6, s6 := IPv6(s)
	if m4 || m6 {
		return true, true
	}
	return false, s4 && s6
}

func num(s string, i, n int) (int, bool) {
	if i+n > len(s) {
		return 0, false
	}
	v := 0
	for k := i; k < i+n; k++ {
		if !isDigit(s[k]) {
			return 0, false
		}
		v = v*10 + int(s[k]-'0')
	}
	return v, true
}

func leap(y int) bool { return y%4 == 0 && (y%100 != 0 || y%400 == 0) }

func daysIn(y, m int) int {
	switch m {
	case 2:
		if leap(y) {
			return 29
		}
		return 28
	case 4, 6, 9, 11:
		return 30
	}
	return 31
}

// DateTime recognises fixed-width YYYY[d MM[d DD[ m hh t mm t ss]]] with the given separators.
// level: 1 year, 2 year-month, 3 date, 6 datetime.
func DateTime(s string, level int, d, m, t string) bool {
	i := 0
	y, ok := num(s, i, 4)
	if !ok {
		return false
	}
	i += 4
	if level == 1 {
		return i == len(s)
	}
	eat := func(sep string) bool {
		if !strings.HasPrefix(s[i:], sep) {
			return false
		}
		i += len(sep)
		return true
	}
	if !eat(d) {
		return false
	}
	mo, ok := num(s, i, 2)
	if !ok || mo < 1 || mo > 12 {
		return false
	}
	i += 2
	if level == 2 {
		return i == len(s)
	}
	if !eat(d) {
		return false
	}
	da, ok := num(s, i, 2)
	if !ok || da < 1 || da > daysIn(y, mo) {
		return false
	}
	i += 2
	if level == 3 {
		return i == len(s)
	}
	if !eat(m) {
		return false
	}
	h, ok := num(s, i, 2)
	if !ok || h > 23 {
		return false
	}
	i += 2
	if !eat(t) {
		return false
	}
	mi, ok := num(s, i, 2)
	if !ok || mi > 59 {
		return false
	}
	i += 2
	if !eat(t) {
		return false
	}
	se, ok := num(s, i, 2)
	if !ok || se > 59 {
		return false
	}
	i += 2
	return i == len(s)
}

// SplitOutsideQuotes splits s on sep outside single-quoted segments (quotes are kept).
func SplitOutsideQuotes(s string, sep byte) []string {
	var out []string
	start := 0
	inq := false
	for i := 0; i < len(s); i++ {
		switch {
		case s[i] == '\'':
			inq = !inq
		case s[i] == sep && !inq:
			out = append(out, s[start:i])
			start = i + 1
		}
	}
	return append(out, s[start:])
}

// Options parses the option list of in/include: split on '/' outside quotes, strip the protecting quotes.
func Options(list string) []string {
	var out []string
	for _, o := range SplitOutsideQuotes(list, '/') {
		if len(o) >= 2 && o[0] == '\'' && o[len(o)-1] == '\'' {
			o = o[1 : len(o)-1]
		}
		out = append(out, o)
	}
	return out
}

func In(val string, opts []string) bool {
	for _, o := range opts {
		if val == o {
			return true
		}
	}
	return false
}

func Include(val string, opts []string) bool {
	for _, o := range opts {
		if strings.Contains(val, o) {
			return true
		}
	}
	return false
}

// Unique: all items distinct.
func Unique(items []string) bool {
	seen := map[string]bool{}
	for _, it := range items {
		if seen[it] {
			return false
		}
		seen[it] = true
	}
	return true
}

// ---------------------------------------------------------------------------------------------
// JSON (RFC 8259) recogniser.

type jp struct {
	s string
	i int
}

func (p *jp) ws() {
	for p.i < len(p.s) && (p.s[p.i] == ' ' || p.s[p.i] == '\t' || p.s[p.i] == '\n' || p.s[p.i] == '\r') {
		p.i++
	}
}

func (p *jp) value(depth int) bool {
	if depth > 10000 { // the nesting limit of encoding/json
		return false
	}
	p.ws()
	if p.i >= len(p.s) {
		return false
	}
	switch c := p.s[p.i]; {
	case c == '{':
		p.i++
		p.ws()
		if p.i < len(p.s) && p.s[p.i] == '}' {
			p.i++
			return true
		}
		for {
			p.ws()
			if !p.str() {
				return false
			}
			p.ws()
			if p.i >= len(p.s) || p.s[p.i] != ':' {
				return false
			}
			p.i++
			if !p.value(depth + 1) {
				return false
			}
			p.ws()
			if p.i >= len(p.s) {
				return false
			}
			if p.s[p.i] == ',' {
				p.i++
				continue
			}
			if p.s[p.i] == '}' {
				p.i++
				return true
			}
			return false
		}
	case c == '[':
		p.i++
		p.ws()
		if p.i < len(p.s) && p.s[p.i] == ']' {
			p.i++
			return true
		}
		for {
			if !p.value(depth + 1) {
				return false
			}
			p.ws()
			if p.i >= len(p.s) {
				return false
			}
			if p.s[p.i] == ',' {
				p.i++
				continue
			}
			if p.s[p.i] == ']' {
				p.i++
				return true
			}
			return false
		}
	case c == '"':
		return p.str()
	case c == '-' || isDigit(c):
		return p.number()
	default:
		for _, lit := range []string{"true", "false", "null"} {
			if strings.HasPrefix(p.s[p.i:], lit) {
				p.i += len(lit)
				return true
			}
		}
		return false
	}
}

func (p *jp) str() bool {
	if p.i >= len(p.s) || p.s[p.i] != '"' {
		return false
	}
	p.i++
	for p.i < len(p.s) {
		c := p.s[p.i]
		switch {
		case c == '"':
			p.i++
			return true
		case c == '\\':
			p.i++
			if p.i >= len(p.s) {
				return false
			}
			switch p.s[p.i] {
			case '"', '\\', '/', 'b', 'f', 'n', 'r', 't':
				p.i++
			case 'u':
				for k := 1; k <= 4; k++ {
					if p.i+k >= len(p.s) || !isHex(p.s[p.i+k]) {
						return false
					}
				}
				p.i += 5
			default:
				return false
			}
		case c < 0x20:
			return false
		default:
			p.i++
		}
	}
	return false
}

func (p *jp) number() bool {
	if p.i < len(p.s) && p.s[p.i] == '-' {
		p.i++
	}
	if p.i >= len(p.s) {
		return false
	}
	if p.s[p.i] == '0' {
		p.i++
	} else if p.s[p.i] >= '1' && p.s[p.i] <= '9' {
		for p.i < len(p.s) && isDigit(p.s[p.i]) {
			p.i++
		}
	} else {
		return false
	}
	if p.i < len(p.s) && p.s[p.i] == '.' {
		p.i++
		st := p.i
		for p.i < len(p.s) && isDigit(p.s[p.i]) {
			p.i++
		}
		if p.i == st {
			return false
		}
	}
	if p.i < len(p.s) && (p.s[p.i] == 'e' || p.s[p.i] == 'E') {
		p.i++
		if p.i < len(p.s) && (p.s[p.i] == '+' || p.s[p.i] == '-') {
			p.i++
		}
		st := p.i
		for p.i < len(p.s) && isDigit(p.s[p.i]) {
			p.i++
		}
		if p.i == st {
			return false
		}
	}
	return true
}

// JSON reports whether s is one well-formed RFC 8259 text. specified=false for invalid UTF-8
// (RFC 8259 requires UTF-8; encoders differ on how to treat it).
func JSON(s string) (member, specified bool) {
	if !utf8.ValidString(s) {
		return false, false
	}
	p := &jp{s: s}
	if !p.value(0) {
		return false, true
	}
	p.ws()
	return p.i == len(p.s), true
}
