// Package runner is the common driver of every check: it shards a deterministic,
// index-addressable enumeration over worker subprocesses (GOMAXPROCS=1 each), merges
// their measured counters, decides VIOLATION / KNOWN-FINDING against
// /verif/known_findings.json, re-runs unlisted violations from their replay index, and
// writes the evidence file.  Nothing is sampled: the seed only rotates which cases are
// written out as samples.
package runner

import (
	"bufio"
	"encoding/json"
	"flag"
	"fmt"
	"hash/fnv"
	"os"
	"os/exec"
	"path/filepath"
	"runtime"
	"runtime/debug"
	"sort"
	"strconv"
	"strings"
	"sync"
	"syscall"
	"time"
)

// VerifDir is the verification tree the check runs in (VERIF_DIR overrides it so that a snapshot copy can run
// side by side with edits; registered commands always use /verif).
var VerifDir = func() string {
	if d := os.Getenv("VERIF_DIR"); d != "" {
		return d
	}
	return "/verif"
}()

// Config is given by each harness.
type Config struct {
	Property    string
	Rule        string   // how cases are enumerated / what makes one non-trivial
	Assumptions []string // trusted base
	Technique   string
	// Run enumerates the whole space of the tier; it must call c.Take() for every case
	// in a deterministic order and evaluate only the cases for which Take returned true.
	Run func(c *Ctx)
	// MaxWorkers caps the number of worker subprocesses (0 = number of CPUs, max 16).
	MaxWorkers int
	// Budget: internal deadline per tier (0 = defaults).
	QuickBudget, ThoroughBudget time.Duration
	// WorkerGOMAXPROCS (0 → 1)
	WorkerGOMAXPROCS int
	// Extra is called in the parent after the merge to add coverage keys.
	Extra func(m *Merged, cov map[string]interface{})
	// Pre is called in the parent before workers start (e.g. build a CLI binary); returns env additions.
	Pre func(tier string) ([]string, error)
	// Modes: optional; each mode gets its own set of workers (possibly another build of the same harness,
	// e.g. the -race build). Ctx.Mode tells Run which spaces to enumerate.
	Modes []Mode
}

// Mode is one build/run variant of a harness.
type Mode struct {
	Name         string
	BinarySuffix string   // appended to os.Args[0]
	Env          []string // extra environment; the token {W} is replaced by a per-worker scratch prefix
	Workers      int      // 0 = default
}

// Violation is one observed disagreement with the property.
type Violation struct {
	Sig    string      `json:"signature"`
	Space  string      `json:"space"`
	Idx    int64       `json:"index"`
	Detail interface{} `json:"detail"`
}

type violGroup struct {
	Count int64       `json:"count"`
	First []Violation `json:"first"`
}

type spaceStat struct {
	Cases       int64 `json:"cases"`
	Evaluated   int64 `json:"evaluated"`
	Nontrivial  int64 `json:"nontrivial"`
	Transitions int64 `json:"transitions"`
	Complete    bool  `json:"complete"`
}

// workerOut is what a worker writes.
type workerOut struct {
	Spaces    map[string]*spaceStat `json:"spaces"`
	Outcomes  map[string]int64      `json:"outcomes"`
	StateKeys []string              `json:"state_keys"`
	StateN    int64                 `json:"state_n"`
	Viol      map[string]*violGroup `json:"viol"`
	Samples   []sample              `json:"samples"`
	Expired   bool                  `json:"expired"`
	Counters  map[string]int64      `json:"counters"`
	Notes     []string              `json:"notes"`
}

type sample struct {
	H uint64      `json:"h"`
	V interface{} `json:"v"`
}

// Ctx is the per-worker context handed to Config.Run.
type Ctx struct {
	Prop      string
	Tier      string
	Seed      int64
	Worker    int
	NWorkers  int
	ReplayIdx int64 // >=0: evaluate only this index (of ReplaySpace)
	ReplaySpc string
	Verbose   bool
	Mode      string

	space    string
	cur      *spaceStat
	idx      int64
	out      workerOut
	states   map[string]struct{}
	deadline time.Time
	took     bool
}

func (c *Ctx) Thorough() bool { return c.Tier == "thorough" }

// Space starts a new named sub-space; indices restart at 0.
func (c *Ctx) Space(name string) {
	c.closeSpace()
	c.space = name
	c.idx = 0
	st, ok := c.out.Spaces[name]
	if !ok {
		st = &spaceStat{}
		c.out.Spaces[name] = st
	}
	c.cur = st
}

func (c *Ctx) closeSpace() {
	if c.cur != nil && !c.out.Expired {
		c.cur.Complete = true
	}
}

// Take advances the case counter and says whether this worker evaluates the case.
func (c *Ctx) Take() bool {
	i := c.idx
	c.idx++
	c.cur.Cases++
	c.took = false
	if c.ReplayIdx >= 0 {
		c.took = c.space == c.ReplaySpc && i == c.ReplayIdx
		return c.took
	}
	if c.out.Expired {
		return false
	}
	if i%int64(c.NWorkers) != int64(c.Worker) {
		return false
	}
	if i&0x3ff == 0 && time.Now().After(c.deadline) {
		c.out.Expired = true
		return false
	}
	c.took = true
	return true
}

// Skip advances the case counter by n without evaluating (whole sub-blocks owned by nobody are not allowed;
// it is used only in replay mode fast-forwarding).
func (c *Ctx) Index() int64 { return c.idx - 1 }

// SpaceName is the name of the current sub-space.
func (c *Ctx) SpaceName() string { return c.space }

// RunCaseInChild re-runs exactly the current case (space, index) in a fresh process of the same harness binary with
// extra environment, and adopts the violations the child recorded. It is used when an exploration has to be repeated
// with one execution per process (process-global state of the code under test survives from one execution to the next).
// It returns the child's exit error and its stderr tail.
func (c *Ctx) RunCaseInChild(env []string) (stderr string, err error) {
	dir := os.Getenv("VERIF_SCRATCH")
	if dir == "" {
		dir = os.TempDir()
	}
	f, e := os.CreateTemp(dir, "child-*.json")
	if e != nil {
		return "", e
	}
	out := f.Name()
	f.Close()
	defer os.Remove(out)
	args := []string{"-worker", "0", "-n", "1", "-tier", c.Tier, "-seed", strconv.FormatInt(c.Seed, 10), "-out", out, "-budget", "1h",
		"-replay-idx", strconv.FormatInt(c.idx-1, 10), "-replay-space", c.space}
	if c.Mode != "" {
		args = append(args, "-mode", c.Mode)
	}
	cmd := exec.Command(os.Args[0], args...)
	cmd.Env = append(os.Environ(), env...)
	var errb strings.Builder
	cmd.Stderr = &tailWriter{b: &errb, max: 8000}
	err = cmd.Run()
	if err != nil {
		return errb.String(), err
	}
	b, e := os.ReadFile(out)
	if e != nil {
		return errb.String(), e
	}
	var wo workerOut
	if e := json.Unmarshal(b, &wo); e != nil {
		return errb.String(), e
	}
	for sig, g := range wo.Viol {
		d, ok := c.out.Viol[sig]
		if !ok {
			d = &violGroup{}
			c.out.Viol[sig] = d
		}
		d.Count += g.Count
		for _, v := range g.First {
			if len(d.First) < 3 {
				d.First = append(d.First, v)
			}
		}
	}
	return errb.String(), nil
}

// Expired reports whether the internal deadline passed (enumeration should stop).
func (c *Ctx) Expired() bool {
	if c.ReplayIdx >= 0 {
		return false
	}
	if !c.out.Expired && time.Now().After(c.deadline) {
		c.out.Expired = true
	}
	return c.out.Expired
}

// Deadline is the internal deadline of this worker.
func (c *Ctx) Deadline() time.Time {
	if c.ReplayIdx >= 0 {
		return time.Now().Add(1000 * time.Hour)
	}
	return c.deadline
}

// MarkIncomplete records that the current space was not explored completely (a cap or deadline was hit).
func (c *Ctx) MarkIncomplete() { c.out.Expired = true }

// Done records one evaluated case.
func (c *Ctx) Done(nontrivial bool, calls int) {
	c.cur.Evaluated++
	if nontrivial {
		c.cur.Nontrivial++
	}
	c.cur.Transitions += int64(calls)
}

// AddTransitions adds implementation operations executed outside Done.
func (c *Ctx) AddTransitions(n int) { c.cur.Transitions += int64(n) }

// Outcome counts one observed outcome class (bounded cardinality expected).
func (c *Ctx) Outcome(class string) {
	if len(c.out.Outcomes) < 20000 || c.out.Outcomes[class] > 0 {
		c.out.Outcomes[class]++
	}
}

// Count adds to a free-form named counter.
func (c *Ctx) Count(name string, n int64) { c.out.Counters[name] += n }

// State records a canonical state key (distinct keys are counted across workers).
func (c *Ctx) State(key string) {
	if len(c.states) < 2000000 {
		c.states[key] = struct{}{}
	}
}

// StateN adds states that are distinct by construction (no key needed).
func (c *Ctx) StateN(n int64) { c.out.StateN += n }

func (c *Ctx) Note(s string) { c.out.Notes = append(c.out.Notes, s) }

// Sample offers a case for the samples list; which ones are kept rotates with the seed.
func (c *Ctx) Sample(mk func() interface{}) {
	h := fnv.New64a()
	fmt.Fprintf(h, "%d/%s/%d", c.Seed, c.space, c.idx-1)
	hv := h.Sum64()
	const keep = 6
	if len(c.out.Samples) >= keep && hv >= c.out.Samples[len(c.out.Samples)-1].H {
		return
	}
	c.out.Samples = append(c.out.Samples, sample{hv, map[string]interface{}{"space": c.space, "index": c.idx - 1, "case": mk()}})
	sort.Slice(c.out.Samples, func(i, j int) bool { return c.out.Samples[i].H < c.out.Samples[j].H })
	if len(c.out.Samples) > keep {
		c.out.Samples = c.out.Samples[:keep]
	}
}

// Violation records a disagreement for the current case.
func (c *Ctx) Violation(sig string, detail interface{}) {
	g, ok := c.out.Viol[sig]
	if !ok {
		g = &violGroup{}
		c.out.Viol[sig] = g
	}
	g.Count++
	if len(g.First) < 3 {
		g.First = append(g.First, Violation{Sig: sig, Space: c.space, Idx: c.idx - 1, Detail: detail})
	}
	if c.Verbose {
		b, _ := json.MarshalIndent(detail, "", "  ")
		fmt.Printf("violation %s at %s#%d:\n%s\n", sig, c.space, c.idx-1, b)
	}
}

// Guard runs f and converts a panic into a value.
func Guard(f func()) (panicked bool, msg string, site string) {
	defer func() {
		if r := recover(); r != nil {
			panicked = true
			msg = fmt.Sprint(r)
			site = PanicSite(string(debug.Stack()))
		}
	}()
	f()
	return
}

// PanicSite extracts the top repository frame (function name) from a stack dump.
func PanicSite(stack string) string {
	lines := strings.Split(stack, "\n")
	seenPanic := false
	for i := 0; i < len(lines); i++ {
		l := lines[i]
		if strings.HasPrefix(l, "panic(") {
			seenPanic = true
			continue
		}
		if !seenPanic {
			continue
		}
		if strings.HasPrefix(l, "gitee.com/xuesongtao/protoc-go-valid/") {
			fn := strings.TrimPrefix(l, "gitee.com/xuesongtao/protoc-go-valid/")
			if k := strings.Index(fn, "("); k > 0 {
				// keep method receivers: valid.(*VStruct).validate(...)
				if strings.HasPrefix(fn[k:], "(*") || (k > 0 && fn[k-1] == '.') {
					if k2 := strings.Index(fn[k+1:], "("); k2 >= 0 {
						fn = fn[:k+1+k2]
					}
				} else {
					fn = fn[:k]
				}
			}
			return fn
		}
	}
	return "unknown"
}

// Merged is the parent's view after merging all workers.
type Merged struct {
	Spaces   map[string]*spaceStat
	Outcomes map[string]int64
	States   map[string]struct{}
	StateN   int64
	Viol     map[string]*violGroup
	Samples  []sample
	Expired  bool
	Counters map[string]int64
	Notes    []string
	Crashes  []string
}

type knownFinding struct {
	Property  string `json:"property"`
	Signature string `json:"signature"`
	Status    string `json:"status"` // known | fixed
	Commit    string `json:"commit,omitempty"`
	What      string `json:"what"`
}

func loadFindings() []knownFinding {
	b, err := os.ReadFile(filepath.Join(VerifDir, "known_findings.json"))
	if err != nil {
		return nil
	}
	var f struct {
		Findings []knownFinding `json:"findings"`
	}
	if err := json.Unmarshal(b, &f); err != nil {
		fmt.Fprintln(os.Stderr, "known_findings.json unreadable:", err)
		os.Exit(2)
	}
	return f.Findings
}

// RepoDir is the source tree the CLI is built from: /repo, unless VERIF_REPO names a scratch worktree (used only to
// evaluate seeded changes without touching /repo; registered commands never set it).
var RepoDir = func() string {
	if d := os.Getenv("VERIF_REPO"); d != "" {
		return d
	}
	return "/repo"
}()

// Main is the entry point of every harness binary.
func Main(cfg Config) {
	var (
		tier      = flag.String("tier", "", "quick|thorough")
		worker    = flag.Int("worker", -1, "worker index (internal)")
		nworkers  = flag.Int("n", 1, "number of workers (internal)")
		out       = flag.String("out", "", "worker output file (internal)")
		replay    = flag.String("replay", "", "replay file")
		replayIdx = flag.Int64("replay-idx", -1, "internal")
		replaySpc = flag.String("replay-space", "", "internal")
		seedF     = flag.Int64("seed", -1, "seed")
		budget    = flag.Duration("budget", 0, "internal deadline override")
		verbose   = flag.Bool("v", false, "verbose")
		mode      = flag.String("mode", "", "internal")
	)
	flag.Parse()
	if *tier == "" {
		*tier = os.Getenv("VERIF_TIER")
	}
	if *tier == "" {
		*tier = "quick"
	}
	if *tier != "quick" && *tier != "thorough" {
		fmt.Fprintln(os.Stderr, "bad tier", *tier)
		os.Exit(2)
	}
	seed := *seedF
	if seed < 0 {
		seed = 0
		if s := os.Getenv("VERIF_SEED"); s != "" {
			if v, err := strconv.ParseInt(s, 10, 64); err == nil {
				seed = v
			}
		}
	}
	bud := *budget
	if bud == 0 {
		if *tier == "quick" {
			bud = cfg.QuickBudget
			if bud == 0 {
				bud = 4 * time.Minute
			}
		} else {
			bud = cfg.ThoroughBudget
			if bud == 0 {
				bud = 40 * time.Minute
			}
		}
	}

	if *worker >= 0 {
		runWorker(cfg, *tier, seed, *worker, *nworkers, *out, *replayIdx, *replaySpc, bud, *verbose, *mode)
		return
	}
	if *replay != "" {
		os.Exit(runReplay(cfg, *replay))
	}
	os.Exit(runParent(cfg, *tier, seed, bud))
}

func runWorker(cfg Config, tier string, seed int64, w, n int, out string, ridx int64, rspc string, bud time.Duration, verbose bool, mode string) {
	c := &Ctx{Mode: mode, Prop: cfg.Property, Tier: tier, Seed: seed, Worker: w, NWorkers: n, ReplayIdx: ridx, ReplaySpc: rspc, Verbose: verbose,
		states: map[string]struct{}{}, deadline: time.Now().Add(bud)}
	c.out = workerOut{Spaces: map[string]*spaceStat{}, Outcomes: map[string]int64{}, Viol: map[string]*violGroup{}, Counters: map[string]int64{}}
	c.Space("default")
	cfg.Run(c)
	c.closeSpace()
	if c.out.Spaces["default"].Cases == 0 {
		delete(c.out.Spaces, "default")
	}
	for k := range c.states {
		c.out.StateKeys = append(c.out.StateKeys, k)
	}
	b, err := json.Marshal(&c.out)
	if err != nil {
		fmt.Fprintln(os.Stderr, "marshal:", err)
		os.Exit(3)
	}
	if out == "" {
		os.Stdout.Write(b)
		return
	}
	if err := os.WriteFile(out, b, 0644); err != nil {
		fmt.Fprintln(os.Stderr, err)
		os.Exit(3)
	}
}

func scratchBase() string {
	for _, d := range []string{"/dev/shm", os.TempDir()} {
		if fi, err := os.Stat(d); err == nil && fi.IsDir() {
			if p, err := os.MkdirTemp(d, "verif-"); err == nil {
				return p
			}
		}
	}
	p, _ := os.MkdirTemp("", "verif-")
	return p
}

func spawn(cfg Config, md Mode, tier string, seed int64, w, n int, outFile string, ridx int64, rspc string, bud time.Duration, env []string, verbose bool) (string, error) {
	args := []string{"-worker", strconv.Itoa(w), "-n", strconv.Itoa(n), "-tier", tier, "-seed", strconv.FormatInt(seed, 10), "-out", outFile,
		"-budget", bud.String()}
	if ridx >= 0 {
		args = append(args, "-replay-idx", strconv.FormatInt(ridx, 10), "-replay-space", rspc)
	}
	if verbose {
		args = append(args, "-v")
	}
	if md.Name != "" {
		args = append(args, "-mode", md.Name)
	}
	cmd := exec.Command(os.Args[0]+md.BinarySuffix, args...)
	gmp := cfg.WorkerGOMAXPROCS
	if gmp == 0 {
		gmp = 1
	}
	cmd.Env = append(os.Environ(), "GOMAXPROCS="+strconv.Itoa(gmp), "GOTRACEBACK=all")
	cmd.Env = append(cmd.Env, env...)
	for _, e := range md.Env {
		cmd.Env = append(cmd.Env, strings.ReplaceAll(e, "{W}", outFile))
	}
	var errb strings.Builder
	cmd.Stderr = &tailWriter{b: &errb, max: 16000}
	if verbose {
		cmd.Stdout = os.Stdout
	}
	if err := cmd.Start(); err != nil {
		return "", err
	}
	// A worker stops by itself when its budget is used up (between cases). One that is still there long after that is
	// stuck - in the code under test or in the harness: ask it for a goroutine dump, then kill it; the parent reports
	// the worker as died.
	limit := bud + bud/2 + 10*time.Minute
	done := make(chan error, 1)
	go func() { done <- cmd.Wait() }()
	select {
	case err := <-done:
		return errb.String(), err
	case <-time.After(limit):
		cmd.Process.Signal(syscall.SIGQUIT)
		select {
		case <-done:
		case <-time.After(10 * time.Second):
			cmd.Process.Kill()
			<-done
		}
		return "worker stuck: no exit " + limit.String() + " after start (budget " + bud.String() + "); goroutine dump follows\n" + errb.String(), fmt.Errorf("worker stuck, killed after %s", limit)
	}
}

type tailWriter struct {
	b   *strings.Builder
	max int
	mu  sync.Mutex
}

func (t *tailWriter) Write(p []byte) (int, error) {
	t.mu.Lock()
	defer t.mu.Unlock()
	if t.b.Len() < t.max {
		if len(p) > t.max-t.b.Len() {
			t.b.Write(p[:t.max-t.b.Len()])
		} else {
			t.b.Write(p)
		}
	}
	return len(p), nil
}

func runParent(cfg Config, tier string, seed int64, bud time.Duration) int {
	start := time.Now()
	n := runtime.NumCPU()
	if n > 16 {
		n = 16
	}
	if cfg.MaxWorkers > 0 && n > cfg.MaxWorkers {
		n = cfg.MaxWorkers
	}
	if v := os.Getenv("VERIF_WORKERS"); v != "" {
		if k, err := strconv.Atoi(v); err == nil && k > 0 {
			n = k
		}
	}
	var env []string
	if cfg.Pre != nil {
		e, err := cfg.Pre(tier)
		if err != nil {
			fmt.Println("SETUP-FAILED:", err)
			return 2
		}
		env = e
	}
	tmp := scratchBase()
	defer os.RemoveAll(tmp)
	env = append(env, "VERIF_SCRATCH="+tmp)

	type res struct {
		w      int
		stderr string
		err    error
	}
	modes := cfg.Modes
	if len(modes) == 0 {
		modes = []Mode{{}}
	}
	total := 0
	for _, md := range modes {
		k := n
		if md.Workers > 0 && md.Workers < k {
			k = md.Workers
		}
		total += k
	}
	ch := make(chan res, total)
	id := 0
	for _, md := range modes {
		k := n
		if md.Workers > 0 && md.Workers < k {
			k = md.Workers
		}
		for w := 0; w < k; w++ {
			go func(md Mode, w, k, id int) {
				se, err := spawn(cfg, md, tier, seed, w, k, filepath.Join(tmp, fmt.Sprintf("w%d.json", id)), -1, "", bud, env, false)
				ch <- res{id, se, err}
			}(md, w, k, id)
			id++
		}
	}
	n = total
	m := &Merged{Spaces: map[string]*spaceStat{}, Outcomes: map[string]int64{}, States: map[string]struct{}{}, Viol: map[string]*violGroup{}, Counters: map[string]int64{}}
	harnessErr := false
	for i := 0; i < n; i++ {
		r := <-ch
		if r.err != nil {
			// The worker died: a fatal error / unrecovered crash in the code under test (or os.Exit).
			m.Crashes = append(m.Crashes, fmt.Sprintf("worker %d: %v\n%s", r.w, r.err, r.stderr))
			if strings.Contains(r.stderr, "HARNESS-ERROR") {
				harnessErr = true
			}
			continue
		}
		b, err := os.ReadFile(filepath.Join(tmp, fmt.Sprintf("w%d.json", r.w)))
		if err != nil {
			m.Crashes = append(m.Crashes, fmt.Sprintf("worker %d: no output: %v\n%s", r.w, err, r.stderr))
			continue
		}
		var wo workerOut
		if err := json.Unmarshal(b, &wo); err != nil {
			m.Crashes = append(m.Crashes, fmt.Sprintf("worker %d: bad output: %v", r.w, err))
			continue
		}
		mergeInto(m, &wo, r.w == 0)
	}
	if harnessErr {
		for _, c := range m.Crashes {
			fmt.Println(c)
		}
		fmt.Println("HARNESS-ERROR: the check itself could not run (neither pass nor violation)")
		return 2
	}
	return finish(cfg, m, tier, seed, start, bud, env)
}

func mergeInto(m *Merged, wo *workerOut, first bool) {
	for k, s := range wo.Spaces {
		d, ok := m.Spaces[k]
		if !ok {
			d = &spaceStat{Complete: true}
			m.Spaces[k] = d
		}
		if s.Cases > d.Cases {
			d.Cases = s.Cases // every worker enumerates (counts) all indices
		}
		d.Evaluated += s.Evaluated
		d.Nontrivial += s.Nontrivial
		d.Transitions += s.Transitions
		if !s.Complete {
			d.Complete = false
		}
	}
	for k, v := range wo.Outcomes {
		m.Outcomes[k] += v
	}
	for _, k := range wo.StateKeys {
		m.States[k] = struct{}{}
	}
	m.StateN += wo.StateN
	for k, g := range wo.Viol {
		d, ok := m.Viol[k]
		if !ok {
			d = &violGroup{}
			m.Viol[k] = d
		}
		d.Count += g.Count
		d.First = append(d.First, g.First...)
		sort.Slice(d.First, func(i, j int) bool {
			if d.First[i].Space != d.First[j].Space {
				return d.First[i].Space < d.First[j].Space
			}
			return d.First[i].Idx < d.First[j].Idx
		})
		if len(d.First) > 3 {
			d.First = d.First[:3]
		}
	}
	m.Samples = append(m.Samples, wo.Samples...)
	if wo.Expired {
		m.Expired = true
	}
	for k, v := range wo.Counters {
		m.Counters[k] += v
	}
	m.Notes = append(m.Notes, wo.Notes...)
}

func finish(cfg Config, m *Merged, tier string, seed int64, start time.Time, bud time.Duration, env []string) int {
	findings := loadFindings()
	known := map[string]knownFinding{}
	for _, f := range findings {
		if f.Property == cfg.Property && f.Status == "known" {
			known[f.Signature] = f
		}
	}
	os.MkdirAll(filepath.Join(VerifDir, "replays"), 0755)
	os.MkdirAll(filepath.Join(VerifDir, "evidence"), 0755)

	exit := 0
	var sigs []string
	for s := range m.Viol {
		sigs = append(sigs, s)
	}
	sort.Strings(sigs)
	var knownHit []string
	nConfirmed := 0
	nUnlisted := 0
	w := bufio.NewWriter(os.Stdout)
	defer w.Flush()
	for _, s := range sigs {
		g := m.Viol[s]
		if kf, ok := known[s]; ok {
			fmt.Fprintf(w, "KNOWN-FINDING: property=%s %s [signature %s, %d cases]\n", cfg.Property, kf.What, s, g.Count)
			knownHit = append(knownHit, s)
			continue
		}
		// unlisted: write a replay file, re-run it 5x
		v := g.First[0]
		rp := filepath.Join(VerifDir, "replays", fmt.Sprintf("%s-%s.json", cfg.Property, sanitize(s)))
		rb, _ := json.MarshalIndent(map[string]interface{}{"property": cfg.Property, "tier": tier, "seed": seed, "signature": s, "space": v.Space, "index": v.Idx,
			"count": g.Count, "detail": v.Detail, "more": g.First[1:]}, "", "  ")
		os.WriteFile(rp, rb, 0644)
		w.Flush()
		nrep := -1
		if nConfirmed < 6 {
			_, nrep = confirm(cfg, tier, seed, v, env)
			nConfirmed++
		}
		// The observation was made on the real code and is reported whatever the replay says; a replay that does not
		// reproduce 5/5 means the behaviour depends on nondeterminism the harness cannot own (Go map iteration order).
		fmt.Fprintf(w, "VIOLATION property=%s replay=%s\n", cfg.Property, rp)
		fmt.Fprintf(w, "  signature=%s cases=%d reproduced=%d/5 first=%s\n", s, g.Count, nrep, oneLine(v.Detail))
		nUnlisted++
		exit = 1
	}
	for i, cr := range m.Crashes {
		rp := filepath.Join(VerifDir, "replays", fmt.Sprintf("%s-worker-crash-%d.txt", cfg.Property, i))
		os.WriteFile(rp, []byte(cr), 0644)
		fmt.Fprintf(w, "VIOLATION property=%s replay=%s\n  a worker process died (fatal error / crash in the code under test): %s\n", cfg.Property, rp, firstLine(cr))
		nUnlisted++
		exit = 1
	}

	// evidence
	var evals, nontriv, trans, cases int64
	exhaustive := !m.Expired && len(m.Crashes) == 0
	spaces := map[string]interface{}{}
	for k, s := range m.Spaces {
		evals += s.Evaluated
		nontriv += s.Nontrivial
		trans += s.Transitions
		cases += s.Cases
		if !s.Complete {
			exhaustive = false
		}
		spaces[k] = s
	}
	states := int64(len(m.States)) + m.StateN
	if states == 0 {
		states = evals // cases are distinct by construction
	}
	sort.Slice(m.Samples, func(i, j int) bool { return m.Samples[i].H < m.Samples[j].H })
	var samples []interface{}
	for i, s := range m.Samples {
		if i >= 8 {
			break
		}
		samples = append(samples, s.V)
	}
	if len(samples) == 0 {
		samples = append(samples, "no case evaluated")
	}
	cov := map[string]interface{}{
		"evaluations":                   evals,
		"distinct_nontrivial":           nontriv,
		"rule":                          cfg.Rule,
		"samples":                       samples,
		"states":                        states,
		"transitions":                   trans,
		"traces_validated_against_impl": evals,
		"exhaustive":                    exhaustive,
		"cap_hit":                       m.Expired,
		"spaces":                        spaces,
		"distinct_outcomes":             len(m.Outcomes),
		"known_findings_hit":            knownHit,
		"unlisted_violation_signatures": nUnlisted,
		"technique":                     cfg.Technique,
		"budget":                        bud.String(),
	}
	if len(m.Outcomes) <= 60 {
		cov["outcomes"] = m.Outcomes
	}
	if len(m.Counters) > 0 {
		cov["counters"] = m.Counters
	}
	if len(m.Notes) > 0 {
		cov["notes"] = dedup(m.Notes)
	}
	if cfg.Extra != nil {
		cfg.Extra(m, cov)
	}
	ev := map[string]interface{}{
		"property_id": cfg.Property,
		"tier":        tier,
		"seed":        seed,
		"level":       "model_checking",
		"coverage":    cov,
		"assumptions": cfg.Assumptions,
		"wall_s":      time.Since(start).Seconds(),
		"violations":  nUnlisted,
	}
	eb, _ := json.MarshalIndent(ev, "", " ")
	os.WriteFile(filepath.Join(VerifDir, "evidence", cfg.Property+".json"), eb, 0644)
	fmt.Fprintf(w, "%s %s: cases=%d evaluated=%d nontrivial=%d states=%d transitions=%d outcomes=%d exhaustive=%v known=%d unlisted=%d wall=%.1fs\n",
		cfg.Property, tier, cases, evals, nontriv, states, trans, len(m.Outcomes), exhaustive, len(knownHit), nUnlisted, time.Since(start).Seconds())
	return exit
}

func dedup(in []string) []string {
	seen := map[string]bool{}
	var out []string
	for _, s := range in {
		if !seen[s] {
			seen[s] = true
			out = append(out, s)
		}
	}
	sort.Strings(out)
	return out
}

func confirm(cfg Config, tier string, seed int64, v Violation, env []string) (bool, int) {
	tmp := scratchBase()
	defer os.RemoveAll(tmp)
	env = append(append([]string{}, env...), "VERIF_SCRATCH="+tmp)
	n := 0
	for i := 0; i < 5; i++ {
		of := filepath.Join(tmp, fmt.Sprintf("r%d.json", i))
		_, err := spawn(cfg, modeOf(cfg, v.Space), tier, seed, 0, 1, of, v.Idx, v.Space, time.Hour, env, false)
		if err != nil {
			// crash during replay counts as reproduction of a crash-type violation only
			continue
		}
		b, err := os.ReadFile(of)
		if err != nil {
			continue
		}
		var wo workerOut
		if json.Unmarshal(b, &wo) != nil {
			continue
		}
		if _, ok := wo.Viol[v.Sig]; ok {
			n++
		}
	}
	return n == 5, n
}

func runReplay(cfg Config, path string) int {
	b, err := os.ReadFile(path)
	if err != nil {
		fmt.Fprintln(os.Stderr, err)
		return 2
	}
	var r struct {
		Tier  string `json:"tier"`
		Seed  int64  `json:"seed"`
		Space string `json:"space"`
		Index int64  `json:"index"`
		Sig   string `json:"signature"`
	}
	if err := json.Unmarshal(b, &r); err != nil {
		fmt.Fprintln(os.Stderr, err)
		return 2
	}
	var env []string
	if cfg.Pre != nil {
		e, err := cfg.Pre(r.Tier)
		if err != nil {
			fmt.Println("SETUP-FAILED:", err)
			return 2
		}
		env = e
	}
	tmp := scratchBase()
	defer os.RemoveAll(tmp)
	env = append(env, "VERIF_SCRATCH="+tmp)
	of := filepath.Join(tmp, "r.json")
	se, err := spawn(cfg, modeOf(cfg, r.Space), r.Tier, r.Seed, 0, 1, of, r.Index, r.Space, time.Hour, env, true)
	if err != nil {
		fmt.Println("replay worker died:", err)
		fmt.Println(se)
		fmt.Printf("VIOLATION property=%s replay=%s\n", cfg.Property, path)
		return 1
	}
	ob, _ := os.ReadFile(of)
	var wo workerOut
	json.Unmarshal(ob, &wo)
	if len(wo.Viol) > 0 {
		fmt.Printf("VIOLATION property=%s replay=%s\n", cfg.Property, path)
		return 1
	}
	fmt.Println("replay: no violation for", r.Space, r.Index)
	return 0
}

// modeOf finds the mode a space belongs to: by convention spaces of a mode are named "<mode>:...".
func modeOf(cfg Config, space string) Mode {
	for _, md := range cfg.Modes {
		if md.Name != "" && strings.HasPrefix(space, md.Name+":") {
			return md
		}
	}
	if len(cfg.Modes) > 0 {
		return cfg.Modes[0]
	}
	return Mode{}
}

func sanitize(s string) string {
	var b strings.Builder
	for _, r := range s {
		switch {
		case r >= 'a' && r <= 'z', r >= 'A' && r <= 'Z', r >= '0' && r <= '9', r == '-', r == '_', r == '.':
			b.WriteRune(r)
		case r == '<':
			b.WriteString("lt")
		case r == '>':
			b.WriteString("gt")
		case r == '=':
			b.WriteString("eq")
		default:
			b.WriteByte('_')
		}
	}
	out := b.String()
	if len(out) > 120 {
		h := fnv.New32a()
		h.Write([]byte(s))
		out = out[:100] + fmt.Sprintf("_%08x", h.Sum32())
	}
	return out
}

func oneLine(v interface{}) string {
	b, _ := json.Marshal(v)
	s := string(b)
	if len(s) > 400 {
		s = s[:400] + "…"
	}
	return s
}

func firstLine(s string) string {
	for _, l := range strings.Split(s, "\n") {
		if strings.Contains(l, "fatal error") || strings.Contains(l, "panic:") {
			return l
		}
	}
	if i := strings.Index(s, "\n"); i > 0 {
		return s[:i]
	}
	return s
}
