// Package inject holds the generator of Go source files (field-shape grammar) and the independent reference
// model of tag injection used by C06, C07 and C19: it works from go/parser positions of the *input* and its own parser
// of conventional struct tags; it does not use the file package of the repository.
package inject

import (
	"bytes"
	"fmt"
	"go/ast"
	"go/parser"
	"go/token"
	"reflect"
	"strconv"
	"strings"
)

// Item is one key:"value" pair of a conventional struct tag (Value is the raw text between the quotes).
type Item struct{ Key, Value string }

// ParseTag parses conventional key:"value" pairs (Go string quoting inside the quotes); other text is skipped.
func ParseTag(s string) []Item {
	var out []Item
	i := 0
	for i < len(s) {
		// key: run of word characters followed by :"
		j := i
		for j < len(s) && (s[j] == '_' || s[j] >= '0' && s[j] <= '9' || s[j] >= 'a' && s[j] <= 'z' || s[j] >= 'A' && s[j] <= 'Z') {
			j++
		}
		if j > i && j+1 < len(s) && s[j] == ':' && s[j+1] == '"' {
			k := j + 2
			for k < len(s) && s[k] != '"' {
				if s[k] == '\\' && k+1 < len(s) {
					k++
				}
				k++
			}
			if k < len(s) {
				out = append(out, Item{s[i:j], s[j+2 : k]})
				i = k + 1
				continue
			}
		}
		if j > i {
			i = j
		} else {
			i++
		}
	}
	return out
}

// Merge: existing keys keep value and position unless overridden; new keys are appended in order; no duplicates.
func Merge(cur, inj []Item) []Item {
	out := append([]Item{}, cur...)
	for _, in := range inj {
		found := false
		for i := range out {
			if out[i].Key == in.Key {
				out[i].Value = in.Value
				found = true
				break
			}
		}
		if !found {
			out = append(out, in)
		}
	}
	return out
}

// Area is one annotated field of the input.
type Area struct {
	TagStart, TagEnd int // byte offsets of the tag literal (including back quotes)
	Cur, Inj         []Item
	Field            string
}

// Analyse finds the annotated fields of a Go source the way the property states it: top-level type declarations
// (first spec), struct fields with a tag literal and a trailing comment "@tag k:\"v\" ...".
// ok=false when the source does not parse.
func Analyse(src []byte) (areas []Area, ok bool) {
	fset := token.NewFileSet()
	f, err := parser.ParseFile(fset, "x.go", src, parser.ParseComments)
	if err != nil {
		return nil, false
	}
	for _, d := range f.Decls {
		gd, isG := d.(*ast.GenDecl)
		if !isG || gd.Tok != token.TYPE || len(gd.Specs) == 0 {
			continue
		}
		ts, isT := gd.Specs[0].(*ast.TypeSpec)
		if !isT {
			continue
		}
		st, isS := ts.Type.(*ast.StructType)
		if !isS {
			continue
		}
		for _, fld := range st.Fields.List {
			if fld.Tag == nil || fld.Comment == nil {
				continue
			}
			// every "@tag ..." comment behind the field contributes its pairs, in comment order, to one injection
			var inj []Item
			annotated := false
			for _, cm := range fld.Comment.List {
				k := strings.Index(cm.Text, "@tag ")
				if k < 0 {
					continue
				}
				rest := cm.Text[k+5:]
				if nl := strings.IndexByte(rest, '\n'); nl >= 0 {
					rest = rest[:nl]
				}
				if rest == "" {
					continue
				}
				annotated = true
				inj = append(inj, ParseTag(rest)...)
			}
			if !annotated {
				continue
			}
			lit := fld.Tag.Value
			name := ""
			if len(fld.Names) > 0 {
				name = fld.Names[0].Name
			}
			areas = append(areas, Area{
				TagStart: fset.Position(fld.Tag.Pos()).Offset, TagEnd: fset.Position(fld.Tag.End()).Offset,
				Cur: ParseTag(lit[1 : len(lit)-1]), Inj: inj, Field: name,
			})
		}
	}
	return areas, true
}

// Expected renders the model output (tag items joined by one space).
func Expected(src []byte) ([]byte, bool) {
	areas, ok := Analyse(src)
	if !ok {
		return src, false
	}
	var out bytes.Buffer
	pos := 0
	for _, a := range areas {
		out.Write(src[pos:a.TagStart])
		out.WriteString("`" + Format(Merge(a.Cur, a.Inj)) + "`")
		pos = a.TagEnd
	}
	out.Write(src[pos:])
	return out.Bytes(), true
}

func Format(items []Item) string {
	var p []string
	for _, it := range items {
		p = append(p, it.Key+`:"`+it.Value+`"`)
	}
	return strings.Join(p, " ")
}

// Check compares an injector output with the input according to C06. It returns "" or a violation kind and detail.
func Check(src, out []byte) (kind, detail string) {
	areas, ok := Analyse(src)
	if !ok {
		if !bytes.Equal(src, out) {
			return "unparsable-file-changed", "input does not parse but the file was modified"
		}
		return "", ""
	}
	pos := 0
	rest := out
	for i, a := range areas {
		seg := src[pos:a.TagStart]
		if !bytes.HasPrefix(rest, seg) {
			return "bytes-outside-tag-literals-changed", fmt.Sprintf("segment before annotated field #%d (%s) differs: want %q, got %q", i, a.Field, clip(seg), clip(rest))
		}
		rest = rest[len(seg):]
		if len(rest) == 0 || rest[0] != '`' {
			return "tag-literal-lost", fmt.Sprintf("no tag literal where field #%d (%s) had one: %q", i, a.Field, clip(rest))
		}
		end := bytes.IndexByte(rest[1:], '`')
		if end < 0 {
			return "tag-literal-lost", fmt.Sprintf("unterminated tag literal for field #%d (%s)", i, a.Field)
		}
		lit := string(rest[1 : 1+end])
		rest = rest[end+2:]
		got := ParseTag(lit)
		want := Merge(a.Cur, a.Inj)
		if k, d := compareItems(a, got, want, lit); k != "" {
			return k, fmt.Sprintf("field #%d (%s): %s; tag now `%s`, expected `%s`", i, a.Field, d, lit, Format(want))
		}
		// the statement's own observer: reflect.StructTag lookup of every injected key
		for _, in := range a.Inj {
			if uq, err := strconv.Unquote(`"` + in.Value + `"`); err == nil {
				if v, ok := reflect.StructTag(lit).Lookup(in.Key); !ok || v != uq {
					return "lookup-mismatch", fmt.Sprintf("field #%d (%s): reflect.StructTag.Lookup(%q)=%q,%v want %q", i, a.Field, in.Key, v, ok, uq)
				}
			}
		}
		pos = a.TagEnd
	}
	if !bytes.Equal(rest, src[pos:]) {
		return "bytes-outside-tag-literals-changed", fmt.Sprintf("tail after the last annotated field differs: want %q, got %q", clip(src[pos:]), clip(rest))
	}
	if _, ok := Analyse(out); !ok {
		return "output-does-not-parse", "go/parser rejects the output"
	}
	return "", ""
}

func compareItems(a Area, got, want []Item, lit string) (string, string) {
	seen := map[string]bool{}
	for _, g := range got {
		if seen[g.Key] {
			return "duplicate-key", "key " + g.Key + " occurs twice"
		}
		seen[g.Key] = true
	}
	for _, in := range a.Inj {
		found := false
		for _, g := range got {
			if g.Key == in.Key {
				found = true
				if g.Value != in.Value {
					return "injected-value-wrong", fmt.Sprintf("key %s has value %q, the comment says %q", in.Key, g.Value, in.Value)
				}
			}
		}
		if !found {
			return "injected-key-missing", "key " + in.Key + " was not injected"
		}
	}
	if len(got) != len(want) {
		if len(got) < len(want) {
			return "existing-key-lost", fmt.Sprintf("%d keys, expected %d", len(got), len(want))
		}
		return "unexpected-key", fmt.Sprintf("%d keys, expected %d", len(got), len(want))
	}
	for i := range want {
		if got[i].Key != want[i].Key {
			return "key-order-changed", fmt.Sprintf("position %d holds %s, expected %s", i, got[i].Key, want[i].Key)
		}
		if got[i].Value != want[i].Value {
			return "existing-value-changed", fmt.Sprintf("key %s has value %q, expected %q", got[i].Key, got[i].Value, want[i].Value)
		}
	}
	return "", ""
}

func clip(b []byte) string {
	if len(b) > 120 {
		return string(b[:120]) + "…"
	}
	return string(b)
}

// ---------------------------------------------------------------------------------------------
// generator

// FieldVariant is one concrete field text (a full line, without indentation).
type FieldVariant struct {
	Shape     string
	Text      string
	Annotated bool
}

const pbTag = "protobuf:\"bytes,1,opt,name=name,proto3\" json:\"name,omitempty\""

// FieldMenu returns the field variants: shape x existing tag x injected values.
func FieldMenu() []FieldVariant {
	var m []FieldVariant
	add := func(shape, text string, ann bool) { m = append(m, FieldVariant{shape, text, ann}) }
	add("F0-plain", "Plain string", false)
	add("F1-tag-only", "TagOnly string `"+pbTag+"`", false)
	add("F2-tag+comment", "Commented int32 `json:\"commented\"` // 年龄 plain comment", false)
	existing := []string{pbTag, `json:"name"`, `json:"name" valid:"required"`}
	inj := []string{`valid:"required"`, `valid:"to=1~3|姓名"`, `valid:"re='^\\d+$'"`, `valid:"required,in=($a/$b)"`, `valid:"x y"`}
	for ei, e := range existing {
		for ii, v := range inj {
			if (ei+ii)%2 == 0 || ei == 0 {
				add("F4-add", fmt.Sprintf("Add%d%d string `%s` // @tag %s", ei, ii, e, v), true)
			}
		}
	}
	add("F3-override", "Override string `"+pbTag+"` // @tag json:\"nm\"", true)
	add("F3-override-first", "OverrideFirst string `json:\"a\" xml:\"b\" valid:\"c\"` // @tag json:\"z\"", true)
	add("F3-override-middle", "OverrideMid string `json:\"a\" xml:\"b\" valid:\"c\"` // @tag xml:\"$1\"", true)
	add("F5-override+add", "Both string `"+pbTag+"` // @tag json:\"nm\" valid:\"to=1~3|姓名\"", true)
	add("F5-add+override", "Both2 string `json:\"x\" valid:\"old\"` // @tag form:\"f\" valid:\"new\" json:\"y\"", true)
	add("F6-cjk-before", "Cjk string `"+pbTag+"` // 姓名, 必填 @tag valid:\"required,to=1~3\"", true)
	add("F7-multi-name", "MultiA, MultiB string `json:\"multi\"` // @tag valid:\"required\"", true)
	add("F8-embedded", "Embedded `json:\"embedded\"` // @tag valid:\"exist\"", true)
	add("F9-restate", "Restate string `json:\"same\" valid:\"required\"` // @tag valid:\"required\"", true)
	add("F10-block-comment", "Block string `json:\"block\"` /* 说明 @tag valid:\"required\" */", true)
	add("F10-block-comment-two-lines", "Block2 string `json:\"block2\"` /* @tag valid:\"required\"\n\t   the name is mandatory */", true)
	add("F10-block-comment-tag-on-second-line", "Block3 string `json:\"block3\"` /* 说明\n\t   @tag valid:\"required\" form:\"b\"\n\t*/", true)
	add("F11-doc+trailing", "// Doc mentions @tag form:\"doc\"\nDocAnd string `json:\"doc\"` // @tag valid:\"required\"", true)
	add("F12-colon-value", "Gorm string `gorm:\"column:user_name\" json:\"g\"` // @tag valid:\"re='^a:b$'\"", true)
	add("F13-same-comment", "SameA string `json:\"sa\"` // @tag valid:\"required\" form:\"trim\"", true)
	add("F13-same-comment2", "SameB string `json:\"sb\"` // @tag valid:\"required\" form:\"trim\"", true)
	add("F14-ptr-type", "Ptr *Embedded `json:\"ptr,omitempty\"` // 指针 @tag valid:\"exist\" json:\"p\"", true)
	add("F15-mention-only", "Mention string `json:\"mention\"` // see @tag", false)
	add("F16-long", "Long map[string][]*Embedded `protobuf:\"bytes,9,rep,name=long,proto3\" json:\"long,omitempty\" protobuf_key:\"bytes,1,opt,name=key,proto3\" protobuf_val:\"bytes,2,opt,name=value,proto3\"` // @tag valid:\"required\" json:\"l\"", true)
	// field types that span several lines and hold tag literals of their own (§ = position index for unique names)
	add("F19-multiline-anonymous-struct", "Nested§ struct {\n\tA int `json:\"a\"`\n\tB string `json:\"b\" valid:\"inner\"` // inner @tag valid:\"never-ever\" form:\"no\"\n} `json:\"nested\"` // @tag valid:\"required\"", true)
	add("F19-multiline-func-type", "Fn§ func(\n\ta int, // first\n\tb string,\n) error `json:\"-\"` // @tag valid:\"exist\"", true)
	add("F19-oneline-anonymous-struct", "Page§ struct{ No int `json:\"no\"` } `json:\"page\"` // @tag valid:\"required\"", true)
	// an inner field whose tag literal is byte-identical to the annotated outer one: the outer literal is the one merged
	add("F21-oneline-inner-tag-identical", "Twin§ struct{ No int `json:\"twin\"` } `json:\"twin\"` // @tag valid:\"required\"", true)
	add("F21-multiline-inner-tag-identical", "TwinM§ struct {\n\tA int `json:\"tm\"`\n\tB int `json:\"tm\"`\n} `json:\"tm\"` // @tag valid:\"required\" json:\"t2\"", true)
	// values with backslashes / non-printable-looking runes on keys the annotation does not mention: kept byte for byte
	add("F20-backslash-in-untouched-value", "Bind string `binding:\"regexp=^\\\\d{6}$\" json:\"bind\"` // @tag valid:\"required\"", true)
	add("F20-wide-space-in-untouched-value", "Wide string `comment:\"全角　空格\ttab\" json:\"wide\"` // @tag valid:\"required\" json:\"w\"", true)
	// percent signs in values the annotation does not mention (and in one it does): text, not format verbs
	add("F22-percent-in-untouched-value", "Rate string `json:\"rate%,omitempty\" comment:\"100%d %s %v %% %!\"` // @tag valid:\"to=0~100|0%~100%\"", true)
	add("F22-percent-in-overridden-value", "Pct string `valid:\"le=100|%d%%\" json:\"pct\"` // @tag valid:\"le=100|at most 100%\"", true)
	// values holding "//" (URLs, patterns): text inside a value, not the start of a comment
	add("F23-double-slash-in-injected-values", "Home string `json:\"homepage\"` // @tag default:\"https://example.com/\" valid:\"re=^https?://\"", true)
	add("F23-double-slash-in-existing-value", "Site string `doc:\"see http://x//y\" json:\"site\"` // @tag valid:\"required\"", true)
	// an annotation that overrides a key whose existing value carries options, with options of its own
	add("F24-options-on-both-sides", "Opt string `json:\"user_id,omitempty\" xml:\"u,attr\"` // @tag json:\"id,string\"", true)
	// first keys that start with the letters of the marker word itself (a, g, t)
	add("F25-first-key-starts-with-marker-letters", "Gorm string `json:\"gorm_f\"` // @tag gorm:\"primaryKey\" toml:\"conf\"", true)
	// the trailing comment starts like a linter directive (go/ast drops such comments from CommentGroup.Text)
	add("F26-directive-style-comment", "Buyer string `json:\"buyer\"` //nolint:lll // 买家 @tag json:\"buyer_name\" valid:\"required,to=1~20\"", true)
	add("F26-directive-style-comment-line", "Lined string `json:\"lined\"` //line x.go:1 @tag valid:\"required\"", true)
	// kept keys whose values hold commas followed by several blanks, and an override of exactly the old length
	add("F27-kept-value-with-comma-and-blanks", "Desc string `json:\"desc\" description:\"first name,   then family name,  or both\"` // @tag valid:\"required, to=1~3\"", true)
	add("F27-same-length-override", "Nick string `json:\"name,omitempty\"` // @tag json:\"nick,omitempty\"", true)
	add("F25-first-key-avro-tag-a", "Avro string `json:\"avro_f\"` // @tag avro:\"alt_name\" tag:\"x\" a:\"1\" gg:\"2\"", true)
	// two annotated comments behind one field (block comment + line comment, two block comments), distinct keys; in the
	// "shrinking" variants the first comment's override makes the field much shorter or longer before the second applies
	add("F28-two-annotated-comments", "TwoC string `json:\"two_c\"` /* @tag valid:\"required\" */ // @tag form:\"two\"", true)
	add("F28-two-block-comments", "TwoB string `json:\"two_b\" xml:\"b\"` /* @tag xml:\"bb\" */ /* 说明 @tag valid:\"to=1~9\" */", true)
	add("F28-two-annotated-comments-shrinking", "TwoS string `json:\"two_s\" description:\"a long description of this field that an annotation replaces by a much shorter text, so that the field shrinks\"` /* @tag description:\"d\" */ // @tag valid:\"required\"", true)
	add("F28-two-annotated-comments-growing", "TwoG string `json:\"g\"` /* @tag json:\"a_much_longer_name_than_before_so_that_the_field_grows_by_more_than_the_rest_of_the_line,omitempty\" */ // @tag valid:\"required\"", true)
	add("F28-plain-then-annotated-comment", "TwoP string `json:\"two_p\"` /* 说明 */ // @tag valid:\"required\"", true)
	// the annotation overrides the first key of a generated tag (protobuf itself), alone and together with new keys
	add("F29-override-the-protobuf-key", "PbKey string `"+pbTag+"` // @tag valid:\"required\" protobuf:\"bytes,1,req,name=name\"", true)
	add("F29-override-every-existing-key", "AllKeys string `"+pbTag+"` // @tag json:\"n\" protobuf:\"bytes,2,opt,name=n\"", true)
	// keys that are a suffix / prefix of another key, same value: key matching must be on whole keys
	// an existing key the annotation does not mention whose value holds what a regexp template would expand (round 13)
	add("F30-existing-value-with-dollar-templates", "Price string `layout:\"$${amount} USD $$x\" json:\"price\"` // @tag valid:\"required\"", true)
	add("F30-existing-value-with-dollar-templates-overridden-neighbour", "Fee string `json:\"fee\" fmt:\"$$fee and $$ and $${1}0 $name ${1}\"` // @tag json:\"fee_cents\" valid:\"ge=$1\"", true)
	// '@' inside injected values (JSON-LD keys, a default e-mail address); a second marker word inside a value (round 14)
	add("F31-at-sign-in-values", "Ld string `json:\"id\"` // @tag json:\"@id\" default:\"nobody@example.com\" valid:\"required\"", true)
	add("F31-marker-word-in-value", "Note string `json:\"note\"` // 备注 @tag doc:\"see @tag docs\" valid:\"to=1~9\"", true)
	add("F17-key-suffix-of-existing", "KeySuffix string `binding_valid:\"required\" json:\"ks\"` // @tag valid:\"required\"", true)
	add("F17-key-prefix-of-existing", "KeyPrefix string `json:\"kp\" validx:\"required\"` // @tag valid:\"required\" json:\"kp\"", true)
	add("F18-value-held-by-other-key", "OtherKey string `xvalid:\"a\" valid:\"b\"` // @tag valid:\"a\"", true)
	return m
}

// DupKeyMenu: annotations that repeat a key. What the merged tag should be is not specified (so these variants are not
// part of C06's space); that repeated runs leave the file unchanged is (C07).
func DupKeyMenu() []FieldVariant {
	return []FieldVariant{
		{"D1-dup-key-added", "DupA string `json:\"da\"` // @tag valid:\"to=1~150\" valid:\"required\"", true},
		{"D2-dup-key-overriding", "DupB string `json:\"db\" valid:\"old\"` // @tag valid:\"to=1~150\" valid:\"required\" form:\"f\"", true},
		{"D3-dup-existing-key", "DupC string `json:\"dc\" valid:\"x\" valid:\"y\"` // @tag valid:\"z\"", true},
		// annotated fields without a tag literal of their own (what the tool should do with them is not specified;
		// that a second run changes nothing is)
		{"D4-no-tag-literal", "NoTag string // @tag valid:\"required\"", true},
		{"D5-no-tag-literal-inner-tags", "PageNT struct{ No int `json:\"no\"` } // @tag valid:\"required\"", true},
		{"D6-no-tag-literal-malformed-annotation", "BadNT string // @tag valid:required", true},
		{"D7-malformed-annotation", "BadT string `json:\"b\"` // @tag valid:required json:", true},
		// existing literals holding text that is not a key:"non-empty value" pair (what becomes of that text is not
		// specified; that the second run changes nothing is)
		{"D8-empty-value-first", "EmptyA string `bson:\"\" json:\"ea\"` // @tag valid:\"required\"", true},
		{"D9-empty-value-last", "EmptyB string `json:\"eb\" bson:\"\"` // @tag valid:\"required\" json:\"e\"", true},
		{"D10-bare-word-in-literal", "Bare string `json:\"bw\" omitempty  xml:\"x\"` // @tag valid:\"required\"", true},
		{"D13-keys-with-dash-and-dot", "Ext string `json:\"ext\"` // @tag x-order:\"2\" json.name:\"n\"", true},
		{"D14-empty-raw-tag-literal", "EmptyRaw string `` // @tag valid:\"required\"", true},
		{"D15-key-twice-in-existing-tag-and-overridden", "Twice string `json:\"name\" xml:\"x\" json:\"nick\"` // @tag json:\"nick2\"", true},
		{"D16-key-twice-in-existing-tag-not-overridden", "Twice2 string `json:\"name\" json:\"nick\"` // @tag valid:\"required\"", true},
		// two annotated comments behind one field naming the same key (which one wins is not specified)
		{"D17-two-annotated-comments-same-key", "TwoK string `json:\"two_k_with_a_long_name_that_will_be_replaced_by_something_short\"` /* @tag json:\"a\" */ // @tag json:\"b\"", true},
		// an annotation value holding a back quote cannot be written into a raw-string tag literal as it is (what the tool
		// should write is not specified; that a second run changes nothing is)
		{"D18-back-quote-in-annotation-value", "BackQ string `json:\"bq\"` // @tag valid:\"required|请填写`手机号`\"", true},
		{"D18-back-quote-in-annotation-value-generated-tag", "BackP string `" + pbTag + "` // @tag valid:\"re='^`'\" json:\"p\"", true},
		{"D11-only-unrecognised-text", "OnlyU string `bson:\"\"` // @tag valid:\"required\"", true},
	}
}

// Fillers are top-level declarations that are not annotated structs.
var Fillers = []string{
	"func helper(a int) int {\n\treturn a + 1 // @tag valid:\"no\"\n}",
	"var version = \"v1 `x`\" // 版本 @tag json:\"v\"",
	"const answer = 42",
	"type Stringer interface {\n\tString() string // @tag valid:\"iface\"\n}",
	"type Alias = int32",
	"type Embedded struct {\n\tInner int `json:\"inner\"`\n}",
}

// StructDecl renders a struct declaration.
func StructDecl(name string, fields []FieldVariant) string {
	var b strings.Builder
	b.WriteString("// " + name + " 消息\ntype " + name + " struct {\n")
	for i, f := range fields {
		t := f.Text
		// field names must be unique inside one struct: suffix the leading identifier(s)
		t = uniq(t, i)
		b.WriteString("\t" + t + "\n")
	}
	b.WriteString("}")
	return b.String()
}

func uniq(t string, i int) string {
	if strings.Contains(t, "§") {
		return strings.ReplaceAll(strings.ReplaceAll(t, "§", strconv.Itoa(i)), "\n", "\n\t")
	}
	lines := strings.Split(t, "\n")
	last := lines[len(lines)-1]
	last = strings.TrimLeft(last, "\t")
	if strings.HasPrefix(last, "Embedded ") || strings.HasPrefix(last, "Embedded`") {
		if i > 0 {
			// a second embedded field of the same type is not valid Go: turn it into a named field
			last = fmt.Sprintf("Emb%d ", i) + last
		}
	} else if k := strings.IndexAny(last, ", "); k > 0 {
		if strings.HasPrefix(last[k:], ", ") {
			// multi-name
			k2 := strings.Index(last[k+2:], " ")
			last = last[:k] + strconv.Itoa(i) + ", " + last[k+2:k+2+k2] + strconv.Itoa(i) + last[k+2+k2:]
		} else {
			last = last[:k] + strconv.Itoa(i) + last[k:]
		}
	}
	lines[len(lines)-1] = last
	return strings.Join(lines, "\n\t")
}

// File renders a file from declarations.
// GeneratedHeaders: what stands in front of the package clause of real generated files (round 12): protoc-gen-go's own
// header with its versions list, the same behind a licence comment copied from the .proto (line comments and a block
// comment, blank line in between), protoc-gen-go-grpc's, and a build constraint. Every byte of them is outside any tag.
var GeneratedHeaders = []string{
	"// Code generated by protoc-gen-go. DO NOT EDIT.\n// versions:\n// \tprotoc-gen-go v1.26.0\n// \tprotoc        v3.17.3\n// source: user.proto",
	"// Copyright 2021 The Authors. 保留所有权利.\n// Licensed under the Apache License, Version 2.0\n\n// Code generated by protoc-gen-go. DO NOT EDIT.\n// versions:\n// \tprotoc-gen-go v1.28.1\n// \tprotoc        (unknown)\n// source: api/v1/user.proto",
	"/*\n * Licence text @tag valid:\"required\"\n */\n\n// Code generated by protoc-gen-go. DO NOT EDIT.\n// versions:\n// \tprotoc-gen-go v1.26.0\n// \tprotoc        v3.17.3\n// source: user.proto\n",
	"// Code generated by protoc-gen-go-grpc. DO NOT EDIT.\n// versions:\n// - protoc-gen-go-grpc v1.2.0\n// - protoc             v3.21.12\n// source: user.proto",
	"//go:build !ignore\n// +build !ignore\n\n// Code generated by protoc-gen-go. DO NOT EDIT.\n// versions:\n// \tprotoc-gen-go v1.26.0\n// source: user.proto",
}

func File(header string, decls []string) []byte {
	var b strings.Builder
	if header != "" {
		b.WriteString(header + "\n")
	}
	b.WriteString("package pb\n\n")
	for _, d := range decls {
		b.WriteString(d + "\n\n")
	}
	return []byte(b.String())
}
