// Package errparse parses the library's error strings into clauses (DESIGN.md Appendix A).
package errparse

import "strings"

const Sep = "; "

type Clause struct {
	Raw      string
	Path     string // "" when absent
	HasInput bool   // value clause: input "V"
	Input    string
	Label    string // "explain:" | "说明:" | ""
	Text     string // text after the label (value clause) or the whole free text (config / group clause)
	Group    bool   // group clause: "P1", "P2" explain: ...
	Members  []string
}

// Split splits an error string into raw clauses.
func Split(err string) []string {
	if err == "" {
		return nil
	}
	return strings.Split(err, Sep)
}

// Parse parses every clause of an error string.
func Parse(err string) []Clause {
	var out []Clause
	for _, r := range Split(err) {
		out = append(out, ParseClause(r))
	}
	return out
}

func ParseClause(raw string) Clause {
	c := Clause{Raw: raw}
	rest := raw
	if strings.HasPrefix(rest, `"`) {
		// group clause?  "A", "B"[, "C"] explain: they ...
		if k := strings.Index(rest, `" explain: they `); k > 0 && strings.Contains(rest[:k], `", "`) {
			c.Group = true
			c.Members = strings.Split(rest[1:k], `", "`)
			c.Label = "explain:"
			c.Text = rest[k+len(`" explain: `):]
			return c
		}
		if k := strings.Index(rest[1:], `" `); k >= 0 {
			c.Path = rest[1 : 1+k]
			rest = rest[1+k+2:]
		}
	}
	if strings.HasPrefix(rest, `input "`) {
		c.HasInput = true
		body := rest[len(`input "`):]
		for _, l := range []string{"explain:", "说明:"} {
			if k := strings.Index(body, `", `+l+` `); k >= 0 {
				c.Input = body[:k]
				c.Label = l
				c.Text = body[k+len(`", `+l+` `):]
				return c
			}
		}
		// label present but text glued differently (e.g. "..., explain:" + custom text containing the label itself)
		for _, l := range []string{"explain:", "说明:"} {
			if k := strings.Index(body, `", `+l); k >= 0 {
				c.Input = body[:k]
				c.Label = l
				c.Text = strings.TrimPrefix(body[k+len(`", `+l):], " ")
				return c
			}
		}
		if strings.HasSuffix(body, `"`) {
			c.Input = body[:len(body)-1]
		} else {
			c.Input = body
		}
		return c
	}
	c.Text = rest
	return c
}
