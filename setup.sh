#!/bin/bash
# setup_cmd: builds the framework offline from files on disk and warms the Go build cache.
export GOFLAGS=-mod=mod GOPROXY=off GOSUMDB=off GOTOOLCHAIN=local
cd /verif || exit 1
mkdir -p .build evidence replays
go build ./internal/... ./cmd/... 2>&1 || exit 1
for d in harness/*/; do
  id=$(basename "$d")
  if [ -f "$d/SCHED" ]; then
    go build -o .build/mkoverlay ./cmd/mkoverlay && .build/mkoverlay -o .build/overlay.json || exit 1
    go build -overlay .build/overlay.json -o ".build/$id" "./$d" || exit 1
    if [ ! -f "$d/NORACE" ]; then go build -race -overlay .build/overlay.json -o ".build/$id.race" "./$d" || exit 1; fi
  else
    go build -o ".build/$id" "./$d" || exit 1
  fi
done
echo setup ok
